"""C20 — bias and trend evaluation report the documented quantities (ibicus/evaluate)."""
import datetime
import logging
import math
import random
import warnings
from fractions import Fraction

import numpy as np

from harness import common as C

PROP = "C20"
TARGETS = ["IbicusModel.Props.C20", "IbicusModel.Lemmas.GenEvaluateGrid", "IbicusModel.Lemmas.GenEvaluateGrid2"]  # the audit imports all three
GEN = ["Evaluate", "EvaluateConfig", "EvaluateGrid", "EvaluateGrid2"]  # EvaluateGrid(2): grid-level structure (translator/extract_evalgrid(2).py)

GRIDS = [(1, 1), (1, 3), (2, 2), (3, 1)]
STATS = {"rows_checked_by_position": 0}
TOL = 1e-9


# ------------------------------------------------------------------ generation
def gen_time(rng, n_years):
    """sorted python dates covering `n_years` distinct (not necessarily consecutive) years, 3..8 days each.
    lengths with (T-1) % 10 == 0 are avoided so that (T-1)*q is never within rounding of an integer for q = 0.05/0.95/0.3"""
    while True:
        y0 = rng.randint(1950, 2080)
        years = sorted(rng.sample(range(y0, y0 + 6), n_years))
        dates = []
        for y in years:
            k = rng.randint(3, 8)
            days = sorted(rng.sample(range(0, 365), k))
            dates += [datetime.date(y, 1, 1) + datetime.timedelta(days=d) for d in days]
        if (len(dates) - 1) % 10 != 0:
            return np.array(dates, dtype=object)


def gen_data(rng, T, I, J, flavour):
    """dyadic values k/8; 'regular' is positive (statistics are not 0), 'degenerate' has constant / zero columns"""
    a = np.empty((T, I, J))
    for i in range(I):
        for j in range(J):
            if flavour == "degenerate" and rng.random() < 0.5:
                a[:, i, j] = rng.choice([0.0, 0.0, rng.randint(1, 40) / 8.0])
            else:
                lo, hi = (8, 128) if flavour == "regular" else (-40, 80)
                a[:, i, j] = [rng.randint(lo, hi) / 8.0 for _ in range(T)]
    return a


def gen_metric(rng, flavour):
    """(ThresholdMetric, driver text): overall / global thresholds of the four types"""
    from ibicus.evaluate.metrics import ThresholdMetric

    kind = rng.choice(["higher", "lower", "between", "outside"])
    lo, hi = (8, 128) if flavour == "regular" else (-40, 80)
    a = rng.randint(lo + 20, hi - 40) / 8.0
    b = a + rng.randint(8, 80) / 8.0
    if kind in ("higher", "lower"):
        return ThresholdMetric(threshold_value=a, threshold_type=kind, name=f"{kind} {a}"), f"{kind}:{C.rat(a)}", (kind, a, None)
    return ThresholdMetric(threshold_value=[a, b], threshold_type=kind, name=f"{kind} {a} {b}"), f"{kind}:{C.rat(a)}:{C.rat(b)}", (kind, a, b)


def holds(mspec, x):
    kind, a, b = mspec
    if kind == "higher":
        return x > a
    if kind == "lower":
        return x < a
    if kind == "between":
        return (x > a) & (x < b)
    return (x < a) | (x > b)


def ensure_occurs(rng, mspec, arrays):
    """regular cases: every column of every data set has the metric at least once and not always (dyadic patch values)"""
    kind, a, b = mspec
    inside = {"higher": a + 1, "lower": a - 1, "between": a + 0.125 if b is None else (a + b) / 2, "outside": a - 1}[kind]
    outside = {"higher": a - 1, "lower": a + 1, "between": a - 1, "outside": a + 0.125 if b is None else (a + b) / 2}[kind]
    for x in arrays:
        for i in range(x.shape[1]):
            for j in range(x.shape[2]):
                c = x[:, i, j]
                if not holds(mspec, c).any():
                    c[rng.randrange(len(c))] = inside
                if holds(mspec, c).all():
                    c[rng.randrange(len(c))] = outside
                if not holds(mspec, c).any():  # the second patch removed the only occurrence (T >= 3: pick another slot)
                    k = int(np.argmin(holds(mspec, c)))
                    c[(k + 1) % len(c)] = inside


# ------------------------------------------------------------------ calling the real code
MUTATED = []  # (function name, argument label): a public call changed one of the caller's arrays (byte comparison)


def _arrays(label, v, out, conts=None):
    """collects the ndarrays (numeric and object, e.g. dates) and the mutable containers (lists / dicts) of an argument"""
    if isinstance(v, np.ndarray):
        out.append((label, v))
    elif isinstance(v, (list, tuple)):
        if conts is not None and isinstance(v, list):
            conts.append((label, v, list(v)))
        for n, x in enumerate(v):
            _arrays(f"{label}[{n}]", x, out, conts)
    elif isinstance(v, dict):
        if conts is not None:
            conts.append((label, v, dict(v)))
        for key, x in v.items():
            _arrays(f"{label}[{key!r}]", x, out, conts)


def _same_items(now, before):
    """a container is unchanged when it has the same length and every item is the same object (or an equal scalar / string)"""
    if isinstance(before, dict):
        return list(now.keys()) == list(before.keys()) and all(_same_items([now[k_]], [before[k_]]) for k_ in before)
    return len(now) == len(before) and all(x is y or (isinstance(y, (int, float, str, bool)) and type(x) is type(y) and x == y)
                                           for x, y in zip(now, before))


def defaults_snapshot():
    """the mutable default arguments of the public evaluation functions (a function must not change them between calls)"""
    import copy
    import inspect

    from ibicus.evaluate import correlation, marginal, multivariate, trend

    fns = [marginal.calculate_marginal_bias, marginal.calculate_bias_days_metrics, trend.calculate_future_trend_bias, trend.calculate_future_trend,
           multivariate.calculate_conditional_joint_threshold_exceedance, correlation.rmse_spatial_correlation_distribution]
    out = {}
    for f in fns:
        for name, par in inspect.signature(f).parameters.items():
            if isinstance(par.default, (list, dict, set)):
                out[(f.__name__, name)] = (par.default, copy.deepcopy(par.default))
    return out


DEFAULTS0 = {}


def defaults_changed():
    """[(function, parameter, before, now)] and restores the default objects in place"""
    bad = []
    for (fname, name), (obj, before) in DEFAULTS0.items():
        if obj != before:
            bad.append((fname, name, before, type(before)(obj)))
            if isinstance(obj, list):
                obj[:] = before
            elif isinstance(obj, dict):
                obj.clear()
                obj.update(before)
    return bad


def call(fn, *a, **k):
    """-> ("ok", value) | ("raise", exception class name).  Every real call goes through here: an exception of the real
    code never escapes the harness, and the caller's arrays are compared byte for byte before / after the call (a call
    that changed one is recorded in MUTATED and the content is restored so that later comparisons stay meaningful)."""
    arrs, conts = [], []
    for n, v in enumerate(a):
        _arrays(f"arg{n}", v, arrs, conts)
    for key, v in k.items():
        _arrays(key, v, arrs, conts)
    snap = [(lab, x, x.copy()) for lab, x in arrs]
    with warnings.catch_warnings(), np.errstate(all="ignore"):
        warnings.simplefilter("ignore")
        try:
            out = ("ok", fn(*a, **k))
        except Exception as ex:  # noqa: BLE001
            if isinstance(ex, ValueError) and "No objects to concatenate" in str(ex):
                out = ("raise", "NoRows")  # pandas: every row of the result frame was dropped (inf somewhere)
            else:
                out = ("raise", type(ex).__name__)
    fname = getattr(fn, "__name__", str(fn))
    for lab, x, before in snap:
        changed = (not np.array_equal(x, before)) if x.dtype == object else (x.tobytes() != before.tobytes())
        if changed:
            if (fname, lab) not in MUTATED:
                MUTATED.append((fname, lab))
            x[...] = before
    for lab, c, before in conts:  # lists / dicts the caller holds (statistics, metrics, [data, time] pairs)
        if not _same_items(c, before):
            note = f"{lab} (list/dict: {before!r:.80} -> {c!r:.80})"
            if (fname, note) not in MUTATED:
                MUTATED.append((fname, note))
            if isinstance(c, list):
                c[:] = before
            else:
                c.clear()
                c.update(before)
    return out


def C_list(xs):
    return ",".join(xs) if xs else "-"


def row(df, key, metric, colname="Bias"):
    """the 2-d array of one row of a result frame, or None when the row was dropped"""
    sel = df[(df["Correction Method"] == key) & (df["Metric"] == metric)]
    if len(sel) == 0:
        return None
    return np.asarray(sel[colname].iloc[0], dtype=float)


def cols(*arrays):
    """per location: the columns of all arrays, as driver text"""
    I, J = arrays[0].shape[1:]
    return [((i, j), " ".join(C.rlist(a[:, i, j].tolist()) for a in arrays)) for i in range(I) for j in range(J)]


class Batch:
    """collects (per-location driver lines, real outcome) of public calls; evaluated after one driver run"""

    def __init__(self):
        self.items = []
        self.lines = []
        self.exact = []  # (driver line, expected output text, case): compared exactly

    def add(self, what, case, op_prefix, arrays, real, shape, dropped_on_inf=True, tie_possible=False, scale=1.0, factor=1.0, tie_locs=()):
        start = len(self.lines)
        for _, txt in cols(*arrays):
            self.lines.append(op_prefix + " " + txt)
        self.items.append(dict(what=what, case=case, start=start, n=len(self.lines) - start, real=real, shape=shape,
                               dropped_on_inf=dropped_on_inf, tie=tie_possible, scale=scale, factor=factor, tie_locs=set(tie_locs)))


def parse_res(s):
    """'ok 3/4' | 'error div0' -> ('ok', Fraction) | ('error', name)"""
    k, v = s.split(" ", 1)
    return (k, Fraction(v)) if k == "ok" else (k, v)


def close(real, model, scale):
    return math.isfinite(real) and abs(Fraction(real) - model) <= Fraction(TOL) * (1 + Fraction(scale) + abs(model))


def judge(item, outs, res):
    """compare one public call with the per-location model results; returns None or a description"""
    per = [parse_res(o) for o in outs]
    per = [(k, v * Fraction(item["factor"])) if k == "ok" else (k, v) for k, v in per]
    raises = [v for k, v in per if k == "error" and v != "div0"]
    kind, val = item["real"]
    hist = res.extra.setdefault("outcomes", {})
    tag = (f"model raises {raises[0]} at {'all' if len(raises) == len(per) else 'some'} locations" if raises
           else ("model non-finite at some location" if any(k == "error" for k, _ in per) else "finite everywhere"))
    tag += " / impl " + (f"raises {val}" if kind == "raise" else ("row dropped" if val is None else "returns"))
    hist[tag] = hist.get(tag, 0) + 1
    if item["tie_locs"]:
        # discontinuity guard: a *computed* (lerp-ed) quantile sits within rounding of 0 in a denominator at these
        # locations; float and exact arithmetic may legitimately fall on different sides (zero guard, inf, huge value)
        res.extra["ties_accepted"] = res.extra.get("ties_accepted", 0) + 1
        if kind == "raise":
            return None if val == "ZeroDivisionError" or (raises and val == raises[0]) else f"raised {val}"
        if val is None:
            return None
        raises = []
    if raises:
        # Model.Evaluate.gridEval: one raising location aborts the call.  The multiplicative guards are `np.all` over
        # the grid; on a grid with more than one location the property does not fix whether a zero validation statistic
        # at some location makes the call raise or report non-finite values there (the documented quantity does not
        # exist at such a location either way), so both are accepted (and counted).  A 1x1 grid must raise.
        if kind == "raise":
            return None if val == raises[0] else f"raised {val}, model {raises[0]}"
        if len(per) == 1 or raises[0] != "ZeroDivisionError":
            return f"returned a value, model raises {raises[0]}"
        res.extra["mixed_guard_accepted"] = res.extra.get("mixed_guard_accepted", 0) + 1
    elif kind == "raise":
        return f"raised {val}, model returns values"
    if kind == "raise":
        return None
    if val is None:  # row dropped: legitimate only if some location is non-finite in the model
        if item["dropped_on_inf"] and any(k == "error" for k, _ in per):
            return None
        return "row missing although every location has a finite value in the model"
    if val.shape != tuple(item["shape"]):
        return f"shape {val.shape} instead of {item['shape']}"
    flat = val.reshape(-1)
    for n, ((k, v), r) in enumerate(zip(per, flat)):
        if n in item["tie_locs"]:
            continue
        if k == "error":
            if item["tie"]:
                res.extra["ties_accepted"] = res.extra.get("ties_accepted", 0) + 1
                continue
            if math.isfinite(r):
                return f"location {n}: impl {r!r}, model {v} (non-finite expected)"
        elif not close(float(r), v, item["scale"]):
            return f"location {n}: impl {float(r)!r}, model {float(v)!r}"
    return None


def tie_locations(q, dens):
    """locations (row-major index) where a denominator formed from lerp-ed quantiles is within rounding of zero.
    dens: list of functions (i, j) -> float; only needed for quantile statistics"""
    return lambda shape, scale: {i * shape[1] + j for i in range(shape[0]) for j in range(shape[1])
                                 if any(abs(d(i, j)) < 1e-9 * (1 + scale) for d in dens)}


# ------------------------------------------------------------------ reference formulas (the property oracle)
def stat_at(stat, x, i, j, mspec=None):
    c = x[:, i, j]
    if stat == "mean":
        return float(np.mean(c))
    if stat == "metric":
        return float(np.sum(holds(mspec, c))) / len(c)
    return float(np.quantile(c, stat))


def ref_grid(shape, f):
    out = np.full(shape, np.nan)
    ok = True
    for i in range(shape[0]):
        for j in range(shape[1]):
            v = f(i, j)
            if v is None:
                ok = False
            else:
                out[i, j] = v
    return out if ok else None


def safe_div(a, b):
    return None if abs(b) < 1e-6 else a / b


def ref_marginal(bt, stat, obs, cm, mspec=None):
    def f(i, j):
        o, c = stat_at(stat, obs, i, j, mspec), stat_at(stat, cm, i, j, mspec)
        if bt == "absolute":
            return 365 * c - 365 * o if stat == "metric" else c - o
        return safe_div(100 * (c - o), o)

    return ref_grid(obs.shape[1:], f)


def ref_trend(tt, stat, v, f_, mspec=None):
    def f(i, j):
        a, b = stat_at(stat, v, i, j, mspec), stat_at(stat, f_, i, j, mspec)
        return b - a if tt == "additive" else safe_div(b, a)

    return ref_grid(v.shape[1:], f)


def ref_trend_bias(tt, stat, rv, rf, bv, bf, mspec=None):
    bt, rt = ref_trend(tt, stat, bv, bf, mspec), ref_trend(tt, stat, rv, rf, mspec)
    if bt is None or rt is None:
        return None
    return ref_grid(rv.shape[1:], lambda i, j: safe_div(100 * (bt[i, j] - rt[i, j]), rt[i, j]))


def ref_days(mspec, x, time):
    yrs = np.array([d.year for d in time])
    return ref_grid(x.shape[1:], lambda i, j: float(np.mean([np.sum(holds(mspec, x[yrs == y, i, j])) for y in np.unique(yrs)])))


def ref_chi(m1, m2, x1, x2):
    def f(i, j):
        a, b = holds(m1, x1[:, i, j]), holds(m2, x2[:, i, j])
        return None if b.sum() == 0 else 100.0 * float((a & b).sum()) / float(b.sum())

    return ref_grid(x1.shape[1:], f)


def differs(real, ref, scale):
    """property oracle comparison: real outcome ('ok', array) vs reference array (None = guard not met -> no demand)"""
    if ref is None:
        return None
    kind, val = real
    if kind == "raise":
        return f"raised {val} although every denominator is non-zero"
    if val is None:
        return "row dropped although every denominator is non-zero"
    if val.shape != ref.shape:
        return f"shape {val.shape} instead of {ref.shape}"
    bad = ~(np.abs(val - ref) <= TOL * (1 + scale + np.abs(ref)))
    if bad.any():
        idx = tuple(int(k) for k in np.argwhere(bad)[0])
        return f"location {idx}: returned {float(val[idx])!r}, documented formula gives {float(ref[idx])!r}"
    return None


def run_case(k, rng, tier, batch, res, problems, n_oracle):
    from ibicus.evaluate import correlation, marginal, multivariate, trend

    I, J = GRIDS[k % len(GRIDS)] if k < 8 else rng.choice(GRIDS + [(2, 3)])
    flavour = "regular" if k % 3 != 2 else "degenerate"
    ny_v, ny_f = (k % 3) + 1, rng.randint(1, 3)
    tV, tF = gen_time(rng, ny_v), gen_time(rng, ny_f)
    obs, rawV, bcV = (gen_data(rng, len(tV), I, J, flavour) for _ in range(3))
    rawF, bcF = (gen_data(rng, len(tF), I, J, flavour) for _ in range(2))
    metrics = [gen_metric(rng, flavour) for _ in range(2)]
    if flavour == "regular":
        for _, _, ms in metrics:
            ensure_occurs(rng, ms, [obs, rawV, bcV, rawF, bcF])
    stats = rng.choice([["mean", 0.05, 0.95], ["mean", 0.5, 0.25], ["mean", 0.0, 1.0, 0.3], [0.75, "mean"],
                        ["mean", 0.975, 0.005], [0.995, "mean", 0.999], ["mean", rng.randint(1, 1023) / 1024.0, rng.randint(1, 255) / 256.0]])
    scale = float(max(np.abs(a).max() for a in (obs, rawV, bcV, rawF, bcF)))
    case = {"grid": [I, J], "flavour": flavour, "years_validate": ny_v, "years_future": ny_f, "T_validate": len(tV), "T_future": len(tF),
            "statistics": stats, "metrics": [m[1] for m in metrics]}
    data = {"obs": obs.tolist(), "rawV": rawV.tolist(), "rawF": rawF.tolist(), "bcV": bcV.tolist(), "bcF": bcF.tolist(),
            "tV": [str(d) for d in tV], "tF": [str(d) for d in tF], "metric_specs": [list(m[2]) for m in metrics]}
    if len(res.cov["samples"]) < 4:
        res.cov["samples"].append({**case, "obs_column_00": obs[:, 0, 0].tolist()[:6]})
    res.extra["cases"] = res.extra.get("cases", 0) + 1
    mobjs = [m[0] for m in metrics]
    shape = (I, J)

    def problem(what, why, extra=None):
        problems.append((f"{what}: {why}", {"what": what, **case, **(extra or {}), "data": data}))

    # ---------------- calculate_marginal_bias
    # one statistic per call (a call whose every row is dropped because of an inf ends in pandas' "No objects to
    # concatenate" ValueError, which is the same as a dropped row), plus the combined call wherever it returns
    for bt in ("percentage", "absolute"):
        out = call(marginal.calculate_marginal_bias, obs=[obs, tV], statistics=stats, metrics=mobjs, percentage_or_absolute=bt,
                   raw=[rawV, tV], bc=[bcV, tV])
        if bt == "absolute":
            out_abs = out
        for key, cm in (("raw", rawV), ("bc", bcV)):
            for st in stats + ["metric0", "metric1"]:
                if isinstance(st, str) and st.startswith("metric"):
                    mo, mtxt, ms = metrics[int(st[-1])]
                    name, kw, op, stat_ref, tie, sc = mo.name, dict(statistics=[], metrics=[mo]), f"mmet {bt} {mtxt}", "metric", False, 365.0
                elif st == "mean":
                    ms, name, kw, op, stat_ref, tie, sc = None, "Mean", dict(statistics=["mean"], metrics=[]), f"mmean {bt}", "mean", False, scale
                else:
                    ms, name, kw, op, stat_ref, tie, sc = None, f"{st} qn", dict(statistics=[st], metrics=[]), f"mq {bt} {C.rat(st)}", st, True, scale
                one = call(marginal.calculate_marginal_bias, obs=[obs, tV], percentage_or_absolute=bt, **kw, **{key: [cm, tV]})
                if one[0] == "raise" and one[1] == "NoRows":
                    one = ("ok", None)
                else:
                    one = one if one[0] == "raise" else ("ok", row(one[1], key, name))
                tl = tie_locations(st, [lambda i, j: stat_at(st, obs, i, j)])(shape, scale) if tie and bt == "percentage" else ()
                batch.add("calculate_marginal_bias", {**case, "bt": bt, "stat": str(st), "key": key}, op, [obs, cm], one, shape,
                          dropped_on_inf=(bt == "percentage"), tie_possible=tie, scale=sc, tie_locs=tl)
                why = differs(one, ref_marginal(bt, stat_ref, obs, cm, ms), sc)
                if why:
                    problem("calculate_marginal_bias", f"{name} {bt} bias of '{key}': {why}", {"bt": bt, "stat": str(st), "key": key})
                if out[0] == "ok" and one[0] == "ok" and one[1] is not None:
                    r2 = row(out[1], key, name)
                    if r2 is None or not np.array_equal(r2, one[1], equal_nan=True):
                        problem("calculate_marginal_bias", f"{name} ('{key}') differs between the combined and the single-statistic call", {"bt": bt})

    # ---------------- calculate_bias_days_metrics
    out = call(marginal.calculate_bias_days_metrics, obs_data=[obs, tV], metrics=mobjs, raw=[rawV, tV], fut=[rawF, tF])
    yV, yF = C.ilist([d.year for d in tV]), C.ilist([d.year for d in tF])
    for (mo, mtxt, ms) in metrics:
        for key, x, yy, tt_ in (("raw", rawV, yV, tV), ("fut", rawF, yF, tF)):
            realcm = out if out[0] == "raise" else ("ok", row(out[1], key, mo.name, "CM"))
            for col in ("CM", "Obs", "Bias"):  # Model.Evaluate.daysMetrics
                realcol = out if out[0] == "raise" else ("ok", row(out[1], key, mo.name, col))
                batch.add("calculate_bias_days_metrics", {**case, "metric": mtxt, "key": key, "column": col}, f"daysm {col} {mtxt} {yy} {yV}",
                          [x, obs], realcol, shape, dropped_on_inf=False, scale=10.0)
            why = differs(realcm, ref_days(ms, x, tt_), 10.0)
            if why:
                problem("calculate_bias_days_metrics", f"mean days per year of {mtxt} ('{key}', {len(set(d.year for d in tt_))} year(s)): {why}",
                        {"metric": mtxt, "key": key})
            if out[0] == "ok":
                o_, b_ = row(out[1], key, mo.name, "Obs"), row(out[1], key, mo.name, "Bias")
                why = differs(("ok", o_), ref_days(ms, obs, tV), 10.0) or differs(("ok", b_), realcm[1] - o_, 10.0)
                if why:
                    problem("calculate_bias_days_metrics", f"Obs / Bias column of {mtxt} ('{key}'): {why}", {"metric": mtxt, "key": key})

    # ---------------- row order of the frames (Model.Evaluate.frameRows, Props.C20.frame_row): exact
    def frame_tie(what, out_, keys_, labels_):
        if out_[0] == "ok" and len(set(labels_)) == len(labels_):
            seq_ = []
            for _, r_ in out_[1].iterrows():
                k_, l_ = r_["Correction Method"], r_["Metric"]
                seq_.append(f"{keys_.index(k_)}.{labels_.index(l_)}" if k_ in keys_ and l_ in labels_ else f"?{k_}.{l_}")
            batch.exact.append((f"frame {len(keys_)} {len(labels_)}", C_list(seq_), {**case, "what": what, "frame": "row order"}))

    frame_tie("calculate_bias_days_metrics", out, ["raw", "fut"], [m[0].name for m in metrics])
    frame_tie("calculate_marginal_bias", out_abs, ["raw", "bc"],
              [("Mean" if st == "mean" else f"{st} qn") for st in stats] + [m[0].name for m in metrics])

    # ---------------- _yearly_exceedances: the per-year counts, compared exactly
    for (mo, mtxt, ms) in metrics[:1]:
        for x, yy, tt_ in ((rawV, yV, tV), (rawF, yF, tF)):
            ye = call(marginal._yearly_exceedances, mo, x, tt_)
            for (i, j), txt in cols(x):
                batch.exact.append((f"yearly {mtxt} {yy} {txt}", "raise" if ye[0] == "raise" else C.ilist(ye[1][:, i, j].tolist()),
                                    {**case, "metric": mtxt, "location": [i, j]}))

    # ---------------- calculate_future_trend_bias / calculate_future_trend
    for tt in ("additive", "multiplicative"):
        out = call(trend.calculate_future_trend_bias, raw_validate=rawV, raw_future=rawF, statistics=stats, trend_type=tt, metrics=mobjs,
                   time_validate=tV, time_future=tF, bc=[bcV, bcF], same=[rawV, rawF])
        out2 = call(trend.calculate_future_trend, statistics=stats, trend_type=tt, metrics=mobjs, time_validate=tV, time_future=tF,
                    bc=[bcV, bcF], raw=[rawV, rawF])
        # the calls abort as a whole when one statistic raises: evaluate the statistics one at a time as well
        for key, (v, f_) in (("bc", (bcV, bcF)), ("same", (rawV, rawF))):
            for st in stats + ["metric0", "metric1"]:
                if isinstance(st, str) and st.startswith("metric"):
                    mo, mtxt, ms = metrics[int(st[-1])]
                    name, kw, op = mo.name, dict(statistics=[], metrics=[mo]), f"tbmet {tt} {mtxt}"
                    stat_ref, tie = "metric", False
                elif st == "mean":
                    ms, name, kw, op, stat_ref, tie = None, "Mean", dict(statistics=["mean"], metrics=[]), f"tbmean {tt}", "mean", False
                else:
                    ms, name, kw, op, stat_ref, tie = None, f"{st} qn", dict(statistics=[st], metrics=[]), f"tbq {tt} {C.rat(st)}", st, True
                one = call(trend.calculate_future_trend_bias, raw_validate=rawV, raw_future=rawF, trend_type=tt, time_validate=tV, time_future=tF,
                           **kw, **{key: [v, f_]})
                if one[0] == "raise" and one[1] == "NoRows":
                    # pd.concat of no rows (every row dropped because of an inf): same as a dropped row
                    one = ("ok", None)
                else:
                    one = one if one[0] == "raise" else ("ok", row(one[1], key, name))
                tl = ()
                if tie:
                    dens = ([lambda i, j: stat_at(st, rawF, i, j) - stat_at(st, rawV, i, j)] if tt == "additive" else
                            [lambda i, j: stat_at(st, v, i, j), lambda i, j: stat_at(st, rawV, i, j), lambda i, j: stat_at(st, rawF, i, j)])
                    tl = tie_locations(st, dens)(shape, scale)
                batch.add("calculate_future_trend_bias", {**case, "tt": tt, "stat": str(st), "key": key}, op, [rawV, rawF, v, f_], one, shape,
                          tie_possible=tie, scale=100.0, tie_locs=tl)
                why = differs(one, ref_trend_bias(tt, stat_ref, rawV, rawF, v, f_, ms), 100.0)
                if why:
                    problem("calculate_future_trend_bias", f"{tt} trend bias of {name} ('{key}'): {why}", {"tt": tt, "stat": str(st), "key": key})
                # the combined call agrees with the single-statistic call wherever it returned
                if out[0] == "ok" and one[0] == "ok" and one[1] is not None:
                    r2 = row(out[1], key, name)
                    if r2 is None or not np.array_equal(r2, one[1], equal_nan=True):
                        problem("calculate_future_trend_bias", f"{name} ('{key}') differs between the combined and the single-statistic call", {"tt": tt})
        for key, (v, f_) in (("bc", (bcV, bcF)),):
            for st in stats + ["metric0"]:
                if isinstance(st, str) and st.startswith("metric"):
                    mo, mtxt, ms = metrics[0]
                    name, kw, op, stat_ref, tie = mo.name, dict(statistics=[], metrics=[mo]), f"tmet {tt} {mtxt}", "metric", False
                elif st == "mean":
                    ms, name, kw, op, stat_ref, tie = None, "Mean", dict(statistics=["mean"], metrics=[]), f"tmean {tt}", "mean", False
                else:
                    ms, name, kw, op, stat_ref, tie = None, f"{st} qn", dict(statistics=[st], metrics=[]), f"tq {tt} {C.rat(st)}", st, True
                one = call(trend.calculate_future_trend, trend_type=tt, time_validate=tV, time_future=tF, **kw, **{key: [v, f_]})
                if one[0] == "raise" and one[1] == "NoRows":
                    one = ("ok", None)
                else:
                    one = one if one[0] == "raise" else ("ok", row(one[1], key, name))
                tl = tie_locations(st, [lambda i, j: stat_at(st, v, i, j)])(shape, scale) if tie and tt == "multiplicative" else ()
                batch.add("calculate_future_trend", {**case, "tt": tt, "stat": str(st), "key": key}, op, [v, f_], one, shape, tie_possible=tie,
                          scale=scale, tie_locs=tl)
                why = differs(one, ref_trend(tt, stat_ref, v, f_, ms), scale)
                if why:
                    problem("calculate_future_trend", f"{tt} trend of {name}: {why}", {"tt": tt, "stat": str(st)})
                if out2[0] == "ok" and one[0] == "ok" and one[1] is not None:
                    r2 = row(out2[1], key, name)
                    if r2 is None or not np.array_equal(r2, one[1], equal_nan=True):
                        problem("calculate_future_trend", f"{name} differs between the combined and the single-statistic call", {"tt": tt})

    # ---------------- conditional joint exceedance
    (m1o, m1t, m1s), (m2o, m2t, m2s) = metrics
    out = call(multivariate.calculate_conditional_joint_threshold_exceedance, m1o, m2o, d=[rawV, bcV, tV])
    real = out if out[0] == "raise" else ("ok", np.asarray(out[1]["Conditional exceedance probability"].iloc[0], dtype=float))
    batch.add("calculate_conditional_joint_threshold_exceedance", {**case, "m1": m1t, "m2": m2t}, f"chipct {m1t} {m2t}", [rawV, bcV], real, shape,
              dropped_on_inf=False, scale=100.0)
    why = differs(real, ref_chi(m1s, m2s, rawV, bcV), 100.0)
    if why:
        problem("calculate_conditional_joint_threshold_exceedance", f"P({m1t} | {m2t}) in percent: {why}", {"m1": m1t, "m2": m2t})

    # ---------------- error paths of the per-location helpers (exception classes compared exactly)
    if k % 3 == 0:
        batch.add("_calculate_mean_trend_bias", {**case, "tt": "linear"}, "tbmean linear", [rawV, rawF, bcV, bcF],
                  call(trend._calculate_mean_trend_bias, "linear", rawV, rawF, bcV, bcF), shape)
        batch.add("_calculate_quantile_trend", {**case, "tt": "linear"}, "tq linear 1/2", [bcV, bcF],
                  call(trend._calculate_quantile_trend, "linear", 0.5, bcV, bcF), shape)
        batch.add("_marginal_mean_bias", {**case, "bt": "relative"}, "mmean relative", [obs, rawV],
                  call(marginal._marginal_mean_bias, obs, rawV, "relative"), shape)
        batch.add("_marginal_quantile_bias", {**case, "bt": "absolute", "stat": "1.5"}, "mq absolute 3/2", [obs, rawV],
                  call(marginal._marginal_quantile_bias, 1.5, obs, rawV, "absolute"), shape)

    # ---------------- property oracle: metamorphic relations on the real code (small budget per case)
    if k < n_oracle:
        oracle_relations(rng, case, data, problem, obs, rawV, rawF, bcV, bcF, tV, tF, metrics, stats, scale)
    for fname, lab in MUTATED:
        problem(fname, f"the call modified the caller's argument passed as '{lab}' (content differs after the call)",
                {"relation": "inputs_unchanged"})
    del MUTATED[:]
    for fname, name, before, now in defaults_changed():
        problem(fname, f"the default argument `{name}` changed from {before} to {now} (every later call with default arguments is affected)",
                {"relation": "defaults_unchanged"})
    return case


def metric_lists(metrics):
    """metric lists that names cannot tell apart: default names ("unknown") on different metrics, the same explicit name
    twice, the same object twice, mixed with a uniquely named one.  -> list of (label, [(ThresholdMetric, spec)])"""
    from ibicus.evaluate.metrics import ThresholdMetric

    def mk(spec, **kw):
        kind, a, b = spec
        return ThresholdMetric(threshold_value=a if b is None else [a, b], threshold_type=kind, **kw)

    (m0, _, s0), (m1, _, s1) = metrics
    flip = {"higher": "lower", "lower": "higher", "between": "outside", "outside": "between"}
    s2 = (flip[s0[0]], s0[1], s0[2])  # the complementary type on the same threshold(s): very different counts
    return [
        ("default names", [(mk(s0), s0), (mk(s1), s1), (mk(s2), s2)]),
        ("same explicit name", [(mk(s0, name="days"), s0), (mk(s2, name="days"), s2), (m1, s1)]),
        ("same object twice", [(m0, s0), (m1, s1), (m0, s0)]),
    ]


def check_rows(out, expected, cols_scale, what, label, problem):
    """the returned frame row by row, BY POSITION: expected = [(key, {column: reference array | None})]"""
    if out[0] == "raise":
        problem(what, f"{label}: raised {out[1]}", {"relation": "rows_by_position"})
        return
    df = out[1]
    if len(df) != len(expected):
        problem(what, f"{label}: {len(df)} rows returned, {len(expected)} expected (debiasers x statistics/metrics)", {"relation": "rows_by_position"})
        return
    for n, (key, refs) in enumerate(expected):
        STATS["rows_checked_by_position"] += 1
        r = df.iloc[n]
        if r["Correction Method"] != key:
            problem(what, f"{label}: row {n} belongs to '{r['Correction Method']}', expected '{key}'", {"relation": "rows_by_position"})
            return
        for col, ref in refs.items():
            why = differs(("ok", np.asarray(r[col], dtype=float)), ref, cols_scale)
            if why:
                problem(what, f"{label}: row {n} ('{key}', entry {n % max(1, len(expected) // max(1, len(set(k for k, _ in expected))))} of the "
                        f"statistics/metrics list, Metric='{r.get('Metric', '')}') column {col}: {why}", {"relation": "rows_by_position"})
                return


def oracle_positional(case, problem, obs, rawV, rawF, bcV, bcF, tV, tF, metrics, stats, scale):
    """several debiasers in **cm_data and metric lists whose names collide: every returned row, by position, is the
    documented quantity of ITS metric / statistic and ITS data set (the observations passed again as a 'debiaser', as the
    same array object, must have bias exactly 0 in every row)"""
    from ibicus.evaluate import marginal, trend

    for label, ml in metric_lists(metrics):
        mobjs = [m for m, _ in ml]
        # ---- days per year: never drops a row
        cms = (("raw", rawV, tV), ("fut", rawF, tF), ("me", obs, tV))
        out = call(marginal.calculate_bias_days_metrics, obs_data=[obs, tV], metrics=mobjs, **{k: [x, t] for k, x, t in cms})
        exp = []
        for key, x, t in cms:
            for _, ms in ml:
                cm_, ob_ = ref_days(ms, x, t), ref_days(ms, obs, tV)
                exp.append((key, {"CM": cm_, "Obs": ob_, "Bias": cm_ - ob_}))
        check_rows(out, exp, 10.0, "calculate_bias_days_metrics", label, problem)
        if out[0] == "ok" and len(out[1]) == len(exp):
            for n in range(2 * len(ml), 3 * len(ml)):
                if not np.all(np.asarray(out[1].iloc[n]["Bias"], dtype=float) == 0):
                    problem("calculate_bias_days_metrics", f"{label}: observations against themselves have non-zero days-per-year bias in row {n}",
                            {"relation": "self_zero"})
        # ---- marginal bias (absolute: no row is ever dropped; percentage: only when every reference exists)
        cms2 = (("raw", rawV), ("bc", bcV), ("me", obs))
        for bt in ("absolute", "percentage"):
            exp = []
            for key, x in cms2:
                for st in stats:
                    exp.append((key, {"Bias": ref_marginal(bt, st, obs, x)}))
                for _, ms in ml:
                    exp.append((key, {"Bias": ref_marginal(bt, "metric", obs, x, ms)}))
            if any(v is None for _, d in exp for v in d.values()):
                continue
            out = call(marginal.calculate_marginal_bias, obs=[obs, tV], statistics=stats, metrics=mobjs, percentage_or_absolute=bt,
                       **{k: [x, tV] for k, x in cms2})
            check_rows(out, exp, max(scale, 365.0), "calculate_marginal_bias", f"{label}, {bt}", problem)
        # ---- trend bias and trend
        pairs = (("bc", bcV, bcF), ("same", rawV, rawF), ("bc2", bcV, bcF))
        for tt in ("additive", "multiplicative"):
            exp, exp2 = [], []
            for key, v, f_ in pairs:
                for st in stats:
                    exp.append((key, {"Bias": ref_trend_bias(tt, st, rawV, rawF, v, f_)}))
                    exp2.append((key, {"Bias": ref_trend(tt, st, v, f_)}))
                for _, ms in ml:
                    exp.append((key, {"Bias": ref_trend_bias(tt, "metric", rawV, rawF, v, f_, ms)}))
                    exp2.append((key, {"Bias": ref_trend(tt, "metric", v, f_, ms)}))
            if not any(v is None for _, d in exp for v in d.values()):
                out = call(trend.calculate_future_trend_bias, raw_validate=rawV, raw_future=rawF, statistics=stats, trend_type=tt, metrics=mobjs,
                           time_validate=tV, time_future=tF, **{k: [v, f_] for k, v, f_ in pairs})
                check_rows(out, exp, 100.0, "calculate_future_trend_bias", f"{label}, {tt}", problem)
            if not any(v is None for _, d in exp2 for v in d.values()):
                out = call(trend.calculate_future_trend, statistics=stats, trend_type=tt, metrics=mobjs, time_validate=tV, time_future=tF,
                           **{k: [v, f_] for k, v, f_ in pairs})
                check_rows(out, exp2, max(scale, 100.0), "calculate_future_trend", f"{label}, {tt}", problem)


SEASON = {12: "Winter", 1: "Winter", 2: "Winter", 3: "Spring", 4: "Spring", 5: "Spring", 6: "Summer", 7: "Summer", 8: "Summer",
          9: "Autumn", 10: "Autumn", 11: "Autumn"}


def oracle_time_scoped(case, problem, obs, rawV, rawF, bcV, bcF, tV, tF, scale, stats=()):
    """metrics whose threshold depends on the season / the month, evaluated in the SAME call as the statistics: every
    probability must be taken with the time axis of ITS data set (validation data with time_validate, future data with
    time_future; obs / cm with their own times) and from the data as the caller passed them (time order intact)"""
    from ibicus.evaluate import marginal, multivariate, trend
    from ibicus.evaluate.metrics import ThresholdMetric

    lo, hi = float(np.quantile(rawV, 0.2)), float(np.quantile(rawV, 0.8))
    mid = round((lo + hi) * 4) / 8
    thr_s = {"Winter": round(lo * 8) / 8, "Spring": mid, "Summer": round(hi * 8) / 8, "Autumn": mid + 0.125}
    thr_m = {mth: [round(lo * 8) / 8, mid, round(hi * 8) / 8][mth % 3] + 0.125 * (mth % 2) for mth in range(1, 13)}
    scoped = [
        (ThresholdMetric(threshold_value=dict(thr_s), threshold_type="higher", threshold_scope="season", name="seasonal"), "seasonal",
         lambda d: thr_s[SEASON[d.month]]),
        (ThresholdMetric(threshold_value=dict(thr_m), threshold_type="lower", threshold_scope="month", name="monthly"), "monthly",
         lambda d: thr_m[d.month]),
    ]
    mobjs = [m for m, _, _ in scoped]
    stats = list(stats)
    rel = {"relation": "time_scoped_metric"}
    # every reference is computed here, before any call, from the caller's data
    for (m, name, thr_of) in scoped:
        lower = name == "monthly"

        def inst(x, t):
            th = np.array([thr_of(d) for d in t])[:, None, None]
            return (x < th) if lower else (x > th)

        def prob(x, t):
            return inst(x, t).sum(axis=0) / x.shape[0]

        def days(x, t):
            yrs = np.array([d.year for d in t])
            i_ = inst(x, t)
            return np.mean([i_[yrs == y].sum(axis=0) for y in np.unique(yrs)], axis=0)

        rV, rF, bV, bF, pO = prob(rawV, tV), prob(rawF, tF), prob(bcV, tV), prob(bcF, tF), prob(obs, tV)
        refs = {}
        with np.errstate(all="ignore"):
            rt = rF - rV
            refs["tb_additive"] = None if np.any(np.abs(rt) < 1e-6) else 100 * ((bF - bV) - rt) / rt
            if np.any(np.abs(bV) < 1e-6) or np.any(np.abs(rV) < 1e-6) or np.any(np.abs(rF) < 1e-6):
                refs["tb_multiplicative"] = None
            else:
                refs["tb_multiplicative"] = 100 * (bF / bV - rF / rV) / (rF / rV)
            refs["t_additive"] = bF - bV
            refs["t_multiplicative"] = None if np.any(np.abs(bV) < 1e-6) else bF / bV
            refs["m_absolute"] = 365 * rF - 365 * pO
            refs["m_percentage"] = None if np.any(np.abs(pO) < 1e-6) else 100 * (rF - pO) / pO
        refs["days"] = (days(rawF, tF), days(obs, tV))
        a_, b_ = inst(rawV, tV), inst(bcV, tV)
        refs["chi"] = 100.0 * (a_ & b_).sum(axis=0) / b_.sum(axis=0) if np.all(b_.sum(axis=0) > 0) else None
        scoped[scoped.index((m, name, thr_of))] = (m, name, refs)

    for tt in ("additive", "multiplicative"):
        st_tb = stats if all(ref_trend_bias(tt, st, rawV, rawF, bcV, bcF) is not None for st in stats) else []
        st_t = stats if all(ref_trend(tt, st, bcV, bcF) is not None for st in stats) else []
        use = [(m, name, refs) for m, name, refs in scoped if refs["tb_" + tt] is not None]
        if use and not (tt == "multiplicative" and len(use) < len(scoped)):  # a zero guard of the other metric would abort the call
            out = call(trend.calculate_future_trend_bias, raw_validate=rawV, raw_future=rawF, statistics=st_tb, trend_type=tt,
                       metrics=[m for m, _, _ in use], time_validate=tV, time_future=tF, bc=[bcV, bcF])
            for m, name, refs in use:
                why = differs(out if out[0] == "raise" else ("ok", row(out[1], "bc", name)), refs["tb_" + tt], 100.0)
                if why:
                    problem("calculate_future_trend_bias", f"{tt} trend bias of the {name} metric evaluated after the statistics {st_tb}: {why}",
                            {**rel, "tt": tt})
        use = [(m, name, refs) for m, name, refs in scoped if refs["t_" + tt] is not None]
        if use and not (tt == "multiplicative" and len(use) < len(scoped)):
            out = call(trend.calculate_future_trend, statistics=st_t, trend_type=tt, metrics=[m for m, _, _ in use], time_validate=tV,
                       time_future=tF, bc=[bcV, bcF])
            for m, name, refs in use:
                why = differs(out if out[0] == "raise" else ("ok", row(out[1], "bc", name)), refs["t_" + tt], 1.0)
                if why:
                    problem("calculate_future_trend", f"{tt} trend of the {name} metric evaluated after the statistics {st_t}: {why}", {**rel, "tt": tt})
    # marginal bias with different time axes for obs and cm (future data as the 'model')
    out = call(marginal.calculate_marginal_bias, obs=[obs, tV], statistics=stats, metrics=mobjs, percentage_or_absolute="absolute", fut=[rawF, tF])
    for m, name, refs in scoped:
        why = differs(out if out[0] == "raise" else ("ok", row(out[1], "fut", name)), refs["m_absolute"], 365.0)
        if why:
            problem("calculate_marginal_bias", f"absolute bias of the {name} metric: {why}", rel)
    st_m = stats if all(ref_marginal("percentage", st, obs, rawF) is not None for st in stats) else []
    out = call(marginal.calculate_marginal_bias, obs=[obs, tV], statistics=st_m, metrics=mobjs, percentage_or_absolute="percentage", fut=[rawF, tF])
    for m, name, refs in scoped:
        if refs["m_percentage"] is not None:
            why = differs(out if out[0] == "raise" else ("ok", row(out[1], "fut", name)), refs["m_percentage"], 100.0)
            if why:
                problem("calculate_marginal_bias", f"percentage bias of the {name} metric: {why}", rel)
    # days per year
    out = call(marginal.calculate_bias_days_metrics, obs_data=[obs, tV], metrics=mobjs, fut=[rawF, tF])
    for m, name, refs in scoped:
        dC, dO = refs["days"]
        for col, ref in (("CM", dC), ("Obs", dO), ("Bias", dC - dO)):
            why = differs(out if out[0] == "raise" else ("ok", row(out[1], "fut", name, col)), ref, 10.0)
            if why:
                problem("calculate_bias_days_metrics", f"{col} of the {name} metric: {why}", rel)
    # conditional exceedance with the time axis as third list element
    for m, name, refs in scoped:
        if refs["chi"] is not None:
            out = call(multivariate.calculate_conditional_joint_threshold_exceedance, m, m, d=[rawV, bcV, tV])
            got = out if out[0] == "raise" else ("ok", np.asarray(out[1]["Conditional exceedance probability"].iloc[0], dtype=float))
            why = differs(got, refs["chi"], 100.0)
            if why:
                problem("calculate_conditional_joint_threshold_exceedance", f"{name} metric: {why}", rel)


def frames_differ(a, b):
    """two outcomes of call(): None when they are the same result (same rows in the same order, arrays bit for bit)"""
    if a[0] != b[0]:
        return f"first call {a[0]} {a[1] if a[0] == 'raise' else ''}, second call {b[0]} {b[1] if b[0] == 'raise' else ''}"
    if a[0] == "raise":
        return None if a[1] == b[1] else f"first call raised {a[1]}, second {b[1]}"
    da, db = a[1], b[1]
    if list(da.columns) != list(db.columns) or len(da) != len(db):
        lab = lambda d: [(r["Correction Method"], r.get("Metric", "")) for _, r in d.iterrows()]  # noqa: E731
        return f"first call returns {len(da)} rows {lab(da)}, second call {len(db)} rows {lab(db)}"
    for n in range(len(da)):
        for c in da.columns:
            x, y = da.iloc[n][c], db.iloc[n][c]
            same = np.array_equal(np.asarray(x, dtype=float), np.asarray(y, dtype=float), equal_nan=True) if isinstance(x, np.ndarray) or isinstance(x, float) else x == y
            if not same:
                return f"row {n} column {c}: first call {x!r:.60}, second call {y!r:.60}"
    return None


def oracle_repeat(case, problem, obs, rawV, rawF, bcV, bcF, tV, tF, metrics, stats, scale):
    """every public function called twice in a row — with its default arguments, and with the same caller-held list
    objects — returns the same result both times, the documented default rows are all there, and neither the caller's
    lists nor the functions' default arguments change (call() compares lists / dicts as well as arrays)"""
    from ibicus.evaluate import correlation, marginal, multivariate, trend

    mobjs = [m[0] for m in metrics]
    st = list(stats)
    cmV, cmT = [rawV, tV], [[bcV, bcF]]
    rel = {"relation": "repeated_calls"}
    D = ["mean", 0.05, 0.95]
    regular = (case.get("flavour") == "regular" and all(ref_marginal("percentage", q, obs, rawV) is not None for q in D)
               and all(ref_trend_bias("additive", q, rawV, rawF, bcV, bcF) is not None for q in D))
    calls = [
        ("calculate_marginal_bias", "default arguments", lambda: call(marginal.calculate_marginal_bias, obs=obs, raw=rawV), ["Mean", "0.05 qn", "0.95 qn"]),
        ("calculate_marginal_bias", "same list objects", lambda: call(marginal.calculate_marginal_bias, obs=[obs, tV], statistics=st, metrics=mobjs,
                                                                     percentage_or_absolute="absolute", raw=cmV), None),
        ("calculate_bias_days_metrics", "same list objects", lambda: call(marginal.calculate_bias_days_metrics, obs_data=[obs, tV], metrics=mobjs, raw=cmV), None),
        ("calculate_future_trend_bias", "default arguments", lambda: call(trend.calculate_future_trend_bias, rawV, rawF, bc=cmT[0]), ["Mean", "0.05 qn", "0.95 qn"]),
        ("calculate_future_trend_bias", "same list objects", lambda: call(trend.calculate_future_trend_bias, raw_validate=rawV, raw_future=rawF, statistics=st,
                                                                         metrics=mobjs, time_validate=tV, time_future=tF, bc=cmT[0]), None),
        ("calculate_future_trend", "default arguments", lambda: call(trend.calculate_future_trend, bc=cmT[0]), ["Mean", "0.05 qn", "0.95 qn"]),
        ("calculate_future_trend", "same list objects", lambda: call(trend.calculate_future_trend, statistics=st, metrics=mobjs, time_validate=tV,
                                                                    time_future=tF, bc=cmT[0]), None),
        ("calculate_conditional_joint_threshold_exceedance", "same list objects",
         lambda: call(multivariate.calculate_conditional_joint_threshold_exceedance, mobjs[0], mobjs[1], d=cmV[:1] + [bcV, tV]), None),
    ]
    for fname, how, f, default_rows in calls:
        a = f()
        b = f()
        c = f()
        why = frames_differ(a, b) or frames_differ(b, c)
        if why:
            problem(fname, f"repeated call with {how}: {why}", rel)
        # additive trends / percentage bias of positive data: nothing is dropped, so the documented default statistics are all reported
        if default_rows and regular:
            for n_, out in enumerate((a, b, c)):
                if out[0] == "ok":
                    labs = list(out[1]["Metric"])
                    if labs != default_rows:
                        problem(fname, f"call {n_ + 1} with {how} reports the rows {labs}, the documented default statistics are {default_rows}", rel)
                        break
                elif regular:
                    problem(fname, f"call {n_ + 1} with {how} raised {out[1]}", rel)
                    break
    # ambient settings: the verbosity of the library / root logger and numpy's print options do not change a result
    from harness.c18 import ambient

    for fname, how, f, _ in calls[1:8:2]:
        base = f()
        for name in ("logger DEBUG", "root logger DEBUG", "printoptions"):
            with ambient(name):
                other = f()
            why = frames_differ(base, other)
            if why:
                problem(fname, f"result changes with {name} ({how}): {why}", {"relation": "ambient_settings"})
    if st != list(stats) or any(x is not y for x, y in zip(mobjs, [m[0] for m in metrics])):
        problem("evaluate", f"the caller's statistics / metrics list changed: {stats} -> {st}", rel)
    for fname, name, before, now in defaults_changed():
        problem(fname, f"the default argument `{name}` changed from {before} to {now} (every later call with default arguments is affected)",
                {"relation": "defaults_unchanged"})


def oracle_relations(rng, case, data, problem, obs, rawV, rawF, bcV, bcF, tV, tF, metrics, stats, scale):
    from ibicus.evaluate import correlation, marginal, multivariate, trend

    oracle_repeat(case, problem, obs, rawV, rawF, bcV, bcF, tV, tF, metrics, stats, scale)
    oracle_positional(case, problem, obs, rawV, rawF, bcV, bcF, tV, tF, metrics, stats, scale)
    oracle_time_scoped(case, problem, obs, rawV, rawF, bcV, bcF, tV, tF, scale, stats)

    mobjs = [m[0] for m in metrics]
    I, J = obs.shape[1:]

    def allrows(out, colname="Bias"):
        return [] if out[0] != "ok" else [(r["Correction Method"], r["Metric"], np.asarray(r[colname], dtype=float)) for _, r in out[1].iterrows()]

    def nonzero(stat, x, ms=None):
        return all(abs(stat_at(stat, x, i, j, ms)) > 1e-6 for i in range(I) for j in range(J))

    # (1) a data set against itself: zero bias (guard: the observed statistic is non-zero everywhere)
    for bt in ("percentage", "absolute"):
        out = call(marginal.calculate_marginal_bias, obs=[obs, tV], statistics=stats, metrics=mobjs, percentage_or_absolute=bt, me=[obs.copy(), tV])
        guards = {("Mean" if s == "mean" else f"{s} qn"): nonzero(s, obs) for s in stats}
        guards.update({m[0].name: nonzero("metric", obs, m[2]) for m in metrics})
        if out[0] == "raise":
            problem("calculate_marginal_bias", f"self-bias ({bt}) raised {out[1]}", {"relation": "self_zero"})
        for key, name, arr in allrows(out):
            if (bt == "absolute" or guards.get(name)) and not np.all(arr == 0):
                problem("calculate_marginal_bias", f"{bt} bias of a data set against itself is not 0 for {name}: {arr.tolist()}", {"relation": "self_zero"})
        got = {name for _, name, _ in allrows(out)}
        for name, g in guards.items():
            if (g or bt == "absolute") and out[0] == "ok" and name not in got:
                problem("calculate_marginal_bias", f"self-bias row of {name} missing", {"relation": "self_zero"})
    out = call(marginal.calculate_bias_days_metrics, obs_data=[obs, tV], metrics=mobjs, me=[obs.copy(), tV])
    for key, name, arr in allrows(out):
        if not np.all(arr == 0):
            problem("calculate_bias_days_metrics", f"days-per-year bias of a data set against itself is not 0 for {name}", {"relation": "self_zero"})

    # (2) the raw model against itself: zero trend bias (guards: raw trend non-zero; validation statistics non-zero)
    for tt in ("additive", "multiplicative"):
        for st in stats + [m for m in metrics]:
            if isinstance(st, tuple):
                name, kw, ms, sr = st[0].name, dict(statistics=[], metrics=[st[0]]), st[2], "metric"
            else:
                name, kw, ms, sr = ("Mean" if st == "mean" else f"{st} qn"), dict(statistics=[st], metrics=[]), None, st
            ref = ref_trend_bias(tt, sr, rawV, rawF, rawV, rawF, ms)
            if ref is None:
                continue
            out = call(trend.calculate_future_trend_bias, raw_validate=rawV, raw_future=rawF, trend_type=tt, time_validate=tV, time_future=tF,
                       **kw, me=[rawV.copy(), rawF.copy()])
            rows = allrows(out)
            if out[0] == "raise" or not rows or not np.all(rows[0][2] == 0):
                problem("calculate_future_trend_bias", f"{tt} trend bias of the raw model against itself is not 0 for {name}: "
                        f"{out[1] if out[0] == 'raise' else [r[2].tolist() for r in rows]}", {"relation": "self_zero", "tt": tt})

    # (3) a metric conditioned on itself: probability 1 (100 %), guard: it occurs at every location
    for (mo, mtxt, ms) in metrics:
        if all(holds(ms, rawV[:, i, j]).any() for i in range(I) for j in range(J)):
            out = call(multivariate.calculate_conditional_joint_threshold_exceedance, mo, mo, d=[rawV, rawV.copy()])
            if out[0] == "raise" or not np.all(np.asarray(out[1]["Conditional exceedance probability"].iloc[0], dtype=float) == 100.0):
                problem("calculate_conditional_joint_threshold_exceedance", f"P({mtxt} | {mtxt}) is not 100 %", {"relation": "chi_self"})
            out = call(multivariate._calculate_chi, mo, mo, rawV, rawV.copy())
            if out[0] == "raise" or not np.all(out[1] == 1.0):
                problem("_calculate_chi", f"chi({mtxt}, {mtxt}) is not 1", {"relation": "chi_self"})
            # the very same metric object and the very same array object in both slots
            keep = rawV.copy()
            out = call(multivariate.calculate_conditional_joint_threshold_exceedance, mo, mo, d=[rawV, rawV, tV])
            if out[0] == "raise" or not np.all(np.asarray(out[1]["Conditional exceedance probability"].iloc[0], dtype=float) == 100.0):
                problem("calculate_conditional_joint_threshold_exceedance",
                        f"P({mtxt} | {mtxt}) is not 100 % when the same metric object and the same array object are passed in both slots: "
                        f"{out[1] if out[0] == 'raise' else np.asarray(out[1]['Conditional exceedance probability'].iloc[0]).tolist()}",
                        {"relation": "chi_self"})
            if not np.array_equal(keep, rawV):
                problem("calculate_conditional_joint_threshold_exceedance", "the data set was modified", {"relation": "chi_self"})

    # (4) independence of the grid shape: every column alone (1x1) and inside the grid, bitwise
    #     (guard for the multiplicative trends: no location trips a zero guard, i.e. the whole-grid call returned)
    def sub(a, i, j):
        return a[:, i:i + 1, j:j + 1].copy()

    if I * J > 1:
        full = {
            "marginal": call(marginal.calculate_marginal_bias, obs=[obs, tV], statistics=stats, metrics=mobjs, raw=[rawV, tV]),
            "days": call(marginal.calculate_bias_days_metrics, obs_data=[obs, tV], metrics=mobjs, raw=[rawV, tV]),
            "tb_add": call(trend.calculate_future_trend_bias, raw_validate=rawV, raw_future=rawF, statistics=stats, trend_type="additive",
                           metrics=mobjs, bc=[bcV, bcF]),
            "tb_mul": call(trend.calculate_future_trend_bias, raw_validate=rawV, raw_future=rawF, statistics=stats, trend_type="multiplicative",
                           metrics=mobjs, bc=[bcV, bcF]),
            "t_mul": call(trend.calculate_future_trend, statistics=stats, trend_type="multiplicative", metrics=mobjs, bc=[bcV, bcF]),
            "chi": call(multivariate.calculate_conditional_joint_threshold_exceedance, mobjs[0], mobjs[1], d=[rawV, bcV]),
        }
        for i in range(I):
            for j in range(J):
                single = {
                    "marginal": call(marginal.calculate_marginal_bias, obs=[sub(obs, i, j), tV], statistics=stats, metrics=mobjs, raw=[sub(rawV, i, j), tV]),
                    "days": call(marginal.calculate_bias_days_metrics, obs_data=[sub(obs, i, j), tV], metrics=mobjs, raw=[sub(rawV, i, j), tV]),
                    "tb_add": call(trend.calculate_future_trend_bias, raw_validate=sub(rawV, i, j), raw_future=sub(rawF, i, j), statistics=stats,
                                   trend_type="additive", metrics=mobjs, bc=[sub(bcV, i, j), sub(bcF, i, j)]),
                    "tb_mul": call(trend.calculate_future_trend_bias, raw_validate=sub(rawV, i, j), raw_future=sub(rawF, i, j), statistics=stats,
                                   trend_type="multiplicative", metrics=mobjs, bc=[sub(bcV, i, j), sub(bcF, i, j)]),
                    "t_mul": call(trend.calculate_future_trend, statistics=stats, trend_type="multiplicative", metrics=mobjs,
                                  bc=[sub(bcV, i, j), sub(bcF, i, j)]),
                    "chi": call(multivariate.calculate_conditional_joint_threshold_exceedance, mobjs[0], mobjs[1], d=[sub(rawV, i, j), sub(bcV, i, j)]),
                }
                for what in full:
                    if full[what][0] != "ok" or single[what][0] != "ok":
                        continue  # some location raises (zero guard / metric 2 never occurs): no demand
                    colname = "Conditional exceedance probability" if what == "chi" else "Bias"
                    fr = {(r["Correction Method"], r.get("Metric", "")): np.asarray(r[colname], dtype=float) for _, r in full[what][1].iterrows()}
                    sr = {(r["Correction Method"], r.get("Metric", "")): np.asarray(r[colname], dtype=float) for _, r in single[what][1].iterrows()}
                    for key_, arr in sr.items():
                        if key_ in fr and not np.array_equal(arr[0, 0], fr[key_][i, j], equal_nan=True):
                            problem(what, f"value at location ({i},{j}) depends on the grid: alone {float(arr[0, 0])!r}, inside the {I}x{J} grid "
                                    f"{float(fr[key_][i, j])!r} ({key_[1]})", {"relation": "grid_independence", "location": [i, j]})

    # (5) independence of the number of years: the mean days per year over k years is the mean of the k single-year
    #     results; statistics that do not look at time do not change when the same data carry dates of 1 or 3 years
    yrs = np.array([d.year for d in tV])
    uy = np.unique(yrs)
    allv = call(marginal.calculate_bias_days_metrics, obs_data=[obs, tV], metrics=mobjs, raw=[rawV, tV])
    if allv[0] == "ok":
        parts = [call(marginal.calculate_bias_days_metrics, obs_data=[obs[yrs == y], tV[yrs == y]], metrics=mobjs, raw=[rawV[yrs == y], tV[yrs == y]])
                 for y in uy]
        if all(p[0] == "ok" for p in parts):
            for (_, name, cm) in allrows(allv, "CM"):
                per_year = np.mean([[a for (_, n, a) in allrows(p, "CM") if n == name][0] for p in parts], axis=0)
                if not np.all(np.abs(cm - per_year) <= 1e-9 * (1 + np.abs(per_year))):
                    problem("calculate_bias_days_metrics", f"mean days per year over {len(uy)} year(s) {cm.tolist()} is not the mean of the single-year "
                            f"results {per_year.tolist()} ({name})", {"relation": "years_independence"})
        else:
            problem("calculate_bias_days_metrics", "single-year subset raised", {"relation": "years_independence"})
    else:
        problem("calculate_bias_days_metrics", f"raised {allv[1]}", {"relation": "years_independence"})
    t1 = np.array([datetime.date(2001, 1, 1) + datetime.timedelta(days=n) for n in range(len(tV))], dtype=object)
    t3 = np.array([datetime.date(2001 + (3 * n) // len(tV), 1, 1) + datetime.timedelta(days=n) for n in range(len(tV))], dtype=object)
    a = call(marginal.calculate_marginal_bias, obs=[obs, t1], statistics=stats, metrics=mobjs, raw=[rawV, t1])
    b = call(marginal.calculate_marginal_bias, obs=[obs, t3], statistics=stats, metrics=mobjs, raw=[rawV, t3])
    if a[0] != b[0] or (a[0] == "ok" and any(not np.array_equal(x[2], y[2], equal_nan=True) for x, y in zip(allrows(a), allrows(b)))):
        problem("calculate_marginal_bias", "result changes with the number of years the dates span", {"relation": "years_independence"})

    # (5b) independence of the record length (Props.C20.record_length_independent): the same record tiled 3 times along
    #      time gives the same mean / metric bias and trend bias (dyadic data: sums and counts are exact)
    t3x = np.concatenate([tV, tV, tV])
    tile3 = lambda a: np.concatenate([a, a, a], axis=0)  # noqa: E731
    for bt in ("absolute", "percentage"):
        a = call(marginal.calculate_marginal_bias, obs=[obs, tV], statistics=["mean"], metrics=mobjs, percentage_or_absolute=bt, raw=[rawV, tV])
        b = call(marginal.calculate_marginal_bias, obs=[tile3(obs), t3x], statistics=["mean"], metrics=mobjs, percentage_or_absolute=bt,
                 raw=[tile3(rawV), t3x])
        if a[0] != b[0] or (a[0] == "ok" and (len(a[1]) != len(b[1]) or any(
                not np.allclose(x[2], y[2], rtol=1e-12, atol=1e-12, equal_nan=True) for x, y in zip(allrows(a), allrows(b))))):
            problem("calculate_marginal_bias", f"{bt} bias of the mean / the metrics changes when the record is repeated 3 times along time",
                    {"relation": "record_length"})
    a = call(trend.calculate_future_trend_bias, raw_validate=rawV, raw_future=rawF, statistics=["mean"], metrics=mobjs, bc=[bcV, bcF])
    b = call(trend.calculate_future_trend_bias, raw_validate=tile3(rawV), raw_future=tile3(rawF), statistics=["mean"], metrics=mobjs,
             bc=[tile3(bcV), tile3(bcF)])
    if a[0] != b[0] or (a[0] == "ok" and (len(a[1]) != len(b[1]) or any(
            not np.allclose(x[2], y[2], rtol=1e-9, atol=1e-9, equal_nan=True) for x, y in zip(allrows(a), allrows(b))))):
        problem("calculate_future_trend_bias", "trend bias of the mean / the metrics changes when the records are repeated 3 times along time",
                {"relation": "record_length"})

    # (6) RMSE between correlation maps: a data set against itself is 0
    if all(np.unique(obs[:, i, j]).size > 1 for i in range(I) for j in range(J)):
        out = call(correlation.rmse_spatial_correlation_distribution, variable="tas", obs_data=obs, me=obs.copy())
        if out[0] == "raise" or not np.all(out[1]["RMSE spatial correlation"].to_numpy(dtype=float) == 0.0):
            problem("rmse_spatial_correlation_distribution", "RMSE of a data set against itself is not 0", {"relation": "rmse_self_zero"})


def long_record_case(long_seed, res, problems):
    """One long daily record (100 years x 365 days = 36500 steps, 1x1) with metrics that hold on most days (more than
    32767 exceedances): every count-based quantity through the public functions against independent integer counts.
    Real code + oracle only (the counts are plain integers; no float statistic is involved)."""
    from ibicus.evaluate import marginal, multivariate, trend
    from ibicus.evaluate.metrics import ThresholdMetric

    rng = random.Random(long_seed)  # its own generator: the seed alone reproduces the record (replay)
    T = 36500
    y0 = rng.randint(1850, 1950)
    time = np.array([datetime.date(y0 + n // 365, 1, 1) + datetime.timedelta(days=n % 365) for n in range(T)], dtype=object)
    thr = rng.randint(8, 40) / 8.0

    def data(frac_true):
        u_ = np.array([rng.random() for _ in range(T)])
        x = np.where(u_ < frac_true, thr + 1.0 + np.floor(u_ * 64) / 8.0, thr - 1.0 - np.floor(u_ * 8) / 8.0)
        return x.reshape(T, 1, 1)

    obs, rawV, rawF, bcV, bcF = data(0.97), data(0.93), data(0.95), data(0.96), data(0.99)
    m = ThresholdMetric(threshold_value=thr, threshold_type="higher", name="most days")
    m2 = ThresholdMetric(threshold_value=thr + 2.0, threshold_type="higher", name="most days 2")
    cnt = lambda x, t=thr: int((x[:, 0, 0] > t).sum())  # noqa: E731
    nO, nRV, nRF, nBV, nBF = (cnt(a) for a in (obs, rawV, rawF, bcV, bcF))
    case = {"what": "long record", "grid": [1, 1], "T": T, "years": 100, "threshold": thr, "counts": [nO, nRV, nRF, nBV, nBF],
            "long_seed": long_seed, "first_values_rawV": rawV[:6, 0, 0].tolist(),
            "note": "the record is regenerated from long_seed by harness.c20.long_record_case (values thr+1+floor(64u)/8 on exceedance days, thr-1-floor(8u)/8 otherwise)"}
    if res is not None:
        res.count(("long", T, thr, nO, nRV), True)
        res.extra["long_record_min_count"] = min(nO, nRV, nRF, nBV, nBF)

    def problem(what, why):
        problems.append((f"{what}: long record ({T} daily steps, 1x1, {min(nO, nRV, nRF, nBV, nBF)}+ exceedance days): {why}",
                         {"what": what, "relation": "long_record", **case}))

    def val(out, key, name, col="Bias"):
        if out[0] == "raise":
            return out
        r = row(out[1], key, name, col)
        return ("ok", r)

    A = lambda v: np.array([[v]], dtype=float)  # noqa: E731
    pO, pRV, pRF, pBV, pBF = (n / T for n in (nO, nRV, nRF, nBV, nBF))
    out = call(marginal.calculate_marginal_bias, obs=obs, statistics=["mean"], metrics=[m], raw=rawV)
    why = differs(val(out, "raw", "most days"), A(100 * (pRV - pO) / pO), 100.0)
    if why:
        problem("calculate_marginal_bias", f"percentage bias of the metric: {why}")
    out = call(marginal.calculate_marginal_bias, obs=obs, statistics=[], metrics=[m], percentage_or_absolute="absolute", raw=rawV)
    why = differs(val(out, "raw", "most days"), A(365 * pRV - 365 * pO), 365.0)
    if why:
        problem("calculate_marginal_bias", f"absolute bias (days per year) of the metric: {why}")
    for tt in ("additive", "multiplicative"):
        bt_, rt = ((pBF - pBV), (pRF - pRV)) if tt == "additive" else (pBF / pBV, pRF / pRV)
        if abs(rt) > 1e-6:
            out = call(trend.calculate_future_trend_bias, raw_validate=rawV, raw_future=rawF, statistics=[], trend_type=tt, metrics=[m], bc=[bcV, bcF])
            why = differs(val(out, "bc", "most days"), A(100 * (bt_ - rt) / rt), 100.0)
            if why:
                problem("calculate_future_trend_bias", f"{tt} trend bias of the metric: {why}")
        out = call(trend.calculate_future_trend, statistics=[], trend_type=tt, metrics=[m], bc=[bcV, bcF])
        why = differs(val(out, "bc", "most days"), A(bt_), 1.0)
        if why:
            problem("calculate_future_trend", f"{tt} trend of the metric: {why}")
    for (ma, mb, xa, xb, label) in ((m, m, rawV, rawV.copy(), "chi(m, m)"), (m2, m, rawV, bcV, "chi(m2, m)")):
        ta, tb_ = ma.threshold_value, mb.threshold_value
        both = int(((xa[:, 0, 0] > ta) & (xb[:, 0, 0] > tb_)).sum())
        out = call(multivariate.calculate_conditional_joint_threshold_exceedance, ma, mb, d=[xa, xb])
        got = out if out[0] == "raise" else ("ok", np.asarray(out[1]["Conditional exceedance probability"].iloc[0], dtype=float))
        why = differs(got, A(100.0 * both / cnt(xb, tb_)), 100.0)
        if why:
            problem("calculate_conditional_joint_threshold_exceedance", f"{label}: {why}")
    out = call(marginal.calculate_bias_days_metrics, obs_data=[obs, time], metrics=[m], raw=[rawV, time])
    for col, ref in (("CM", nRV / 100.0), ("Obs", nO / 100.0), ("Bias", nRV / 100.0 - nO / 100.0)):
        why = differs(val(out, "raw", "most days", col), A(ref), 365.0)
        if why:
            problem("calculate_bias_days_metrics", f"{col}: {why}")
    for fname, lab in MUTATED:
        problem(fname, f"the call modified the caller's array passed as '{lab}'")
    del MUTATED[:]


# ------------------------------------------------------------------ call sequences over look-alike time axes
# Quantifier covered: "for all validation/future datasets ... any number of years ... [all] metrics" together with the
# clause "computed from the right datasets": every data set of a call (obs and each debiaser of calculate_marginal_bias /
# calculate_bias_days_metrics, the validation and the future period of the trend functions, each key of the conditional
# exceedance) carries ITS OWN time axis, and the axes of one call / of consecutive calls may agree in everything a
# summary of an axis could look at (length, first date, last date, entry type, even the array object, refilled in place)
# while they differ in between (calendar with / without Feb 29 or the 31st, gaps, a different split into years).  The
# cases above never had two different axes of the same length and start in one process, and took the time-scoped metrics
# only with one validation and one future axis of random, different lengths.
def gen_axis_family(rng, T):
    """five sorted time axes of the SAME length T with the same first and the same last date that differ in between
    -> [(label, [datetime.date])]: 'standard' (consecutive days, Feb 29 included when the start lies in a leap year),
    'noleap' (consecutive, Feb 29 skipped), 'no31' (consecutive, the 31st of every month skipped: a 360-day model
    calendar written with real dates), 'gaps' (random days in between), 'tail' (the consecutive days that END at the last date)"""
    y = rng.choice(range(1952, 2080, 4)) + (0 if rng.random() < 0.75 else rng.randint(1, 3))
    one = datetime.timedelta(days=1)
    d0 = datetime.date(y, 1, 1) + rng.randint(0, 45) * one
    S = T + rng.randint(40, 500)
    d1 = d0 + S * one

    def consecutive(skip):
        out, d = [], d0
        while len(out) < T - 1:
            if not skip(d):
                out.append(d)
            d += one
        return out + [d1]

    fam = [
        ("standard", consecutive(lambda d: False)),
        ("noleap", consecutive(lambda d: (d.month, d.day) == (2, 29))),
        ("no31", consecutive(lambda d: d.day == 31 and d != d0)),
        ("gaps", [d0] + [d0 + n * one for n in sorted(rng.sample(range(1, S), T - 2))] + [d1]),
        ("tail", [d0] + [d1 - (T - 2 - n) * one for n in range(T - 1)]),
    ]
    for _, a in fam:
        assert len(a) == T and a[0] == d0 and a[-1] == d1 and all(p < q for p, q in zip(a, a[1:]))
    return fam


def as_time_array(dates, kind):
    """the 1-d time array handed to the real code: python dates, python datetimes (noon) or numpy datetime64[D]"""
    if kind == "datetime64":
        return np.array([d.isoformat() for d in dates], dtype="datetime64[D]")
    objs = [datetime.datetime(d.year, d.month, d.day, 12) for d in dates] if kind == "datetime" else list(dates)
    a = np.empty(len(objs), dtype=object)
    a[:] = objs
    return a


def scoped_instances(spec, x, dates):
    """documented meaning of a time-scoped metric: every time step is compared with the threshold(s) of ITS day of the
    year / month / season.  spec = (scope, type, table | (lower table, upper table)); dates are python dates"""
    scope, kind, th = spec
    g = [d.timetuple().tm_yday if scope == "day" else (d.month if scope == "month" else SEASON[d.month]) for d in dates]
    col = lambda tbl: np.array([float(tbl[k_]) for k_ in g])[:, None, None]  # noqa: E731
    if kind == "higher":
        return x > col(th)
    if kind == "lower":
        return x < col(th)
    if kind == "between":
        return (x > col(th[0])) & (x < col(th[1]))
    return (x < col(th[0])) | (x > col(th[1]))


def time_axes_case(ax_seed, res, problems):
    """One sequence of public calls with time-scoped metrics (day / month / season thresholds) in which the data sets carry
    different time axes of the same length, first and last date (gen_axis_family).  Every returned array is compared with
    the documented formula evaluated with the data set's own axis; the references are computed before the first call.
    Real code + oracle only; the whole case is regenerated from ax_seed (replay)."""
    from ibicus.evaluate import marginal, multivariate, trend
    from ibicus.evaluate.metrics import ThresholdMetric

    rng = random.Random(ax_seed)  # its own generator: the seed alone reproduces the sequence
    I, J = rng.choice(GRIDS + [(2, 3)])
    T = rng.randint(64, 110)
    kind = rng.choice(["date", "date", "datetime", "datetime64"])
    fam = gen_axis_family(rng, T)
    rng.shuffle(fam)
    dates = dict(fam)
    order = [lab for lab, _ in fam]
    tarr = {lab: as_time_array(a, kind) for lab, a in fam}
    X = [np.array([[[rng.randint(32, 192) / 8.0 for _ in range(J)] for _ in range(I)] for _ in range(T)]) for _ in range(4)]
    e = lambda: rng.randint(0, 3) / 8.0  # noqa: E731
    lo, hi = 10.0, 18.0
    # thresholds jump between neighbouring days / months / seasons: a time step judged with the group of another axis flips
    t_day = {n: (lo if n % 2 else hi) + e() for n in range(1, 367)}
    t_mlo = {n: (6.0 if n % 2 else 13.0) + e() for n in range(1, 13)}
    t_mhi = {n: t_mlo[n] + 6.0 for n in range(1, 13)}
    t_sea = {"Winter": lo + e(), "Spring": hi + e(), "Summer": lo + 1 + e(), "Autumn": hi + 1 + e()}
    with warnings.catch_warnings():
        warnings.simplefilter("ignore")
        scoped = [
            (ThresholdMetric(threshold_value=dict(t_day), threshold_type="higher", threshold_scope="day", name="by day"), ("day", "higher", t_day)),
            (ThresholdMetric(threshold_value=[dict(t_mlo), dict(t_mhi)], threshold_type="between", threshold_scope="month", name="by month"),
             ("month", "between", (t_mlo, t_mhi))),
            (ThresholdMetric(threshold_value=dict(t_sea), threshold_type="lower", threshold_scope="season", name="by season"), ("season", "lower", t_sea)),
        ]
    # construction path from_quantile: built from a full year of data whose axis starts at the same date as the others;
    # its thresholds are read from the object (from_quantile itself is not judged here), its evaluations are judged
    qdates = [dates[order[0]][0] + datetime.timedelta(days=n) for n in range(366)]
    qx = np.array([[[rng.randint(32, 192) / 8.0 for _ in range(J)] for _ in range(I)] for _ in range(366)])
    built = call(ThresholdMetric.from_quantile, qx, 0.5, threshold_type="higher", threshold_scope="month", time=as_time_array(qdates, kind),
                 name="by month (from_quantile)")
    if built[0] == "ok" and isinstance(built[1].threshold_value, dict) and set(built[1].threshold_value) >= set(range(1, 13)):
        scoped.append((built[1], ("month", "higher", {int(k_): float(v_) for k_, v_ in built[1].threshold_value.items()})))
    mobjs = [m for m, _ in scoped]
    case = {"what": "time axes", "relation": "time_axes_sequence", "ax_seed": ax_seed, "grid": [I, J], "T": T, "time_entry_type": kind,
            "axes": {lab: [d.isoformat() for d in a] for lab, a in fam}, "data": {f"X{n}": x.tolist() for n, x in enumerate(X)},
            "metrics": [{"name": m.name, "scope": s[0], "type": s[1], "thresholds": ([{str(k_): v_ for k_, v_ in t.items()} for t in s[2]]
                                                                                    if isinstance(s[2], tuple) else {str(k_): v_ for k_, v_ in s[2].items()})}
                        for m, s in scoped],
            "note": "regenerated from ax_seed by harness.c20.time_axes_case; all axes have the same length, first and last date"}
    seq = []
    if res is not None:
        res.count(("time_axes", I, J, T, kind, tuple(order), dates[order[0]][0].isoformat()), True)
        res.extra["time_axes_cases"] = res.extra.get("time_axes_cases", 0) + 1

    def problem(what, why):
        problems.append((f"{what}: data sets on different time axes of the same length ({T}), first and last date: {why}",
                         {**case, "what": what, "failing_call": seq[-1] if seq else None, "call_sequence": list(seq)}))

    def prob(spec, x, lab):
        return scoped_instances(spec, x, dates[lab]).sum(axis=0) / x.shape[0]

    def days(spec, x, lab):
        yrs = np.array([d.year for d in dates[lab]])
        i_ = scoped_instances(spec, x, dates[lab])
        return np.mean([i_[yrs == y_].sum(axis=0) for y_ in np.unique(yrs)], axis=0)

    def nz(*arrs):
        return all(np.all(np.abs(a) > 1e-6) for a in arrs)

    def got(out, key, name, col="Bias"):
        return out if out[0] == "raise" else ("ok", row(out[1], key, name, col))

    def marginal_and_days(ax, bts=("absolute", "percentage"), with_days=True):
        """obs = X0 on ax[0]; raw = X1 on ax[1]; bc = X2 on ax[2]; same = X1 (raw's data) on ax[3]; me = X0 on ax[0]"""
        sets = (("raw", X[1], ax[1]), ("bc", X[2], ax[2]), ("same", X[1], ax[3]), ("me", X[0], ax[0]))
        for bt in bts:
            refs = {}
            for m, spec in scoped:
                pO = prob(spec, X[0], ax[0])
                for key, x, lab in sets:
                    p = prob(spec, x, lab)
                    refs[(key, m.name)] = (365 * p - 365 * pO) if bt == "absolute" else (100 * (p - pO) / pO if nz(pO) else None)
            seq.append(f"calculate_marginal_bias(obs=[X0, axis '{ax[0]}'], statistics=[], metrics=all, percentage_or_absolute='{bt}', "
                       + ", ".join(f"{key}=[X{1 if x is X[1] else (2 if x is X[2] else 0)}, axis '{lab}']" for key, x, lab in sets) + ")")
            out = call(marginal.calculate_marginal_bias, obs=[X[0], tarr[ax[0]]], statistics=[], metrics=mobjs, percentage_or_absolute=bt,
                       **{key: [x, tarr[lab]] for key, x, lab in sets})
            for (key, name), ref in refs.items():
                why = differs(got(out, key, name), ref, 365.0 if bt == "absolute" else 100.0)
                if why:
                    problem("calculate_marginal_bias", f"{bt} bias of the metric '{name}' for '{key}': {why}")
                if key == "me" and ref is not None and out[0] == "ok" and row(out[1], key, name) is not None and not np.all(row(out[1], key, name) == 0):
                    problem("calculate_marginal_bias", f"{bt} bias of the observations against themselves (same axis) is not 0 for '{name}'")
        if not with_days:
            return
        refs = {}
        for m, spec in scoped:
            dO = days(spec, X[0], ax[0])
            for key, x, lab in sets:
                dC = days(spec, x, lab)
                refs[(key, m.name)] = {"CM": dC, "Obs": dO, "Bias": dC - dO}
        seq.append(f"calculate_bias_days_metrics(obs_data=[X0, axis '{ax[0]}'], metrics=all, "
                   + ", ".join(f"{key}=[X{1 if x is X[1] else (2 if x is X[2] else 0)}, axis '{lab}']" for key, x, lab in sets) + ")")
        out = call(marginal.calculate_bias_days_metrics, obs_data=[X[0], tarr[ax[0]]], metrics=mobjs, **{key: [x, tarr[lab]] for key, x, lab in sets})
        for (key, name), d_ in refs.items():
            for col, ref in d_.items():
                why = differs(got(out, key, name, col), ref, 10.0)
                if why:
                    problem("calculate_bias_days_metrics", f"column {col} of the metric '{name}' for '{key}' "
                            f"({len(set(d.year for d in dates[dict((k_, l_) for k_, _, l_ in sets)[key]]))} year(s)): {why}")

    def trends(av, af, tts=("additive", "multiplicative")):
        """validation data (X0 raw, X2 debiased) on axis av, future data (X1 raw, X3 debiased) on axis af"""
        for tt in tts:
            refs_tb, refs_t = {}, {}
            for m, spec in scoped:
                rV, rF, bV, bF = prob(spec, X[0], av), prob(spec, X[1], af), prob(spec, X[2], av), prob(spec, X[3], af)
                if tt == "additive":
                    refs_tb[m.name] = 100 * ((bF - bV) - (rF - rV)) / (rF - rV) if nz(rF - rV) else None
                    refs_t[m.name] = bF - bV
                else:
                    refs_tb[m.name] = 100 * (bF / bV - rF / rV) / (rF / rV) if nz(bV, rV, rF) else None
                    refs_t[m.name] = bF / bV if nz(bV) else None
            use = [m for m in mobjs if refs_tb[m.name] is not None]
            if use:
                seq.append(f"calculate_future_trend_bias(raw_validate=X0, raw_future=X1, statistics=[], trend_type='{tt}', metrics={[m.name for m in use]}, "
                           f"time_validate=axis '{av}', time_future=axis '{af}', bc=[X2, X3], same=[copy of X0, copy of X1])")
                out = call(trend.calculate_future_trend_bias, raw_validate=X[0], raw_future=X[1], statistics=[], trend_type=tt, metrics=use,
                           time_validate=tarr[av], time_future=tarr[af], bc=[X[2], X[3]], same=[X[0].copy(), X[1].copy()])
                for m in use:
                    why = differs(got(out, "bc", m.name), refs_tb[m.name], 100.0)
                    if why:
                        problem("calculate_future_trend_bias", f"{tt} trend bias of the metric '{m.name}': {why}")
                    if out[0] == "ok" and (row(out[1], "same", m.name) is None or not np.all(row(out[1], "same", m.name) == 0)):
                        problem("calculate_future_trend_bias", f"{tt} trend bias of the raw model against itself is not 0 for the metric '{m.name}'")
            use = [m for m in mobjs if refs_t[m.name] is not None]
            if use:
                seq.append(f"calculate_future_trend(statistics=[], trend_type='{tt}', metrics={[m.name for m in use]}, time_validate=axis '{av}', "
                           f"time_future=axis '{af}', bc=[X2, X3])")
                out = call(trend.calculate_future_trend, statistics=[], trend_type=tt, metrics=use, time_validate=tarr[av], time_future=tarr[af],
                           bc=[X[2], X[3]])
                for m in use:
                    why = differs(got(out, "bc", m.name), refs_t[m.name], 1.0)
                    if why:
                        problem("calculate_future_trend", f"{tt} trend of the metric '{m.name}': {why}")

    def chis(ax):
        """the same pair of data sets (X0, X1) under one key per axis"""
        for (m1, s1), (m2, s2) in ((scoped[1], scoped[2]), (scoped[0], scoped[0]), (scoped[-1], scoped[1])):
            refs = {}
            for lab in ax:
                a_, b_ = scoped_instances(s1, X[0], dates[lab]), scoped_instances(s2, X[1], dates[lab])
                if np.all(b_.sum(axis=0) > 0):
                    refs[lab] = 100.0 * (a_ & b_).sum(axis=0) / b_.sum(axis=0)
            if not refs:
                continue
            seq.append(f"calculate_conditional_joint_threshold_exceedance('{m1.name}', '{m2.name}', "
                       + ", ".join(f"{lab}=[X0, X1, axis '{lab}']" for lab in refs) + ")")
            out = call(multivariate.calculate_conditional_joint_threshold_exceedance, m1, m2, **{lab: [X[0], X[1], tarr[lab]] for lab in refs})
            for lab, ref in refs.items():
                if out[0] == "ok":
                    sel = out[1][out[1]["Correction Method"] == lab]["Conditional exceedance probability"]
                    g_ = ("ok", np.asarray(sel.iloc[0], dtype=float) if len(sel) else None)
                else:
                    g_ = out
                why = differs(g_, ref, 100.0)
                if why:
                    problem("calculate_conditional_joint_threshold_exceedance", f"P('{m1.name}' | '{m2.name}') in percent for the key '{lab}': {why}")

    a = order
    tt2 = ("additive", "multiplicative") if ax_seed % 2 else ("multiplicative", "additive")
    marginal_and_days(a[:4])
    trends(a[0], a[1])
    trends(a[2], a[3], tt2[:1])
    chis(a)
    rev = a[::-1]  # the same metric objects, the axes met in the opposite order and in other roles
    trends(rev[0], rev[1], tt2[1:])
    marginal_and_days(rev[:4], bts=("percentage",))
    # one caller-held time array refilled in place between the calls (same object, same length, new dates)
    buf = tarr[a[4]].copy()
    tarr["buffer"] = buf
    for n_, lab in enumerate((a[4], a[1], a[0])):
        buf[...] = tarr[lab]
        dates["buffer"] = dates[lab]
        seq.append(f"the caller's time array 'buffer' is (re)filled in place with axis '{lab}'")
        marginal_and_days([a[2], "buffer", a[3], "buffer"], bts=("absolute",), with_days=(n_ == 1))
        trends("buffer", a[3], tt2[n_ % 2:n_ % 2 + 1])
    for fname, lab in MUTATED:
        problem(fname, f"the call modified the caller's argument passed as '{lab}'")
    del MUTATED[:]
    for fname, name, before, now in defaults_changed():
        problem(fname, f"the default argument `{name}` changed from {before} to {now}")


# ------------------------------------------------------------------ grids on which the quantity is undefined at SOME locations
# Quantifier covered: "for all validation/future datasets of any grid shape (1x1 and larger)" with the clauses "return, AT
# EVERY LOCATION, exactly the documented formulas" and "results do not depend on the number of locations".  The cases above
# judge a row of a frame only when the documented quantity exists at every location of the grid (`ref_grid` -> None as soon
# as one denominator is 0) and accept a missing row whenever some location is undefined.  Here the grid has more than one
# location, the quantity is 0/0 (undefined, NaN in floating point) at some of them — a threshold event that never happens in
# either data set at a warm cell, a dry cell (all zeros), a low quantile that is 0 in both data sets, a zero-mean column —
# and defined at the others, and NO location is +-inf (a non-zero numerator over a zero denominator is the one case in which
# the library documents, by its warning, that the row is not shown; DESIGN.md §4 records it as an observation).  Demanded:
# the row is reported, every location with a non-zero denominator holds the documented value, and that value is bit for bit
# the one obtained when the location is evaluated alone (1x1).  Nothing is demanded at the undefined locations.
PG_GRIDS = [(1, 2), (1, 3), (2, 2), (3, 1), (2, 3)]
PG_STATS = [["mean", 0.05, 0.95], ["mean", 0.1, 0.5], [0.25, "mean"], ["mean", 0.05], [0.05, 0.95, "mean"]]


def EMPTY_FRAME():
    """pandas' "No objects to concatenate": every row of the frame was dropped = a frame without rows"""
    import pandas as pd

    return pd.DataFrame({"Correction Method": [], "Metric": [], "Bias": []})


def partial_grid_case(pg_seed, res, problems):
    """One grid (2-6 locations) with 1..n-1 'undefined' locations, through calculate_marginal_bias (percentage),
    calculate_future_trend_bias (additive; multiplicative for the mean) and calculate_future_trend (multiplicative mean).
    Real code + oracle only; the whole case is regenerated from pg_seed (replay)."""
    from ibicus.evaluate import marginal, trend
    from ibicus.evaluate.metrics import ThresholdMetric

    rng = random.Random(pg_seed)  # its own generator: the seed alone reproduces the case
    I, J = rng.choice(PG_GRIDS)
    cells = [(i, j) for i in range(I) for j in range(J)]
    und = sorted(rng.sample(cells, rng.randint(1, len(cells) - 1)))
    lens = {"obs": 2 * rng.randint(6, 16), "rawF": 2 * rng.randint(6, 16)}
    lens.update(rawV=lens["obs"], bcV=lens["obs"], bcF=lens["rawF"])
    kind = rng.choice(["higher", "lower", "between", "outside"])
    a8 = rng.randint(28, 72)
    b8 = a8 + rng.randint(8, 40)
    ms = (kind, a8 / 8.0, None if kind in ("higher", "lower") else b8 / 8.0)
    metric = ThresholdMetric(threshold_value=ms[1] if ms[2] is None else [ms[1], ms[2]], threshold_type=kind, name="event")
    stats = list(rng.choice(PG_STATS))
    names = ["obs", "rawV", "bcV", "rawF", "bcF"]
    D = {n: gen_data(rng, lens[n], I, J, "regular") for n in names}
    ensure_occurs(rng, ms, [D[n] for n in names])

    def never(T):  # the event never happens (values tied with a bound included: the comparisons are strict)
        if kind == "higher":
            return [rng.randint(8, a8) / 8.0 for _ in range(T)]
        if kind == "lower":
            return [rng.randint(a8, 128) / 8.0 for _ in range(T)]
        if kind == "between":
            return [(rng.randint(8, a8) if rng.random() < 0.5 else rng.randint(b8, 160)) / 8.0 for _ in range(T)]
        return [rng.randint(a8, b8) / 8.0 for _ in range(T)]

    def column(sc, T):
        if sc == "event never occurs":
            return never(T)
        if sc == "dry cell":
            return [0.0] * T
        if sc == "zero mean":
            h = [rng.randint(0, 64) / 8.0 for _ in range(T // 2)]
            c = h + [-v for v in h]
        else:  # "low quantile zero": 40-70 % zeros, positive otherwise (precipitation-like)
            nz = rng.randint((2 * T + 4) // 5, (7 * T) // 10)
            c = [0.0] * nz + [rng.randint(1, 128) / 8.0 for _ in range(T - nz)]
        rng.shuffle(c)
        return c

    scen = {}
    for (i, j) in und:
        scen[(i, j)] = rng.choice(["event never occurs", "dry cell", "zero mean", "low quantile zero"])
        for n in names:
            D[n][:, i, j] = column(scen[(i, j)], lens[n])
    form = rng.choice(["arrays", "[data, time] lists"])
    d0 = datetime.date(rng.randint(1950, 2080), 1, 1) + datetime.timedelta(days=rng.randint(0, 300))
    tV = np.array([d0 + datetime.timedelta(days=n) for n in range(lens["obs"])], dtype=object)
    tF = np.array([d0 + datetime.timedelta(days=3650 + n) for n in range(lens["rawF"])], dtype=object)
    case = {"what": "partially undefined grid", "relation": "partially_undefined_grid", "pg_seed": pg_seed, "grid": [I, J],
            "undefined_locations": [{"location": list(c), "kind": scen[c]} for c in und], "statistics": stats,
            "metric": {"name": "event", "type": kind, "threshold": ms[1] if ms[2] is None else [ms[1], ms[2]]},
            "call_form": form, "data": {n: D[n].tolist() for n in names}, "time_validate": [str(d) for d in tV], "time_future": [str(d) for d in tF],
            "note": "regenerated from pg_seed by harness.c20.partial_grid_case; obs / rawV / bcV are the validation period, rawF / bcF the future period"}
    judged = {"rows": 0, "rows_with_undefined_location": 0, "rows_skipped_inf_or_tiny": 0}

    def problem(what, why, call_txt):
        problems.append((f"{what}: {I}x{J} grid, quantity undefined (0/0) at {[list(c) for c in und]} only: {why}", {**case, "what": what, "failing_call": call_txt}))

    def S(st, x):
        if st == "mean":
            return np.mean(x, axis=0)
        if st == "metric":
            return holds(ms, x).sum(axis=0) / x.shape[0]
        return np.quantile(x, st, axis=0)

    def label(st):
        return "Mean" if st == "mean" else ("event" if st == "metric" else f"{st} qn")

    def sub(x, c):
        return x[:, c[0]:c[0] + 1, c[1]:c[1] + 1].copy()

    def pack(x, t):
        return x if form == "arrays" else [x, t]

    def judge_rows(what, call_txt, out, key, refs, alone):
        """refs: {statistic: (reference array | None, [denominator arrays])}; alone(c) -> outcome of the same call on location c only"""
        singles = {}
        for st, (ref, dens) in refs.items():
            if ref is None or np.isinf(ref).any() or any(((d != 0) & (np.abs(d) < 1e-6)).any() for d in dens):
                judged["rows_skipped_inf_or_tiny"] += 1  # +-inf somewhere: the documented drop; tiny denominator: rounding
                continue
            judged["rows"] += 1
            judged["rows_with_undefined_location"] += bool(np.isnan(ref).any())
            if out[0] == "raise":
                problem(what, f"raised {out[1]} although no location is infinite ({label(st)})", call_txt)
                continue
            got = row(out[1], key, label(st))
            if got is None:
                c = [c_ for c_ in cells if np.isfinite(ref[c_])][0]
                problem(what, f"no row for {label(st)} ('{key}') although no location is infinite and the documented value exists at "
                        f"{int(np.isfinite(ref).sum())} location(s), e.g. {float(ref[c])!r} at {c}", call_txt)
                continue
            if got.shape != ref.shape:
                problem(what, f"{label(st)}: shape {got.shape} instead of {ref.shape}", call_txt)
                continue
            fin = np.isfinite(ref)
            bad = fin & ~(np.abs(got - np.where(fin, ref, 0.0)) <= TOL * (1 + 100.0 + np.abs(np.where(fin, ref, 0.0))))
            if bad.any():
                c = tuple(int(v) for v in np.argwhere(bad)[0])
                problem(what, f"{label(st)} ('{key}'): location {c}: returned {float(got[c])!r}, documented formula gives {float(ref[c])!r}", call_txt)
                continue
            for c in [c_ for c_ in cells if fin[c_] and c_ not in und][:2]:  # the number of locations does not matter
                if c not in singles:
                    singles[c] = alone(c)
                one = singles[c]
                v1 = None if one[0] == "raise" else row(one[1], key, label(st))
                if v1 is None or not np.array_equal(v1[0, 0], got[c]):
                    problem(what, f"{label(st)} ('{key}'): location {c} evaluated alone (1x1) gives "
                            f"{one[1] if one[0] == 'raise' else (None if v1 is None else float(v1[0, 0]))!r}, inside the {I}x{J} grid {float(got[c])!r}", call_txt)
                    break

    with np.errstate(all="ignore"):
        sts = stats + ["metric"]
        # ---- calculate_marginal_bias, percentage: 100 (cm - obs) / obs
        for key in ("raw", "bc"):
            cm = D["rawV" if key == "raw" else "bcV"]
            refs = {st: (100 * (S(st, cm) - S(st, D["obs"])) / S(st, D["obs"]), [S(st, D["obs"])]) for st in sts}
            txt = f"calculate_marginal_bias(obs=obs, statistics={stats}, metrics=[event], percentage_or_absolute='percentage', {key}={'rawV' if key == 'raw' else 'bcV'}) [{form}]"
            out = call(marginal.calculate_marginal_bias, obs=pack(D["obs"], tV), statistics=stats, metrics=[metric], **{key: pack(cm, tV)})
            if out == ("raise", "NoRows"):
                out = ("ok", EMPTY_FRAME())
            judge_rows("calculate_marginal_bias", txt, out, key, refs,
                       lambda c, cm=cm, key=key: call(marginal.calculate_marginal_bias, obs=pack(sub(D["obs"], c), tV), statistics=stats, metrics=[metric],
                                                      **{key: pack(sub(cm, c), tV)}))
        # ---- calculate_future_trend_bias: 100 (bc_trend - raw_trend) / raw_trend; calculate_future_trend: bc_trend
        for tt in ("additive", "multiplicative"):
            use = sts if tt == "additive" else ["mean"]  # multiplicative quantile / metric paths: a zero validation statistic aborts the call (guard)
            refs, refs_t = {}, {}
            for st in use:
                rV, rF, bV, bF = (S(st, D[n]) for n in ("rawV", "rawF", "bcV", "bcF"))
                rt, bt_ = (rF - rV, bF - bV) if tt == "additive" else (rF / rV, bF / bV)
                refs[st] = (100 * (bt_ - rt) / rt, [rt] if tt == "additive" else [rt, rV, bV])
                refs_t[st] = (bt_, [] if tt == "additive" else [bV])
            kw = dict(statistics=[s_ for s_ in use if s_ != "metric"], metrics=[metric] if "metric" in use else [], trend_type=tt,
                      time_validate=tV, time_future=tF)
            txt = f"calculate_future_trend_bias(rawV, rawF, statistics={kw['statistics']}, trend_type='{tt}', metrics={'[event]' if kw['metrics'] else '[]'}, bc=[bcV, bcF])"
            out = call(trend.calculate_future_trend_bias, raw_validate=D["rawV"], raw_future=D["rawF"], bc=[D["bcV"], D["bcF"]], **kw)
            if out == ("raise", "NoRows"):
                out = ("ok", EMPTY_FRAME())
            judge_rows("calculate_future_trend_bias", txt, out, "bc", refs,
                       lambda c, kw=kw: call(trend.calculate_future_trend_bias, raw_validate=sub(D["rawV"], c), raw_future=sub(D["rawF"], c),
                                             bc=[sub(D["bcV"], c), sub(D["bcF"], c)], **kw))
            if tt == "multiplicative":
                txt = "calculate_future_trend(statistics=['mean'], trend_type='multiplicative', metrics=[], bc=[bcV, bcF])"
                out = call(trend.calculate_future_trend, bc=[D["bcV"], D["bcF"]], **kw)
                if out == ("raise", "NoRows"):
                    out = ("ok", EMPTY_FRAME())
                judge_rows("calculate_future_trend", txt, out, "bc", refs_t,
                           lambda c, kw=kw: call(trend.calculate_future_trend, bc=[sub(D["bcV"], c), sub(D["bcF"], c)], **kw))
    if res is not None:
        res.count(("partial_grid", I, J, tuple(und), tuple(sorted(scen.values())), kind, str(stats), form), judged["rows_with_undefined_location"] > 0)
        for k_, v_ in judged.items():
            res.extra["partial_grid_" + k_] = res.extra.get("partial_grid_" + k_, 0) + v_
    for fname, lab in MUTATED:
        problem(fname, f"the call modified the caller's argument passed as '{lab}'", None)
    del MUTATED[:]
    for fname, name, before, now in defaults_changed():
        problem(fname, f"the default argument `{name}` changed from {before} to {now}", None)


# ------------------------------------------------------------------ thresholds written with every numeric type the class accepts
# Quantifier covered: "[for all] metrics" (and "all statistics ..., additive and multiplicative trend types" through every
# public function).  A ThresholdMetric is documented to take ints or floats (global) or arrays (local) as thresholds, bare,
# in a [lower, upper] list or in a day / month / season dict.  All generators above write every threshold as a Python float.
# Here the thresholds of one metric MIX the accepted numeric types — Python int for whole numbers (290), Python float /
# np.float64 for fractional ones (292.5), integer and floating arrays for local thresholds — in dicts whose keys are in
# random order, on time axes that start anywhere in the year (so the first time step meets an int threshold or a float one).
# Demanded: every public function reports the documented quantity for the thresholds AS WRITTEN (290 means 290.0), and
# bit for bit the same frames as for the twin metric whose thresholds are all written as Python floats / float64 arrays.
SEASONS = ["Winter", "Spring", "Summer", "Autumn"]


def threshold_types_case(tv_seed, res, problems):
    """One sequence of public calls with six metrics (season / month / day / overall scope, global and local) whose thresholds
    mix the numeric types.  Real code + oracle only; the whole case is regenerated from tv_seed (replay)."""
    from ibicus.evaluate import marginal, multivariate, trend
    from ibicus.evaluate.metrics import ThresholdMetric

    rng = random.Random(tv_seed)  # its own generator: the seed alone reproduces the sequence
    I, J = rng.choice(GRIDS + [(2, 3)])
    T = rng.randint(60, 100)
    tkind = rng.choice(["date", "date", "datetime", "datetime64"])

    def axis():  # T days out of two years, starting anywhere in the year: every season and most months are met
        d0 = datetime.date(rng.randint(1950, 2080), rng.randint(1, 12), rng.randint(1, 28))
        return [d0 + datetime.timedelta(days=n) for n in sorted(rng.sample(range(730), T))]

    dA, dB = axis(), axis()
    tA, tB = as_time_array(dA, tkind), as_time_array(dB, tkind)
    X = [np.array([[[rng.randint(32, 160) / 8.0 for _ in range(J)] for _ in range(I)] for _ in range(T)]) for _ in range(4)]

    def level(p_whole, base=None):
        n = rng.randint(8, 15) if base is None else base + rng.randint(2, 5)
        return float(n) if rng.random() < p_whole else n + rng.randint(1, 7) / 8.0

    def typed(v, style):
        """the value v (a float) as a caller would write it"""
        if float(v).is_integer():
            return int(v) if (style != "int, float and np.float64" or rng.random() < 0.6) else rng.choice([float(v), np.float64(v)])
        return float(v) if (style != "int, float and np.float64" or rng.random() < 0.5) else np.float64(v)

    def typed_array(a, style):
        if np.all(a == np.floor(a)):
            return a.astype(rng.choice([np.int64, np.int32]) if style != "int, float and np.float64" or rng.random() < 0.7 else np.float64)
        return a.astype(rng.choice([np.float64, np.float32]))  # multiples of 1/8 below 32: exact in float32

    def show(v):
        if isinstance(v, list):
            return f"[{v[0].dtype} array {v[0].tolist()}]"
        if isinstance(v, np.ndarray):
            return f"{v.dtype} array {v.tolist()}"
        return f"{type(v).__name__} {v!r}"

    def tables(scope, locality, style, below=None):
        """-> (canonical float table, table as written); `below`: the canonical lower table (then this is the upper one)"""
        p = 1.0 if style == "all int" else 0.5
        keys = {"season": list(SEASONS), "month": list(range(1, 13)), "day": list(range(1, 367)), "overall": [None]}[scope]
        f, t = {}, {}
        for k_ in keys:
            if locality == "global":
                f[k_] = level(p, None if below is None else int(below[k_]))
                t[k_] = typed(f[k_], style)
            else:
                whole = rng.random() < p
                lo_ = None if below is None else np.floor(np.asarray(below[k_][0] if scope != "overall" else below[k_]))
                a = np.array([[level(1.0 if whole else 0.3, None if lo_ is None else int(lo_[i, j])) for j in range(J)] for i in range(I)])
                ta = typed_array(a, style)
                f[k_], t[k_] = ([a], [ta]) if scope != "overall" else (a, ta)
        if scope == "overall":
            return f[None], t[None]
        order = list(keys)
        rng.shuffle(order)  # the order in which the caller wrote the keys
        return f, {k_: t[k_] for k_ in order}

    plan = [("season", "global"), ("month", "global"), ("day", "global"), ("overall", "global"),
            (rng.choice(["season", "month"]), "local"), ("overall", "local")]
    specs, seq = [], []
    for n_, (scope, locality) in enumerate(plan):
        kind = rng.choice(["higher", "lower", "between", "outside"])
        style = rng.choice(["int and float", "int and float", "int, float and np.float64", "all int"])
        flo, tlo = tables(scope, locality, style)
        fhi, thi = tables(scope, locality, style, below=flo if scope != "overall" else {None: flo}) if kind in ("between", "outside") else (None, None)
        specs.append(dict(name=f"m{n_} {scope} {locality} {kind}", scope=scope, locality=locality, kind=kind, style=style, f=(flo, fhi), t=(tlo, thi)))

    def written(s, tbls):
        lo_, hi_ = tbls
        one = lambda tb: ({str(k_): show(v_) for k_, v_ in tb.items()} if isinstance(tb, dict) else show(tb))  # noqa: E731
        return one(lo_) if hi_ is None else [one(lo_), one(hi_)]

    case = {"what": "threshold types", "relation": "threshold_value_types", "tv_seed": tv_seed, "grid": [I, J], "T": T, "time_entry_type": tkind,
            "axis_A": [d.isoformat() for d in dA], "axis_B": [d.isoformat() for d in dB], "data": {f"X{n}": x.tolist() for n, x in enumerate(X)},
            "metrics": [{"name": s["name"], "scope": s["scope"], "locality": s["locality"], "type": s["kind"], "style": s["style"],
                         "threshold_value_as_written": written(s, s["t"])} for s in specs],
            "note": "regenerated from tv_seed by harness.c20.threshold_types_case; the twin metrics have the same thresholds written as Python floats / float64 arrays"}

    def problem(what, why):
        problems.append((f"{what}: thresholds mixing int / float: {why}", {**case, "what": what, "failing_call": seq[-1] if seq else None, "call_sequence": list(seq)}))

    def build(s, tbls, name):
        lo_, hi_ = tbls
        out = call(ThresholdMetric, threshold_value=lo_ if hi_ is None else [lo_, hi_], threshold_type=s["kind"], threshold_scope=s["scope"],
                   threshold_locality=s["locality"], name=name)
        return out[1] if out[0] == "ok" else None

    M, Mf, use = [], [], []
    for s in specs:
        m, mf = build(s, s["t"], s["name"]), build(s, s["f"], s["name"])
        if m is None or mf is None:
            seq.append(f"ThresholdMetric(threshold_value={written(s, s['t'])!r:.300}, threshold_type='{s['kind']}', threshold_scope='{s['scope']}', "
                       f"threshold_locality='{s['locality']}')")
            problem("ThresholdMetric", f"the constructor raised for '{s['name']}' (thresholds as written: {m is None}, as floats: {mf is None})")
            continue
        M.append(m)
        Mf.append(mf)
        use.append(s)
    if not M:
        return

    def thr(s, tb, dates):
        if s["scope"] == "overall":
            v = np.asarray(tb, dtype=float)
            return v[None, :, :] if s["locality"] == "local" else v
        g = [d.timetuple().tm_yday if s["scope"] == "day" else (d.month if s["scope"] == "month" else SEASON[d.month]) for d in dates]
        if s["locality"] == "global":
            return np.array([float(tb[k_]) for k_ in g])[:, None, None]
        return np.stack([np.asarray(tb[k_][0], dtype=float) for k_ in g])

    def inst(s, x, dates):
        lo_ = thr(s, s["f"][0], dates)
        hi_ = None if s["f"][1] is None else thr(s, s["f"][1], dates)
        return {"higher": lambda: x > lo_, "lower": lambda: x < lo_, "between": lambda: (x > lo_) & (x < hi_),
                "outside": lambda: (x < lo_) | (x > hi_)}[s["kind"]]()

    def prob(s, x, dates):
        return inst(s, x, dates).sum(axis=0) / x.shape[0]

    def days(s, x, dates):
        yrs = np.array([d.year for d in dates])
        i_ = inst(s, x, dates)
        return np.mean([i_[yrs == y_].sum(axis=0) for y_ in np.unique(yrs)], axis=0)

    def nz(*arrs):
        return all(np.all(np.abs(a) > 1e-6) for a in arrs)

    def got(out, key, name, col="Bias"):
        return out if out[0] == "raise" else ("ok", row(out[1], key, name, col))

    def twin(what, a, b):
        why = frames_differ(a, b)
        if why:
            problem(what, f"the result differs from the one for the same thresholds written as floats: {why}")

    judged = 0
    sets = (("raw", X[1], tA, dA), ("fut", X[2], tB, dB))
    with np.errstate(all="ignore"):
        for bt in ("percentage", "absolute"):
            refs = {}
            for s in use:
                pO = prob(s, X[0], dA)
                for key, x, _, dd in sets:
                    p = prob(s, x, dd)
                    refs[(key, s["name"])] = (365 * p - 365 * pO) if bt == "absolute" else (100 * (p - pO) / pO if nz(pO) else None)
            seq.append(f"calculate_marginal_bias(obs=[X0, axis_A], statistics=[], metrics=all, percentage_or_absolute='{bt}', raw=[X1, axis_A], fut=[X2, axis_B])")
            kw = dict(obs=[X[0], tA], statistics=[], percentage_or_absolute=bt, raw=[X[1], tA], fut=[X[2], tB])
            out = call(marginal.calculate_marginal_bias, metrics=M, **kw)
            for (key, name), ref in refs.items():
                judged += ref is not None
                why = differs(got(out, key, name), ref, 365.0 if bt == "absolute" else 100.0)
                if why:
                    problem("calculate_marginal_bias", f"{bt} bias of the metric '{name}' for '{key}': {why}")
            twin("calculate_marginal_bias", out, call(marginal.calculate_marginal_bias, metrics=Mf, **kw))
        refs = {}
        for s in use:
            dO = days(s, X[0], dA)
            for key, x, _, dd in sets:
                dC = days(s, x, dd)
                refs[(key, s["name"])] = {"CM": dC, "Obs": dO, "Bias": dC - dO}
        seq.append("calculate_bias_days_metrics(obs_data=[X0, axis_A], metrics=all, raw=[X1, axis_A], fut=[X2, axis_B])")
        kw = dict(obs_data=[X[0], tA], raw=[X[1], tA], fut=[X[2], tB])
        out = call(marginal.calculate_bias_days_metrics, metrics=M, **kw)
        for (key, name), d_ in refs.items():
            for col, ref in d_.items():
                judged += 1
                why = differs(got(out, key, name, col), ref, 10.0)
                if why:
                    problem("calculate_bias_days_metrics", f"column {col} of the metric '{name}' for '{key}': {why}")
        twin("calculate_bias_days_metrics", out, call(marginal.calculate_bias_days_metrics, metrics=Mf, **kw))
        for tt in ("additive", "multiplicative"):
            refs_tb, refs_t = {}, {}
            for s in use:
                rV, rF, bV, bF = prob(s, X[0], dA), prob(s, X[2], dB), prob(s, X[1], dA), prob(s, X[3], dB)
                if tt == "additive":
                    refs_tb[s["name"]] = 100 * ((bF - bV) - (rF - rV)) / (rF - rV) if nz(rF - rV) else None
                    refs_t[s["name"]] = bF - bV
                else:
                    refs_tb[s["name"]] = 100 * (bF / bV - rF / rV) / (rF / rV) if nz(bV, rV, rF) else None
                    refs_t[s["name"]] = bF / bV if nz(bV) else None
            for fn, fname, refs_, extra, sc in ((trend.calculate_future_trend_bias, "calculate_future_trend_bias", refs_tb,
                                                 dict(raw_validate=X[0], raw_future=X[2]), 100.0),
                                                (trend.calculate_future_trend, "calculate_future_trend", refs_t, {}, 1.0)):
                idx = [n_ for n_, s in enumerate(use) if refs_[s["name"]] is not None]
                if not idx:
                    continue
                seq.append(f"{fname}({'raw_validate=X0, raw_future=X2, ' if extra else ''}statistics=[], trend_type='{tt}', "
                           f"metrics={[use[n_]['name'] for n_ in idx]}, time_validate=axis_A, time_future=axis_B, bc=[X1, X3])")
                kw = dict(statistics=[], trend_type=tt, time_validate=tA, time_future=tB, bc=[X[1], X[3]], **extra)
                out = call(fn, metrics=[M[n_] for n_ in idx], **kw)
                for n_ in idx:
                    judged += 1
                    why = differs(got(out, "bc", use[n_]["name"]), refs_[use[n_]["name"]], sc)
                    if why:
                        problem(fname, f"{tt} trend{' bias' if extra else ''} of the metric '{use[n_]['name']}': {why}")
                twin(fname, out, call(fn, metrics=[Mf[n_] for n_ in idx], **kw))
        for a_, b_ in ((0, 1 % len(use)), (2 % len(use), 2 % len(use)), (len(use) - 2, max(0, len(use) - 3))) if len(use) > 1 else ():
            s1, s2 = use[a_], use[b_]
            i1, i2 = inst(s1, X[0], dA), inst(s2, X[1], dA)
            ref = 100.0 * (i1 & i2).sum(axis=0) / i2.sum(axis=0) if np.all(i2.sum(axis=0) > 0) else None
            seq.append(f"calculate_conditional_joint_threshold_exceedance('{s1['name']}', '{s2['name']}', d=[X0, X1, axis_A])")
            out = call(multivariate.calculate_conditional_joint_threshold_exceedance, M[a_], M[b_], d=[X[0], X[1], tA])
            if ref is not None:
                judged += 1
                g_ = out if out[0] == "raise" else ("ok", np.asarray(out[1]["Conditional exceedance probability"].iloc[0], dtype=float))
                why = differs(g_, ref, 100.0)
                if why:
                    problem("calculate_conditional_joint_threshold_exceedance", f"P('{s1['name']}' | '{s2['name']}') in percent: {why}")
            twin("calculate_conditional_joint_threshold_exceedance", out,
                 call(multivariate.calculate_conditional_joint_threshold_exceedance, Mf[a_], Mf[b_], d=[X[0], X[1], tA]))
    if res is not None:
        res.count(("threshold_types", I, J, T, tkind, dA[0].isoformat(), tuple((s["scope"], s["locality"], s["kind"], s["style"]) for s in use)), True)
        res.extra["threshold_types_cases"] = res.extra.get("threshold_types_cases", 0) + 1
        res.extra["threshold_types_rows_judged"] = res.extra.get("threshold_types_rows_judged", 0) + judged
    for fname, lab in MUTATED:
        problem(fname, f"the call modified the caller's argument passed as '{lab}'")
    del MUTATED[:]
    for fname, name, before, now in defaults_changed():
        problem(fname, f"the default argument `{name}` changed from {before} to {now}")


# ------------------------------------------------------------------ short records in every documented container form
# Quantifier covered: "for all validation/future datasets of any grid shape ... and any number of years (including one)".
# A data set is a [time, lat, lon] array of ANY record length; the public functions take it bare, or wrapped in the
# documented pair containers ([data, time] / (data, time) for calculate_marginal_bias and calculate_bias_days_metrics,
# debiaser = [validation, future] for the trend functions, key = [x1, x2(, time)] for the conditional exceedance).
# Every generator above produces records of >= 6 time steps, so a record whose LENGTH coincides with the length of one
# of these containers (2, 3), with a grid dimension (T == lat, T == lon) or with 1 was never evaluated — and a bare array
# of two time steps is exactly what a "pair" test by len() confuses with [data, time].  Here the record lengths are 1..4
# (2 most often; the observations, the validation and the future period each have their own), the record may straddle a
# New Year (two time steps = two years), and every argument independently comes bare, as a list or as a tuple.
# Demanded: the documented formula at every location (same reference functions as the other oracles, same guards: a
# row is judged only when every denominator is non-zero) — a wrong shape, a raise or a dropped row is a violation.
SR_GRIDS = [(1, 1), (1, 2), (2, 1), (2, 2), (1, 3), (3, 1), (2, 3), (3, 2)]
SR_LENS = [1, 2, 2, 2, 2, 3, 3, 4]
SR_STATS = [["mean", 0.05, 0.95], ["mean", 0.5], [0.25, "mean", 0.75], ["mean"], [0.0, 1.0, "mean"]]


def short_record_case(sr_seed, res, problems):
    """One grid, records of 1-4 time steps, through all five public functions; real code + oracle only; the whole case is
    regenerated from sr_seed (replay)."""
    from ibicus.evaluate import marginal, multivariate, trend
    from ibicus.evaluate.metrics import ThresholdMetric

    rng = random.Random(sr_seed)  # its own generator: the seed alone reproduces the case
    I, J = rng.choice(SR_GRIDS)
    lens = {"obs": rng.choice(SR_LENS), "rawV": rng.choice(SR_LENS), "rawF": rng.choice(SR_LENS)}
    lens.update(bcV=lens["rawV"], bcF=lens["rawF"])
    names = ["obs", "rawV", "bcV", "rawF", "bcF"]
    D = {n: gen_data(rng, lens[n], I, J, "regular") for n in names}
    mss = []
    for _ in range(2):
        kind = rng.choice(["higher", "lower", "between", "outside"])
        a8 = rng.randint(40, 88)
        mss.append((kind, a8 / 8.0, None if kind in ("higher", "lower") else (a8 + rng.randint(8, 32)) / 8.0))
    mobj = [ThresholdMetric(threshold_value=m[1] if m[2] is None else [m[1], m[2]], threshold_type=m[0], name=f"event{n}") for n, m in enumerate(mss)]
    for n in names:  # the metrics occur at least once per column where the record allows it (they are denominators)
        x = D[n]
        for i in range(I):
            for j in range(J):
                for m in mss:
                    if not holds(m, x[:, i, j]).any() and rng.random() < 0.8:
                        kind, a, b = m
                        x[rng.randrange(x.shape[0]), i, j] = {"higher": a + 1, "lower": a - 1, "between": (a + (b or a)) / 2, "outside": a - 1}[kind]
    stats = list(rng.choice(SR_STATS))

    def axis(T, y0):  # consecutive days; every second axis straddles a New Year when T >= 2
        if T >= 2 and rng.random() < 0.5:
            d0 = datetime.date(y0, 12, 31) - datetime.timedelta(days=rng.randint(0, T - 2))
        else:
            d0 = datetime.date(y0, 1, 1) + datetime.timedelta(days=rng.randint(0, 300))
        return np.array([d0 + datetime.timedelta(days=n) for n in range(T)], dtype=object)

    y0 = rng.randint(1950, 2060)
    times = {"obs": axis(lens["obs"], y0), "rawV": axis(lens["rawV"], y0), "rawF": axis(lens["rawF"], y0 + 30)}
    times.update(bcV=times["rawV"], bcF=times["rawF"])
    forms = {n: rng.choice(["bare array", "bare array", "[data, time] list", "(data, time) tuple"]) for n in ("obs", "rawV", "bcV")}
    pair = rng.choice(["list", "tuple"])
    case = {"what": "short records", "relation": "short_records", "sr_seed": sr_seed, "grid": [I, J], "record_lengths": lens,
            "statistics": stats, "metrics": [{"name": f"event{n}", "type": m[0], "threshold": m[1] if m[2] is None else [m[1], m[2]]} for n, m in enumerate(mss)],
            "call_forms_marginal_bias": forms, "pair_container": pair, "data": {n: D[n].tolist() for n in names},
            "time": {n: [str(d) for d in times[n]] for n in ("obs", "rawV", "rawF")},
            "note": "regenerated from sr_seed by harness.c20.short_record_case; obs / rawV / bcV are the validation period, rawF / bcF the future period"}
    scale = float(max(np.abs(D[n]).max() for n in names))
    judged = {"rows": 0, "rows_guard_not_met": 0}

    def problem(what, why, call_txt):
        problems.append((f"{what}: {I}x{J} grid, record lengths {lens}: {why}", {**case, "what": what, "failing_call": call_txt}))

    def pack(n):
        f = forms[n]
        return D[n] if f == "bare array" else ([D[n], times[n]] if f.startswith("[") else (D[n], times[n]))

    def P(*xs):
        return list(xs) if pair == "list" else tuple(xs)

    def label(st):
        return "Mean" if st == "mean" else f"{st} qn"

    def judge_row(what, txt, out, key, name, ref, sc, colname="Bias"):
        if ref is None:
            judged["rows_guard_not_met"] += 1
            return
        judged["rows"] += 1
        if out[0] == "raise":
            real = out
        else:
            df = out[1]
            sel = df[(df["Correction Method"] == key) & (df[df.columns[1]] == name)]
            real = ("ok", None if len(sel) == 0 else np.asarray(sel[colname].iloc[0], dtype=float))
        why = differs(real, ref, sc)
        if why:
            problem(what, f"{name} ('{key}', column {colname}): {why}", txt)

    sts = [(st, label(st), None) for st in stats] + [("metric", mobj[n].name, mss[n]) for n in range(2)]
    with np.errstate(all="ignore"):
        # ---- calculate_marginal_bias: 100 (cm - obs) / obs | cm - obs (metrics: 365 days per year)
        for bt in ("percentage", "absolute"):
            txt = (f"calculate_marginal_bias(obs={forms['obs']}, statistics={stats}, metrics=[event0, event1], percentage_or_absolute='{bt}', "
                   f"raw={forms['rawV']}, bc={forms['bcV']})")
            out = call(marginal.calculate_marginal_bias, obs=pack("obs"), statistics=list(stats), metrics=list(mobj), percentage_or_absolute=bt,
                       raw=pack("rawV"), bc=pack("bcV"))
            for key, n in (("raw", "rawV"), ("bc", "bcV")):
                for st, name, ms in sts:
                    judge_row("calculate_marginal_bias", txt, out, key, name, ref_marginal(bt, st, D["obs"], D[n], ms), 365.0 if ms else scale)
        # ---- calculate_bias_days_metrics: mean days per year in CM / Obs, Bias = CM - Obs
        txt = f"calculate_bias_days_metrics(obs_data=[obs, time] as {pair}, metrics=[event0, event1], raw=[rawV, time], fut=[rawF, time])"
        out = call(marginal.calculate_bias_days_metrics, obs_data=P(D["obs"], times["obs"]), metrics=list(mobj),
                   raw=P(D["rawV"], times["rawV"]), fut=P(D["rawF"], times["rawF"]))
        for key, n in (("raw", "rawV"), ("fut", "rawF")):
            for k_, ms in enumerate(mss):
                cm_, ob_ = ref_days(ms, D[n], times[n]), ref_days(ms, D["obs"], times["obs"])
                for colname, ref in (("CM", cm_), ("Obs", ob_), ("Bias", cm_ - ob_)):
                    judge_row("calculate_bias_days_metrics", txt, out, key, mobj[k_].name, ref, 10.0, colname)
        # ---- trend bias 100 (bc_trend - raw_trend) / raw_trend and trend of bc, additive and multiplicative
        for tt in ("additive", "multiplicative"):
            for st, name, ms in sts:  # one statistic per call: a multiplicative zero guard of one statistic aborts the whole call
                kw = dict(statistics=[] if ms else [st], metrics=[mobj[int(name[5:])]] if ms else [], trend_type=tt,
                          time_validate=times["rawV"], time_future=times["rawF"])
                txt = f"calculate_future_trend_bias(rawV, rawF, statistics={kw['statistics']}, metrics={[name] if ms else []}, trend_type='{tt}', bc=[bcV, bcF] as {pair})"
                out = call(trend.calculate_future_trend_bias, raw_validate=D["rawV"], raw_future=D["rawF"], bc=P(D["bcV"], D["bcF"]), **kw)
                judge_row("calculate_future_trend_bias", txt, out, "bc", name, ref_trend_bias(tt, st, D["rawV"], D["rawF"], D["bcV"], D["bcF"], ms), 100.0)
                txt = f"calculate_future_trend(statistics={kw['statistics']}, metrics={[name] if ms else []}, trend_type='{tt}', bc=[bcV, bcF] as {pair})"
                out = call(trend.calculate_future_trend, bc=P(D["bcV"], D["bcF"]), **kw)
                judge_row("calculate_future_trend", txt, out, "bc", name, ref_trend(tt, st, D["bcV"], D["bcF"], ms), scale)
        # ---- conditional joint exceedance P(m1 and m2) / P(m2), in percent; a metric conditioned on itself = 100
        for key, a, b, with_time in (("v", "rawV", "bcV", False), ("f", "rawF", "bcF", True), ("o", "obs", "obs", False)):
            xs = P(D[a], D[b], times[a]) if with_time else P(D[a], D[b])
            for (m1, m2) in ((0, 1), (1, 1)):
                x1 = D[a]
                x2 = D[b] if m1 != m2 else D[a]
                if m1 == m2:
                    xs = P(x1, x1, times[a]) if with_time else P(x1, x1)
                txt = f"calculate_conditional_joint_threshold_exceedance(event{m1}, event{m2}, {key}=[{a}, {b if m1 != m2 else a}{', time' if with_time else ''}] as {pair})"
                out = call(multivariate.calculate_conditional_joint_threshold_exceedance, mobj[m1], mobj[m2], **{key: xs})
                judge_row("calculate_conditional_joint_threshold_exceedance", txt, out, key, f"event{m1} given event{m2}", ref_chi(mss[m1], mss[m2], x1, x2),
                          100.0, "Conditional exceedance probability")
    if res is not None:
        res.count(("short_records", I, J, tuple(sorted(lens.items())), tuple(sorted(forms.items())), pair, str(stats), str(mss)),
                  min(lens.values()) <= 2)
        for k_, v_ in judged.items():
            res.extra["short_records_" + k_] = res.extra.get("short_records_" + k_, 0) + v_
    for fname, lab in MUTATED:
        problem(fname, f"the call modified the caller's argument passed as '{lab}'", None)
    del MUTATED[:]
    for fname, name, before, now in defaults_changed():
        problem(fname, f"the default argument `{name}` changed from {before} to {now}", None)


def rmse_case(k, rng, lines, expect, res):
    """correlation.rmse_spatial_correlation_distribution vs the model's exact covariances (sqrt / mean done in float here)"""
    from ibicus.evaluate import correlation

    I, J = GRIDS[k % len(GRIDS)]
    T = rng.randint(4, 9)
    obs, cm = gen_data(rng, T, I, J, "free"), gen_data(rng, T, I, J, "free")
    for a in (obs, cm):  # no constant columns (corrcoef would be NaN)
        for i in range(I):
            for j in range(J):
                if np.unique(a[:, i, j]).size == 1:
                    a[0, i, j] += 1.0
    out = call(correlation.rmse_spatial_correlation_distribution, variable="tas", obs_data=obs, cm=cm)
    cells = [(i, j) for i in range(I) for j in range(J)]
    start = len(lines)
    for (a, b) in cells:
        for (i, j) in cells:
            for d in (obs, cm):
                lines.append(f"cov {C.rlist(d[:, a, b].tolist())} {C.rlist(d[:, i, j].tolist())}")
    expect.append(dict(start=start, cells=cells, real=out, case={"grid": [I, J], "T": T}))
    res.count(("rmse", I, J, T, obs.tobytes()[:32]), True)


def judge_rmse(item, out):
    kind, df = item["real"]
    if kind == "raise":
        return f"raised {df}"
    cells, p = item["cells"], item["start"]
    for n, (a, b) in enumerate(cells):
        se = 0.0
        for (i, j) in cells:
            rs = []
            for _ in range(2):
                c, vx, vy = (Fraction(t) for t in out[p].split(";"))
                p += 1
                rs.append(float(c) / math.sqrt(float(vx) * float(vy)))
            se += (rs[0] - rs[1]) ** 2
        model = math.sqrt(se / len(cells))
        r = df[(df["x"] == a) & (df["y"] == b)]["RMSE spatial correlation"]
        if len(r) != 1 or not abs(float(r.iloc[0]) - model) <= 1e-9 * (1 + model):
            return f"location {(a, b)}: impl {r.tolist()}, model {model!r}"
    return None


def run(tier, res, force_search=False):
    rng = random.Random(C.seed() * 9973 + 20)
    res.rule = ("an evaluation = one public call (one statistic / metric, one bias or trend type, one data set key) compared at every location; "
                "cases = (grid 1x1 | 1x3 | 2x2 | 3x1 (| 2x3), 1-3 years of dates for the validation and the future period, flavour regular | "
                "degenerate (constant / zero columns), statistics list, two threshold metrics of random type) with dyadic data k/8 from one PRNG "
                "(VERIF_SEED); every public function is called on every case for both bias types / trend types; an evaluation is non-trivial when the "
                "grid has more than one location or the validation period is a single year; distinct = distinct (function, case, statistic, type, key)")
    res.trusted = C.BASE_TRUSTED + [
        "np.mean / np.quantile / np.sum / np.einsum('ijk -> jk') over axis 0 act on every location's column separately (translator option `column`); "
        "np.quantile's default method is Model.Stats.quantileLinear",
        "pandas keeps the per-location result arrays unchanged in the 'Bias' / 'CM' / 'Obs' columns",
        "translator options partial_div (`/` = Py.divE), extern (np.quantile, metric.calculate_exceedance_probability, "
        "metric.calculate_instances_of_threshold_exceedance, year are parameters of the generated definitions)",
        "ThresholdMetric (overall / global thresholds) is modelled by Model.Evaluate.Metric; the other threshold scopes belong to C19",
        "np.corrcoef and math.sqrt are not modelled: the driver returns exact covariances, the harness forms r = cov / sqrt(var var) in floating point",
    ]
    res.assumptions = [
        "guards of the property: denominators (observed statistic, raw trend, validation statistics) non-zero, metric 2 occurs at every location, time sorted",
        "the conditional joint exceedance is reported in percent (the code multiplies chi by 100; docstring says probability)",
        "on grids with more than one location, where some location trips a multiplicative zero guard, the check accepts both a ZeroDivisionError of the whole call and non-finite values at those locations (counted as mixed_guard_accepted); a 1x1 grid must raise",
        "quantile-based denominators that are exactly 0 in the model are accepted as ties (float lerp can differ in the last bit)",
        "decided by the oracle on the real code only (the value-level model cannot exhibit them): arguments / default-argument objects left "
        "unchanged and repeated calls identical (Python object aliasing and mutable defaults; the model's functions are pure), independence of "
        "logger verbosity / print options (process state), integer width of the instance counts (the model counts in unbounded Int; "
        "Props.C20.record_length_independent states the value-level fact), inf-vs-NaN row dropping and float rounding at a zero denominator",
        "time-scoped metrics (day / month / season thresholds) are decided by the oracle on the real code: time_axes_case runs call sequences in "
        "which every data set carries its own time axis and the axes share length, first and last date, entry type (date | datetime | datetime64) "
        "and, for one of them, the array object (refilled in place); the reference takes each time step with the threshold of its own day / month / season",
        "a row of a frame may be missing only when some location is +-inf (non-zero numerator over a zero denominator: the library warns and does not "
        "show the row; DESIGN.md §4 observation); partial_grid_case demands, on grids where the quantity is 0/0 at some locations and no location is "
        "infinite, that the row is reported, that every location with a non-zero denominator holds the documented value and that this value is bit for "
        "bit the one of the location evaluated alone (Props.C20.grid_independent / grid_raises_iff: a location that merely divides by zero does not "
        "abort the others); nothing is demanded at the undefined locations",
        "thresholds of a metric may mix the accepted numeric types (int for whole numbers, float / np.float64, integer and floating arrays for local "
        "thresholds; dict keys in any order): threshold_types_case demands the documented quantity for the thresholds as written and frames bit for "
        "bit equal to those of the twin metric with all thresholds written as floats (decided by the oracle on the real code; ThresholdMetric itself belongs to C19)",
        "a data set may have any record length: short_record_case evaluates records of 1-4 time steps (lengths that coincide with the length of the "
        "documented pair / triple containers, with a grid dimension or with 1; two time steps may be two years), every argument bare, as a list or as a "
        "tuple, through all five public functions, and demands the documented formula at every location under the usual guards (decided by the oracle "
        "on the real code: which Python container an argument is belongs to the runtime; Gen/EvaluateGrid ties the unpack helper's text)",
        "rows of the returned frames are in the order debiaser (keyword order) x statistics x metrics; the positional oracle uses metric lists whose names collide (default names, same name, same object twice)",
    ]

    lean_ok = C.lean_phase(res, PROP, GEN, TARGETS)
    DEFAULTS0.clear()
    DEFAULTS0.update(defaults_snapshot())  # before the first call of this process
    logging.disable(logging.WARNING)  # trend.py reports dropped rows with logging.warning

    n_cases = 9 if tier == "quick" else 240
    n_oracle = 4 if tier == "quick" else 80
    if force_search or not lean_ok:
        n_oracle *= 3
        n_cases = max(n_cases, n_oracle)
    batch, problems = Batch(), []
    for k in range(n_cases):
        run_case(k, rng, tier, batch, res, problems, n_oracle)
    for k in range(1 if tier == "quick" else 3):
        long_record_case(C.seed() * 9973 + 2020 + k, res, problems)
    import time as _time

    t_ax = _time.time()
    for k in range((3 if tier == "quick" else 24) * (3 if (force_search or not lean_ok) else 1)):
        time_axes_case(C.seed() * 9973 + 20200 + k, res, problems)
    res.extra["time_axes_wall_s"] = round(_time.time() - t_ax, 2)
    t_new = _time.time()
    wide = 3 if (force_search or not lean_ok) else 1
    for k in range((6 if tier == "quick" else 60) * wide):  # own PRNG streams: the case streams above do not shift
        partial_grid_case(C.seed() * 9973 + 202000 + k, res, problems)
    for k in range((3 if tier == "quick" else 20) * wide):
        threshold_types_case(C.seed() * 9973 + 2020000 + k, res, problems)
    res.extra["partial_grid_and_threshold_types_wall_s"] = round(_time.time() - t_new, 2)
    t_sr = _time.time()
    for k in range((12 if tier == "quick" else 120) * wide):  # own PRNG stream (short records in every container form)
        short_record_case(C.seed() * 9973 + 20200000 + k, res, problems)
    res.extra["short_records_wall_s"] = round(_time.time() - t_sr, 2)
    rl, rex = [], []
    for k in range(4 if tier == "quick" else 40):
        rmse_case(k, rng, rl, rex, res)

    for it in batch.items:  # one evaluation = one public call compared at every location
        cs = it["case"]
        res.count((it["what"], str(sorted((k_, str(v_)) for k_, v_ in cs.items()))), cs["grid"] != [1, 1] or cs["years_validate"] == 1)
    mismatches = []
    try:
        out = C.run_driver("DrvEvaluate", batch.lines + rl)
        glines = []
        for it in batch.items:
            o = out[it["start"]:it["start"] + it["n"]]
            glines.append("grid " + " ".join(x.replace(" ", ":") for x in o))
        gout = C.run_driver("DrvEvaluate", glines)
        for it, g in zip(batch.items, gout):
            res.cov["traces_validated_against_impl"] += 1
            o = out[it["start"]:it["start"] + it["n"]]
            per = [parse_res(x) for x in o]
            raises = [v for k_, v in per if k_ == "error" and v != "div0"]
            want = ("raise " + raises[0]) if raises else "values"
            if not g.startswith(want):
                mismatches.append({"op": "gridEval", "case": it["case"], "why": f"driver grid aggregation {g[:60]} vs {want}"})
                continue
            why = judge(it, o, res)
            if why:
                mismatches.append({"op": it["what"], "case": it["case"], "why": why})
        eo = C.run_driver("DrvEvaluate", [e[0] for e in batch.exact]) if batch.exact else []
        for (ln, want, cs), got in zip(batch.exact, eo):
            res.cov["traces_validated_against_impl"] += 1
            if want != got:
                mismatches.append({"op": cs.get("what", "_yearly_exceedances"), "case": cs, "why": f"impl {want} model {got}"})
        ro = out[len(batch.lines):]
        for it in rex:
            res.cov["traces_validated_against_impl"] += 1
            it2 = dict(it, start=it["start"])
            why = judge_rmse(it2, ro)
            if why:
                mismatches.append({"op": "rmse_spatial_correlation_distribution", "case": it["case"], "why": why})
    except (C.DriverError, Exception) as ex:  # noqa: BLE001
        mismatches.append({"op": "driver", "case": {}, "why": f"{type(ex).__name__}: {str(ex)[:400]}"})
    if mismatches:
        res.tie_broken.append(f"correspondence DrvEvaluate: {len(mismatches)} mismatches, first: {str(mismatches[0])[:500]}")
    res.extra["correspondence_mismatches"] = len(mismatches)
    logging.disable(logging.NOTSET)
    res.extra["rows_checked_by_position"] = STATS["rows_checked_by_position"]
    res.extra.setdefault("ties_accepted", 0)
    res.extra.setdefault("mixed_guard_accepted", 0)

    seen = set()
    for p, case in problems:
        key = (case.get("what"), case.get("relation"), case.get("tt"), case.get("bt"))
        if key in seen:
            continue
        seen.add(key)
        res.violations.append((p, {"property": PROP, "failing_input": case, "problem": p,
                                   "signature": {"what": case.get("what"), "relation": case.get("relation", "documented_formula")}}))
        if len(res.violations) >= 8:
            break
    if res.tie_broken and not problems:
        res.violations.append(("proof obligation / correspondence no longer checks: " + "; ".join(res.tie_broken)[:600],
                               {"property": PROP, "failing_input": None, "broken": res.tie_broken, "mismatches": mismatches[:5]}))
    return res


def replay(data):
    """re-run the documented-formula and relation oracles on the data of a replay file: exit 1 if a problem reproduces"""
    fi = data.get("failing_input")
    if not fi:
        print("replay without failing input: run ./check C20 --tier quick")
        return 2
    DEFAULTS0.clear()
    DEFAULTS0.update(defaults_snapshot())
    if fi.get("relation") == "long_record":
        probs = []
        long_record_case(fi["long_seed"], None, probs)
        for p, _ in probs[:10]:
            print("REPRODUCED:", p)
        return 1 if probs else 0
    if fi.get("relation") == "time_axes_sequence":
        probs = []
        time_axes_case(fi["ax_seed"], None, probs)
        for p, _ in probs[:10]:
            print("REPRODUCED:", p)
        return 1 if probs else 0
    for rel_, fn_, key_ in (("partially_undefined_grid", partial_grid_case, "pg_seed"), ("threshold_value_types", threshold_types_case, "tv_seed"),
                            ("short_records", short_record_case, "sr_seed")):
        if fi.get("relation") == rel_:
            probs = []
            logging.disable(logging.WARNING)
            fn_(fi[key_], None, probs)
            logging.disable(logging.NOTSET)
            for p, _ in probs[:10]:
                print("REPRODUCED:", p)
            return 1 if probs else 0
    from ibicus.evaluate.metrics import ThresholdMetric

    d = fi["data"]
    A = lambda k: np.asarray(d[k], dtype=float)  # noqa: E731
    T = lambda k: np.array([datetime.date.fromisoformat(s) for s in d[k]], dtype=object)  # noqa: E731
    metrics = []
    for (kind, a, b) in d["metric_specs"]:
        tv = a if b is None else [a, b]
        txt = f"{kind}:{C.rat(a)}" if b is None else f"{kind}:{C.rat(a)}:{C.rat(b)}"
        metrics.append((ThresholdMetric(threshold_value=tv, threshold_type=kind, name=f"{kind} {a}" if b is None else f"{kind} {a} {b}"), txt, (kind, a, b)))
    problems = []

    def problem(what, why, extra=None):
        problems.append(f"{what}: {why}")

    obs, rawV, rawF, bcV, bcF, tV, tF = A("obs"), A("rawV"), A("rawF"), A("bcV"), A("bcF"), T("tV"), T("tF")
    scale = float(max(np.abs(a).max() for a in (obs, rawV, bcV, rawF, bcF)))
    oracle_relations(random.Random(0), fi, d, problem, obs, rawV, rawF, bcV, bcF, tV, tF, metrics, fi["statistics"], scale)
    for fname, lab in MUTATED:
        problem(fname, f"the call modified the caller's array passed as '{lab}'")
    del MUTATED[:]
    # documented formulas
    from ibicus.evaluate import marginal, trend

    mobjs = [m[0] for m in metrics]
    for bt in ("percentage", "absolute"):
        out = call(marginal.calculate_marginal_bias, obs=[obs, tV], statistics=fi["statistics"], metrics=mobjs, percentage_or_absolute=bt, raw=[rawV, tV], bc=[bcV, tV])
        for key, cm in (("raw", rawV), ("bc", bcV)):
            for st in fi["statistics"]:
                name = "Mean" if st == "mean" else f"{st} qn"
                why = differs(out if out[0] == "raise" else ("ok", row(out[1], key, name)), ref_marginal(bt, st, obs, cm), scale)
                if why:
                    problem("calculate_marginal_bias", f"{name} {bt} {key}: {why}")
            for (mo, mtxt, ms) in metrics:
                why = differs(out if out[0] == "raise" else ("ok", row(out[1], key, mo.name)), ref_marginal(bt, "metric", obs, cm, ms), 365.0)
                if why:
                    problem("calculate_marginal_bias", f"{mtxt} {bt} {key}: {why}")
    out = call(marginal.calculate_bias_days_metrics, obs_data=[obs, tV], metrics=mobjs, raw=[rawV, tV], fut=[rawF, tF])
    for (mo, mtxt, ms) in metrics:
        for key, x, tt_ in (("raw", rawV, tV), ("fut", rawF, tF)):
            why = differs(out if out[0] == "raise" else ("ok", row(out[1], key, mo.name, "CM")), ref_days(ms, x, tt_), 10.0)
            if why:
                problem("calculate_bias_days_metrics", f"{mtxt} {key}: {why}")
    for tt in ("additive", "multiplicative"):
        for st in list(fi["statistics"]) + metrics:
            if isinstance(st, tuple):
                name, kw, ms, sr = st[0].name, dict(statistics=[], metrics=[st[0]]), st[2], "metric"
            else:
                name, kw, ms, sr = ("Mean" if st == "mean" else f"{st} qn"), dict(statistics=[st], metrics=[]), None, st
            one = call(trend.calculate_future_trend_bias, raw_validate=rawV, raw_future=rawF, trend_type=tt, time_validate=tV, time_future=tF, **kw, bc=[bcV, bcF])
            one = one if one[0] == "raise" else ("ok", row(one[1], "bc", name))
            why = differs(one, ref_trend_bias(tt, sr, rawV, rawF, bcV, bcF, ms), 100.0)
            if why:
                problem("calculate_future_trend_bias", f"{tt} {name}: {why}")
            one = call(trend.calculate_future_trend, trend_type=tt, time_validate=tV, time_future=tF, **kw, bc=[bcV, bcF])
            one = one if one[0] == "raise" else ("ok", row(one[1], "bc", name))
            why = differs(one, ref_trend(tt, sr, bcV, bcF, ms), scale)
            if why:
                problem("calculate_future_trend", f"{tt} {name}: {why}")
    for p in problems[:10]:
        print("REPRODUCED:", p)
    return 1 if problems else 0
