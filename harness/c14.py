"""C14 — input contract: malformed input rejected up front (TypeError / ValueError before any location is processed),
convertible input converted with a warning, suspicious values produce warnings.

tier A: Gen/Contract.lean (step list, helper texts, apply order facts, time-check sites) regenerated from the AST.
tier B: the real `apply` of all eight debiasers is run in-process on the matrix argument position x malformation
        (and on pairs / triples of malformations, and on the time-array matrix) and compared with the Lean model
        (`drivers/DrvContract.lean`): exception class + which check + which argument, the ordered list of warnings,
        the description of the arrays that reach `apply_location`, the output warnings.
oracle: the property statement itself on the same runs (exception classes, zero `apply_location` calls before an
        exception, conversions visible in what reaches the locations, warnings present).
"""
import itertools
import logging
import random
import re
import warnings

import numpy as np

from harness import common as C

PROP = "C14"
TARGETS = ["IbicusModel.Props.C14", "IbicusModel.Lemmas.GenWinDispatch"]  # GenWinDispatch: F14 clause, the dispatch of CDFt / QDM apply_on_window regenerated (the audit imports it)
GEN = ["Contract", "WinDispatch", "Loops"]

ARGS = ["obs", "cm_hist", "cm_future"]
N = {"obs": 40, "cm_hist": 50, "cm_future": 60}  # three different time lengths, always
LO, HI = 100.0, 400.0  # reasonable_physical_range of tas

DEBS = ["LinearScaling", "DeltaChange", "QuantileMapping", "ScaledDistributionMapping", "CDFt", "ECDFM", "QuantileDeltaMapping", "ISIMIP"]
# the per-window computation of each class (must not run before a time-array ValueError)
COMPUTE = {"LinearScaling": "apply_on_window", "QuantileMapping": "apply_on_window", "ScaledDistributionMapping": "apply_on_window",
           "ECDFM": "apply_on_window", "CDFt": "_apply_debiasing_steps", "QuantileDeltaMapping": "_apply_debiasing_steps",
           "DeltaChange": "_apply_on_within_year_window", "ISIMIP": "_apply_on_window"}


def base(arg, seed=0):
    r = np.random.RandomState(1000 * seed + ARGS.index(arg))
    return np.round(r.normal(280.0, 2.0, size=(N[arg], 2, 2)) * 64) / 64


# ------------------------------------------------------------------ malformation recipes
def _d(nd=1, mk=0, ma=0, dt="f", shape=None, inf=0, oor=0):
    return dict(nd=nd, mk=mk, ma=ma, dt=dt, shape=shape, inf=inf, oor=oor)


def _set(b, v, idx=(3, 1, 1)):
    b = b.copy()
    b[idx] = v
    return b


def _masked(b, cells=(), data=None, dtype=None):
    b = b.copy()
    m = np.zeros(b.shape, dtype=bool)
    for c in cells:
        m[c] = True
        if data is not None:
            b[c] = data
    if dtype is not None:
        b = b.astype(dtype)
    return np.ma.masked_array(b, mask=m)


RECIPES = {
    # name: (builder(base) -> value, descriptor)
    "ok": (lambda b: b, lambda b: _d(shape=b.shape)),
    "float32": (lambda b: b.astype(np.float32), lambda b: _d(shape=b.shape)),
    "list": (lambda b: b.tolist(), lambda b: _d(nd=0, shape=())),
    "scalar": (lambda b: float(b[0, 0, 0]), lambda b: _d(nd=0, shape=())),
    "none": (lambda b: None, lambda b: _d(nd=0, shape=())),
    "int": (lambda b: b.astype(int), lambda b: _d(dt="i", shape=b.shape)),
    "bool": (lambda b: b > 280, lambda b: _d(dt="i", shape=b.shape, oor=1)),
    "object_numbers": (lambda b: b.astype(object), lambda b: _d(dt="i", shape=b.shape)),
    "object_strings": (lambda b: np.full(b.shape, "a", dtype=object), lambda b: _d(dt="u", shape=b.shape)),
    "str_dtype": (lambda b: np.full(b.shape, "abc"), lambda b: _d(dt="u", shape=b.shape)),
    "2d": (lambda b: b[:, :, 0], lambda b: _d(shape=b.shape[:2])),
    "4d": (lambda b: b[..., None], lambda b: _d(shape=b.shape + (1,))),
    "1d": (lambda b: b[:, 0, 0], lambda b: _d(shape=b.shape[:1])),
    "0d": (lambda b: np.array(280.0), lambda b: _d(shape=())),
    "spatial_2x3": (lambda b: np.concatenate([b, b[:, :, :1]], axis=2), lambda b: _d(shape=(b.shape[0], 2, 3))),
    "spatial_1x2": (lambda b: b[:, :1, :], lambda b: _d(shape=(b.shape[0], 1, 2))),
    "nan": (lambda b: _set(b, np.nan), lambda b: _d(shape=b.shape, inf=1)),
    "inf": (lambda b: _set(b, np.inf), lambda b: _d(shape=b.shape, inf=1)),
    "neg_inf": (lambda b: _set(b, -np.inf), lambda b: _d(shape=b.shape, inf=1)),
    "too_high": (lambda b: _set(b, 1000.0), lambda b: _d(shape=b.shape, oor=1)),
    "too_low": (lambda b: _set(b, 1.0), lambda b: _d(shape=b.shape, oor=1)),
    "nan_and_too_high": (lambda b: _set(_set(b, np.nan), 1000.0, (4, 0, 0)), lambda b: _d(shape=b.shape, inf=1, oor=1)),
    "masked_none": (lambda b: _masked(b), lambda b: _d(mk=1, shape=b.shape)),
    "masked_cells": (lambda b: _masked(b, [(5, 0, 1), (7, 1, 1)]), lambda b: _d(mk=1, ma=1, shape=b.shape)),
    "masked_int_cells": (lambda b: _masked(b, [(5, 0, 1)], dtype=int), lambda b: _d(mk=1, ma=1, dt="i", shape=b.shape)),
    "masked_nan_under_mask": (lambda b: _masked(b, [(5, 0, 1)], data=np.nan), lambda b: _d(mk=1, ma=1, shape=b.shape)),
    "masked_too_high_under_mask": (lambda b: _masked(b, [(5, 0, 1)], data=1000.0), lambda b: _d(mk=1, ma=1, shape=b.shape)),
    "masked_cells_and_unmasked_nan": (lambda b: _masked(_set(b, np.nan), [(5, 0, 1)]), lambda b: _d(mk=1, ma=1, shape=b.shape, inf=1)),
    "2d_int": (lambda b: b[:, :, 0].astype(int), lambda b: _d(dt="i", shape=b.shape[:2])),
    "2d_strings": (lambda b: np.full(b.shape[:2], "a", dtype=object), lambda b: _d(dt="u", shape=b.shape[:2])),
}
MASKED_CELLS = {"masked_cells": [(5, 0, 1), (7, 1, 1)], "masked_int_cells": [(5, 0, 1)], "masked_nan_under_mask": [(5, 0, 1)],
                "masked_too_high_under_mask": [(5, 0, 1)], "masked_cells_and_unmasked_nan": [(5, 0, 1)]}
SINGLE = [r for r in RECIPES if r != "ok"]


def desc_str(d):
    shape = ".".join(str(int(s)) for s in d["shape"]) if len(d["shape"]) else "0"
    return f"{d['nd']},{d['mk']},{d['ma']},{d['dt']},{shape},{d['inf']},{d['oor']}"


def desc_of_array(a):
    """independent description of an array that reached the locations (harness-side numpy only)"""
    if not isinstance(a, np.ndarray):
        return _d(nd=0, shape=())
    mk = int(isinstance(a, np.ma.MaskedArray))
    ma = int(mk and bool(np.ma.getmaskarray(a).any()))
    dt = "f" if a.dtype.kind == "f" else "i"
    vals = np.ma.getdata(a).astype(float)[~np.ma.getmaskarray(a)] if mk else np.asarray(a, dtype=float).ravel()
    fin = np.isfinite(vals)
    return _d(mk=mk, ma=ma, dt=dt, shape=a.shape, inf=int((~fin).any()), oor=int(((vals[fin] < LO) | (vals[fin] > HI)).any()))


# ------------------------------------------------------------------ the real code, instrumented in-process
WARN_PATTERNS = [
    (re.compile(r"^(obs|cm_hist|cm_future) does not have a float dtype"), "floatDtype", "0"),
    (re.compile(r"^(obs|cm_hist|cm_future) contains inf or nan values"), "infNan", "0"),
    (re.compile(r"^(obs|cm_hist|cm_future) contains values outside the reasonable physical range"), "outOfRange", "0"),
    (re.compile(r"^(obs|cm_hist|cm_future) is a masked array and contains cells with invalid data"), "masked", "1"),
    (re.compile(r"^(obs|cm_hist|cm_future) is a masked array, but contains no invalid data"), "masked", "0"),
]
OUT_PATTERNS = [
    (re.compile(r"^The debiaser output contains inf or nan values"), "infNan"),
    (re.compile(r"^The debiaser output contains values outside the reasonable physical range"), "outOfRange"),
]


def classify_warnings(ws):
    inp, out, other = [], [], 0
    for w in ws:
        msg = str(w.message)
        hit = False
        if issubclass(w.category, UserWarning):
            for pat, kind, flag in WARN_PATTERNS:
                m = pat.match(msg)
                if m:
                    inp.append(f"{kind}:{m.group(1)}:{flag}")
                    hit = True
                    break
            if not hit:
                for pat, kind in OUT_PATTERNS:
                    if pat.match(msg):
                        out.append(f"{kind}:output:0")
                        hit = True
                        break
        if not hit:
            other += 1
    return inp, out, other


def classify_error(ex, inp_warns):
    msg = str(ex)
    cls = type(ex).__name__
    m = re.match(r"^Wrong type for (obs|cm_hist|cm_future)\. Needs to be np\.ndarray", msg)
    if m:
        return f"{cls}:isNdarray:{m.group(1)}"
    if msg.startswith("Conversion to float not possible"):
        arg = inp_warns[-1].split(":")[1] if inp_warns and inp_warns[-1].startswith("floatDtype:") else "?"
        return f"{cls}:floatDtype:{arg}"
    m = re.match(r"^(obs|cm_hist|cm_future) needs to have 3 dimensions", msg)
    if m:
        return f"{cls}:ndim3:{m.group(1)}"
    if msg.startswith("obs, cm_hist, cm_future need to have same (number of) spatial dimensions"):
        return f"{cls}:sameSpatialShape:all"
    return f"{cls}:?:{msg[:60]}"


def make_debiaser(name, cfg=None):
    import scipy.stats
    import ibicus.debias as D

    kw = dict(cfg or {})
    if name == "ECDFM":
        kw.setdefault("distribution", scipy.stats.norm)  # tas default is beta: slow, irrelevant here
    with warnings.catch_warnings():
        warnings.simplefilter("ignore")
        return getattr(D, name).from_variable("tas", **kw)


class Run:
    """one instrumented call of the real `apply`"""

    def __init__(self, name, cfg, inputs, times=None, deb=None):
        if deb is None:
            d = make_debiaser(name, cfg)
        else:
            # a later call of a session on ONE debiaser object: only the observation wrappers of the previous call are
            # taken off again (instance attributes shadowing the methods); whatever state the code itself left on the
            # object stays — that state is what the session cases are about
            d = deb
            for attr in ("apply_location", "_check_inputs_and_convert_if_possible", COMPUTE[name]):
                d.__dict__.pop(attr, None)
        self.d = d
        self.loc_calls = []
        self.compute_calls = 0
        self.converted = None
        self.tolerated = 0
        orig_loc = d.apply_location
        orig_chk = d._check_inputs_and_convert_if_possible
        orig_cmp = getattr(d, COMPUTE[name])
        out_len = "obs" if name == "DeltaChange" else "cm_future"

        def loc(obs, cm_hist, cm_future, **kw):
            self.loc_calls.append((obs, cm_hist, cm_future))
            try:
                return orig_loc(obs, cm_hist, cm_future, **kw)
            except Exception:
                # a debiaser may be unable to handle NaN / inf data (scipy fits reject them): outside this property,
                # tolerated only when the data that reached this location is not finite; counted
                if all(isinstance(a, np.ndarray) and a.dtype.kind == "f" and np.isfinite(a).all() for a in (obs, cm_hist, cm_future)):
                    raise
                self.tolerated += 1
                return np.full((obs if out_len == "obs" else cm_future).shape, np.nan)

        def chk(obs, cm_hist, cm_future):
            r = orig_chk(obs, cm_hist, cm_future)
            self.converted = r
            return r

        def cmp(*a, **k):
            self.compute_calls += 1
            return orig_cmp(*a, **k)

        d.apply_location = loc
        d._check_inputs_and_convert_if_possible = chk
        setattr(d, COMPUTE[name], cmp)
        self.exc = None
        self.out = None
        kw = {k: v for k, v in (times or {}).items()}
        with warnings.catch_warnings(record=True) as ws:
            warnings.simplefilter("always")
            old = np.seterr(all="ignore")
            try:
                self.out = d.apply(inputs[0], inputs[1], inputs[2], progressbar=False, **kw)
            except Exception as ex:  # noqa: BLE001
                self.exc = ex
            finally:
                np.seterr(**old)
        self.inp_warns, self.out_warns, self.other_warns = classify_warnings(ws)


def build_inputs(recipes, seed=0):
    vals, descs = [], []
    for arg, r in zip(ARGS, recipes):
        b = base(arg, seed)
        build, desc = RECIPES[r]
        vals.append(build(b))
        descs.append(desc(b))
    return vals, descs


def wl(l):
    return "W " + (",".join(l) if l else "-")


def check_case(name, recipes, res, lines, expect, problems, seed=0, deb=None):
    """run one malformation case; queue the model query; apply the property oracle
    (deb: an already used debiaser object to run this call on — session cases — instead of a fresh one)"""
    vals, descs = build_inputs(recipes, seed)
    run = Run(name, {"running_window_step_length": 31} if name == "ISIMIP" else None, vals, deb=deb)  # (ISIMIP's default step 1 is only slower)
    case = {"debiaser": name, "recipes": dict(zip(ARGS, recipes)), "data_seed": seed}
    nontrivial = any(r != "ok" for r in recipes)
    res.count((name,) + tuple(recipes), nontrivial,
              sample={**case, "descriptors": [desc_str(d) for d in descs]} if nontrivial and len(res.distinct) % 97 == 3 else None)
    ncalls = len(run.loc_calls)
    # ---- what the real code did, in the model's vocabulary
    if run.exc is not None and ncalls == 0:
        actual = "E " + classify_error(run.exc, run.inp_warns) + " | " + wl(run.inp_warns)
    elif run.exc is not None:
        actual = f"E-inside-location {type(run.exc).__name__}: {str(run.exc)[:80]}"
    else:
        conv = run.converted if run.converted is not None else (None, None, None)
        actual = "OK " + " ".join(desc_str(desc_of_array(a)) for a in conv) + " | " + wl(run.inp_warns)
    lines.append("check " + " ".join(desc_str(d) for d in descs))
    expect.append(("check", case, actual))
    lines.append("class " + " ".join(desc_str(d) for d in descs))
    expect.append(("class", case, "accepted" if run.exc is None or ncalls else type(run.exc).__name__))
    if run.exc is None:
        od = desc_of_array(run.out)
        lines.append(f"output {od['inf']} {od['oor']}")
        expect.append(("output", case, wl(run.out_warns)))
        res.extra["ok_runs"] = res.extra.get("ok_runs", 0) + 1
        res.extra["locations_tolerated_nonfinite"] = res.extra.get("locations_tolerated_nonfinite", 0) + run.tolerated
    res.extra["other_warnings_seen"] = res.extra.get("other_warnings_seen", 0) + run.other_warns

    # ---- the property's oracle on this run
    def bad(p, **sig):
        problems.append((p, {**case, "observed": actual[:200]}, sig))

    non_nd = [a for a, d in zip(ARGS, descs) if not d["nd"]]
    all_nd = not non_nd
    conv_ok = all(d["dt"] != "u" for d in descs)
    not3 = [a for a, d in zip(ARGS, descs) if len(d["shape"]) != 3]
    spatial_differs = all_nd and not not3 and len({tuple(d["shape"][1:]) for d in descs}) != 1
    if non_nd:
        if not isinstance(run.exc, TypeError):
            bad(f"{non_nd[0]} is not an ndarray but apply did not raise TypeError", what="type_first")
        elif ncalls:
            bad("TypeError was raised after apply_location had been called", what="error_after_location")
    elif not3 or spatial_differs:
        if not isinstance(run.exc, ValueError):
            bad(f"{'not 3-dimensional: ' + not3[0] if not3 else 'spatial shapes differ'} but apply did not raise ValueError", what="shape_valueerror")
        elif ncalls:
            bad("ValueError was raised after apply_location had been called", what="error_after_location")
    elif not conv_ok:
        pass  # a dtype that cannot be converted: the statement makes no promise (the model says ValueError; correspondence only)
    else:
        # well-formed: accepted, whatever the three time lengths are
        if run.exc is not None:
            bad(f"well-formed input rejected: {type(run.exc).__name__}: {str(run.exc)[:100]}", what="wellformed_rejected")
            return
        if ncalls != 4:
            bad(f"apply_location called {ncalls} times for a 2x2 grid", what="location_calls")
        # what reaches the locations: plain float arrays, NaN exactly at the masked cells
        for k, (arg, r, d) in enumerate(zip(ARGS, recipes, descs)):
            slices = [c[k] for c in run.loc_calls]
            if any(isinstance(s, np.ma.MaskedArray) or not isinstance(s, np.ndarray) for s in slices):
                bad(f"{arg}: a masked / non-ndarray object reached apply_location", what="masked_reaches_location")
            if any(s.dtype.kind != "f" for s in slices):
                bad(f"{arg}: non-float dtype {slices[0].dtype} reached apply_location", what="dtype_reaches_location")
            if d["dt"] == "i" and f"floatDtype:{arg}:0" not in run.inp_warns:
                bad(f"{arg}: integer/bool/object input converted without a warning", what="silent_conversion")
            if d["mk"]:
                if not any(w.startswith(f"masked:{arg}:") for w in run.inp_warns):
                    bad(f"{arg}: masked array converted without a warning", what="silent_conversion")
                cells = MASKED_CELLS.get(r, [])
                if ncalls == 4:
                    grid = {(0, 0): 0, (0, 1): 1, (1, 0): 2, (1, 1): 3}
                    b = np.ma.getdata(vals[k]).astype(float)
                    for (i, j), pos in grid.items():
                        want_nan = np.array([(t, i, j) in cells for t in range(b.shape[0])])
                        got = slices[pos]
                        if not (np.isnan(got[want_nan]).all() and np.array_equal(got[~want_nan], b[~want_nan, i, j], equal_nan=True)):
                            bad(f"{arg}: masked cells are not NaN (or other cells changed) in what reaches location {(i, j)}", what="masked_not_nan")
            if d["inf"] and f"infNan:{arg}:0" not in run.inp_warns:
                bad(f"{arg}: NaN/inf in the input accepted silently", what="silent_nan")
            if d["oor"] and f"outOfRange:{arg}:0" not in run.inp_warns:
                bad(f"{arg}: out-of-range values in the input accepted silently", what="silent_range")
        od = desc_of_array(run.out)
        if run.out.dtype.kind != "f":
            bad(f"result dtype {run.out.dtype} is not floating", what="result_dtype")
        if od["inf"] and "infNan:output:0" not in run.out_warns:
            bad("NaN/inf in the output produced no warning", what="silent_output_nan")
        if od["oor"] and "outOfRange:output:0" not in run.out_warns:
            bad("out-of-range values in the output produced no warning", what="silent_output_range")


# ------------------------------------------------------------------ time arrays
def time_configs(name):
    if name in ("CDFt", "QuantileDeltaMapping"):
        return [dict(running_window_mode=a, running_window_mode_over_years_of_cm_future=b) for a in (False, True) for b in (False, True)]
    return [dict(running_window_mode=False), dict(running_window_mode=True)]


def dates(n, start="1950-01-01"):
    return np.arange(np.datetime64(start), np.datetime64(start) + np.timedelta64(n, "D"))


def check_time_case(name, cfg, deltas, res, lines, expect, problems, omit=(), nfut=None, deb=None):
    """deltas: change of the length of (time_obs, time_cm_hist, time_cm_future) relative to the series;
    omit: positions whose time array is not passed at all (then inferred by the code);
    deb: an already used debiaser object built with this cfg (session cases) instead of a fresh one"""
    omit = tuple([omit] if isinstance(omit, str) else (omit or ()))
    n = dict(N)
    if nfut:
        n["cm_future"] = nfut
    r0 = np.random.RandomState(7)
    vals = [np.round(r0.normal(280.0, 2.0, size=(n[a], 2, 2)) * 64) / 64 for a in ARGS]
    tl = [n[a] + dl for a, dl in zip(ARGS, deltas)]
    times = {"time_" + a: dates(t) for a, t in zip(ARGS, tl) if a not in omit}
    given = [None if a in omit else t for a, t in zip(ARGS, tl)]
    if name == "ISIMIP":
        cfg = {"running_window_step_length": 31, **cfg}  # (the default step 1 is only slower)
    run = Run(name, cfg, vals, times, deb=deb)
    rw = int(cfg.get("running_window_mode", False))
    yr = int(cfg.get("running_window_mode_over_years_of_cm_future", False))
    case = {"debiaser": name, "cfg": cfg, "series_lengths": [n[a] for a in ARGS], "time_lengths": given, "omitted": list(omit)}
    mism = [a for a, dl in zip(ARGS, deltas) if dl != 0 and a not in omit]
    res.count(("time", name, rw, yr) + tuple(deltas) + (omit, nfut), bool(mism) or bool(omit),
              sample=case if mism and len(res.distinct) % 89 == 5 else None)
    actual = "ok" if run.exc is None else "error " + type(run.exc).__name__
    lines.append(f"timep {name} {rw} {yr} {n['obs']} {n['cm_hist']} {n['cm_future']} " + " ".join("-" if g is None else str(g) for g in given))
    expect.append(("time", case, actual))
    lines.append(f"consumes {name} {rw} {yr}")
    expect.append(("consumes", case, None))  # filled by the caller from the oracle below
    lines.append(f"consumes-from-sites {name} {rw} {yr}")
    expect.append(("consumes-from-sites", case, None))
    # oracle: in a consuming configuration a *given* array of the wrong length is a ValueError before any window computation,
    # whichever other arrays are omitted
    consuming = name == "ISIMIP" or rw
    fut_only = (not consuming) and name in ("CDFt", "QuantileDeltaMapping") and yr
    must_fail = (consuming and mism) or (fut_only and "cm_future" in mism)
    if must_fail:
        if not isinstance(run.exc, ValueError):
            problems.append((f"time array of {mism} is given with a length that does not match its series"
                             + (f" (time array of {list(omit)} omitted)" if omit else "")
                             + f" but apply raised {type(run.exc).__name__ if run.exc else 'nothing'}",
                             {**case, "observed": actual + ("" if run.exc is None else ": " + str(run.exc)[:80])},
                             {"what": "time_mismatch_partial" if omit else "time_mismatch"}))
        elif run.compute_calls:
            problems.append(("the window computation ran before the time-array ValueError", {**case, "observed": actual}, {"what": "time_error_late"}))
    elif not mism and run.exc is not None and run.compute_calls == 0:
        problems.append((f"matching / omitted time arrays rejected: {type(run.exc).__name__}: {str(run.exc)[:80]}", {**case, "observed": actual}, {"what": "time_ok_rejected"}))
    return "".join("1" if x else "0" for x in ((consuming, consuming, consuming or fut_only)))


# ------------------------------------------------------------------ accept side through every dispatch path
DISPATCH = [  # (label, apply keywords)
    ("serial+progressbar", dict(progressbar=True)),
    ("serial+failsafe", dict(progressbar=False, failsafe=True)),
    ("parallel nr_processes=1", dict(progressbar=False, parallel=True, nr_processes=1)),
    ("parallel nr_processes=2", dict(progressbar=False, parallel=True, nr_processes=2)),
    ("parallel+progressbar nr_processes=2", dict(progressbar=True, parallel=True, nr_processes=2)),
    ("parallel+failsafe nr_processes=2", dict(progressbar=False, parallel=True, nr_processes=2, failsafe=True)),
]


def check_dispatch(name, lens, label, kw, with_times, res, lines, expect, problems):
    """well-formed input with three different time lengths must be ACCEPTED through this dispatch path of the real `apply`
    (un-instrumented instance: the parallel path pickles it), and the result lives on the documented time axis"""
    import contextlib
    import io

    r0 = np.random.RandomState(11)
    vals = [np.round(r0.normal(280.0, 2.0, size=(n, 2, 2)) * 64) / 64 for n in lens]
    cfg = {"running_window_step_length": 31} if name == "ISIMIP" else {}
    times = {}
    if with_times:
        cfg = {**cfg, "running_window_mode": True}
        times = {"time_" + a: dates(n) for a, n in zip(ARGS, lens)}
    d = make_debiaser(name, cfg)
    exc = out = None
    with warnings.catch_warnings():
        warnings.simplefilter("ignore")
        old = np.seterr(all="ignore")
        try:
            with contextlib.redirect_stderr(io.StringIO()):  # tqdm
                out = d.apply(vals[0], vals[1], vals[2], **kw, **times)
        except Exception as ex:  # noqa: BLE001
            exc = ex
        finally:
            np.seterr(**old)
    case = {"debiaser": name, "series_lengths": list(lens), "dispatch": label, "apply_kwargs": {k: v for k, v in kw.items()},
            "cfg": cfg, "time_arrays": "given, matching" if with_times else "not given"}
    res.count(("dispatch", name, tuple(lens), label, with_times), True, sample=case if len(res.distinct) % 61 == 7 else None)
    if exc is not None:
        axis = "rejected"
        problems.append((f"well-formed input with time lengths {list(lens)} is not accepted through the {label} path: {type(exc).__name__}: {str(exc)[:100]}",
                         {**case, "observed": f"{type(exc).__name__}: {str(exc)[:100]}"}, {"what": "wellformed_rejected_dispatch"}))
    else:
        shp = tuple(out.shape)
        axis = next((a for a, n in zip(ARGS, lens) if shp == (n, 2, 2)), f"shape {shp}")
        want = "obs" if name == "DeltaChange" else "cm_future"
        if axis != want:
            problems.append((f"result of the {label} path has shape {shp}: not on the time axis of {want} (time lengths {list(lens)})",
                             {**case, "observed": f"shape {shp}"}, {"what": "output_axis"}))
        elif out.dtype.kind != "f":
            problems.append((f"result dtype {out.dtype} is not floating ({label} path)", {**case, "observed": str(out.dtype)}, {"what": "result_dtype"}))
    lines.append(f"outaxis {name}")
    expect.append(("outaxis", case, axis + " 1"))


# ------------------------------------------------------------------ sessions: several apply calls on ONE debiaser object
# Quantifier covered: "for every input" holds for EVERY CALL of apply, whatever the object was applied to before (a debiaser
# is routinely re-used for several models / periods). All other cases construct a fresh debiaser per call, so state that the
# code leaves on the object between calls (a "checked once" flag, cached time information, a remembered conversion …) was
# invisible. A session runs a scripted / random sequence of calls — accepted, rejected for its time arrays, rejected for a
# malformed array, accepted with conversions — on one object and judges every call with the same per-call oracle
# (and the same stateless model) as a call on a fresh object.
def full_cfg(name, cfg):
    """the configuration a session's debiaser object is built with (coarser window steps: the defaults are only slower)"""
    if name == "ISIMIP":
        return {"running_window_step_length": 31, **cfg}
    if cfg.get("running_window_mode"):
        return {"running_window_length": 91, "running_window_step_length": 91, **cfg}
    return dict(cfg)


def run_time_case(name, cfg, deltas, res, lines, expect, problems, omit=(), nfut=None, deb=None):
    k0 = len(expect)
    flags = check_time_case(name, cfg, deltas, res, lines, expect, problems, omit=omit, nfut=nfut, deb=deb)
    expect[k0 + 1] = ("consumes", expect[k0 + 1][1], flags)
    expect[k0 + 2] = ("consumes-from-sites", expect[k0 + 2][1], flags)


def session_scripts(name, rng, n_random):
    """call sequences (JSON-serialisable steps) for one debiaser object"""
    def t(states):
        return {"kind": "time", "deltas": [rng.choice((-1, 1)) if st == "wrong" else 0 for st in states],
                "omit": [a for a, st in zip(ARGS, states) if st == "omitted"], "nfut": None}

    def c(recipe):
        rec = ["ok", "ok", "ok"]
        rec[rng.randrange(3)] = recipe
        return {"kind": "case", "recipes": rec, "data_seed": rng.randint(0, 5)}

    def wrong(pos, others=("ok",)):
        st = [rng.choice(others) for _ in range(3)]
        st[pos] = "wrong"
        return st

    rejected = ["list", "none", "2d", "4d", "spatial_2x3", "spatial_1x2"]
    converted = ["int", "masked_cells", "masked_int_cells", "too_high", "nan", "nan_and_too_high"]
    order = [0, 1, 2]
    rng.shuffle(order)
    scripts = [
        # accepted with all dates given, then each position wrong in turn, malformed arrays in between, accepted again
        [t(["ok"] * 3), t(wrong(order[0])), t([rng.choice(("ok", "omitted")) for _ in range(3)]), t(wrong(order[1])), c(rng.choice(rejected)),
         t(wrong(order[2])), c(rng.choice(converted)), t(["ok"] * 3)],
        # first call without any dates (inferred), then wrong arrays while others are given / omitted; rejected first, accepted after
        [t(["omitted"] * 3), t(wrong(order[2], ("ok", "omitted"))), c(rng.choice(converted)), t(wrong(order[0], ("ok", "omitted"))),
         c(rng.choice(rejected)), t(wrong(order[1], ("ok", "omitted"))), c("ok")],
        # the very first call is rejected (nothing was ever accepted on this object)
        [t(wrong(rng.randrange(3))), t(["ok"] * 3), c(rng.choice(rejected)), t(wrong(rng.randrange(3)))],
    ]
    for _ in range(n_random):
        steps = []
        for _ in range(rng.randint(3, 6)):
            if rng.random() < 0.6:
                steps.append(t([rng.choice(("ok", "ok", "wrong", "omitted")) for _ in range(3)]))
            else:
                steps.append(c(rng.choice(rejected + converted + ["ok", "float32", "masked_none"])))
        scripts.append(steps)
    return scripts


def check_session(name, cfg, steps, res, lines, expect, problems):
    """run `steps` as consecutive apply calls on one debiaser object; every call is judged on its own"""
    d = make_debiaser(name, full_cfg(name, cfg))
    res.count(("session", name, tuple(sorted(cfg.items())), repr(steps)), True,
              sample={"debiaser": name, "cfg": cfg, "session_calls": steps} if len(res.distinct) % 53 == 11 else None)
    res.extra["sessions"] = res.extra.get("sessions", 0) + 1
    for i, st in enumerate(steps):
        local = []
        if st["kind"] == "case":
            check_case(name, list(st["recipes"]), res, lines, expect, local, seed=st.get("data_seed", 0), deb=d)
        else:
            run_time_case(name, cfg, tuple(st["deltas"]), res, lines, expect, local, omit=tuple(st.get("omit") or ()), nfut=st.get("nfut"), deb=d)
        res.extra["session_calls"] = res.extra.get("session_calls", 0) + 1
        for p, case, sig in local:
            problems.append((f"call {i + 1} of a sequence of apply calls on one debiaser object: {p}",
                             {"debiaser": name, "session": {"cfg": cfg, "calls": steps[:i + 1]}, "failing_call": i + 1, "call": case,
                              "observed": case.get("observed")},
                             {**sig, "what": "session:" + str(sig.get("what"))}))


# ------------------------------------------------------------------ construction paths x variables (range / NaN warnings)
# Quantifier covered: "all eight debiasers" in every CONFIGURATION a debiaser for a variable can be constructed in — every
# variable a class has (experimental) default settings for, `from_variable` given the name / the upper-case name / the Variable
# object, with every attrs field restated explicitly as a keyword (this walks every keyword-dependent branch of the
# `from_variable` overrides, e.g. QuantileDeltaMapping's detour through `for_precipitation`), with the range overridden by
# keyword, and `for_precipitation` where it exists. All other cases use `from_variable("tas")` only. Judged: values outside the
# reasonable physical range OF THAT VARIABLE (or NaN / inf) in obs / cm_hist / cm_future or in the output produce the warning —
# far outside, one ulp outside, a units slip (x 86400), combined with NaN / -inf. `apply_location` is replaced by a pass-through
# on the instance (the numerics of twelve variables are not this property's matter; the clause lives in `apply` around the map).
VALUE_KINDS = ["above_far", "below_far", "above_ulp", "below_ulp", "units_x86400", "nan_and_above", "neg_inf_and_below"]


def variable_range(var):
    from ibicus import variables as V

    r = V.str_to_variable_class[var].reasonable_physical_range
    return None if r is None else [float(r[0]), float(r[1])]


def constructible():
    """{debiaser: [variables from_variable accepts]} and {debiaser: [restatable attrs fields]}, measured on the current tree"""
    import attrs
    import ibicus.debias as D
    from ibicus import variables as V

    sup, fields = {}, {}
    for name in DEBS:
        cls = getattr(D, name)
        sup[name] = []
        for var in V.str_to_variable_class:
            try:
                with warnings.catch_warnings():
                    warnings.simplefilter("ignore")
                    cls.from_variable(var)
                sup[name].append(var)
            except Exception:  # noqa: BLE001  (no default settings for this variable: not constructible this way)
                pass
        fields[name] = [f.name for f in attrs.fields(cls) if f.name not in ("variable", "reasonable_physical_range")]
    return sup, fields


def construct(name, var, path):
    import ibicus.debias as D
    from ibicus import variables as V

    cls = getattr(D, name)
    with warnings.catch_warnings():
        warnings.simplefilter("ignore")
        if path["via"] == "for_precipitation":
            return cls.for_precipitation()
        arg = {"str": var, "upper": var.upper(), "object": V.str_to_variable_class[var]}[path.get("arg", "str")]
        kw = {}
        if path.get("restate"):
            kw[path["restate"]] = getattr(cls.from_variable(var), path["restate"])  # the value the default construction has, stated explicitly
        if path.get("range_override"):
            kw["reasonable_physical_range"] = [float(x) for x in path["range_override"]]
        path["_keywords"] = {k: repr(v)[:80] for k, v in kw.items()}  # for the replay file only
        return cls.from_variable(arg, **kw)


def construction_values(rg, pos, kind, data_seed):
    lo, hi = rg if rg is not None else (0.0, 1.0)
    w = hi - lo
    r = np.random.RandomState(77 + data_seed)
    vals = [lo + w * (0.3 + 0.4 * r.rand(N[a], 2, 2)) for a in ARGS]
    x = vals[pos]
    if kind == "above_far":
        x[3, 1, 1] = hi + w
    elif kind == "below_far":
        x[3, 1, 1] = lo - w
    elif kind == "above_ulp":
        x[3, 1, 1] = np.nextafter(hi, np.inf)
    elif kind == "below_ulp":
        x[3, 1, 1] = np.nextafter(lo, -np.inf)
    elif kind == "units_x86400":
        vals[pos] = x * 86400.0
    elif kind == "nan_and_above":
        x[3, 1, 1] = np.nan
        x[4, 0, 0] = hi + 0.5 * w
    elif kind == "neg_inf_and_below":
        x[3, 1, 1] = -np.inf
        x[4, 0, 0] = lo - 0.5 * w
    elif kind == "nan":
        x[3, 1, 1] = np.nan
    elif kind == "at_bounds":  # the bounds themselves are inside the range: nothing is demanded
        x[3, 1, 1] = lo
        x[4, 0, 0] = hi
    elif kind != "clean":
        raise ValueError(kind)
    return vals


def flags_of(a, rg):
    """(non-finite present, finite value outside rg present) — harness-side numpy only"""
    a = np.asarray(a, dtype=float)
    fin = np.isfinite(a)
    return bool((~fin).any()), bool(rg is not None and ((a[fin] < rg[0]) | (a[fin] > rg[1])).any())


def check_construction(name, var, path, pos, kind, res, problems, data_seed=0):
    path = {k: v for k, v in path.items() if not k.startswith("_")}
    case = {"debiaser": name, "construction": {"variable": var, **path}, "position": ARGS[pos], "value_kind": kind, "data_seed": data_seed}
    try:
        p2 = dict(path)
        d = construct(name, var, p2)
        case["keywords_passed"] = p2.get("_keywords", {})
    except Exception as ex:  # noqa: BLE001  (which keyword combinations construct at all is C15's matter; counted)
        res.extra["construction_paths_not_constructing"] = res.extra.get("construction_paths_not_constructing", 0) + 1
        res.extra.setdefault("construction_paths_not_constructing_first", f"{name} {var} {path}: {type(ex).__name__}: {str(ex)[:80]}")
        return
    declared = getattr(d, "reasonable_physical_range", None)
    if path.get("range_override"):
        rg = [float(x) for x in path["range_override"]]
    elif path["via"] == "for_precipitation":
        rg = None if declared is None else [float(declared[0]), float(declared[1])]  # no variable is named by the caller: the range the object declares
        if declared is None:
            res.extra.setdefault("constructors_without_declared_range", [])
            if f"{name}.for_precipitation" not in res.extra["constructors_without_declared_range"]:
                res.extra["constructors_without_declared_range"].append(f"{name}.for_precipitation")
    else:
        rg = variable_range(var)
    vals = construction_values(rg, pos, kind, data_seed)
    demanding = kind not in ("clean", "at_bounds")
    res.count(("construction", name, var, tuple(sorted((k, str(v)) for k, v in path.items())), pos, kind), demanding,
              sample=case if demanding and len(res.distinct) % 211 == 17 else None)
    res.extra["construction_cases"] = res.extra.get("construction_cases", 0) + 1
    out_axis = 0 if name == "DeltaChange" else 2
    d.apply_location = lambda obs, cm_hist, cm_future, **kw: np.array((obs, cm_hist, cm_future)[out_axis], dtype=float, copy=True)
    exc = out = None
    with warnings.catch_warnings(record=True) as ws:
        warnings.simplefilter("always")
        old = np.seterr(all="ignore")
        try:
            out = d.apply(vals[0], vals[1], vals[2], progressbar=False)
        except Exception as ex:  # noqa: BLE001
            exc = ex
        finally:
            np.seterr(**old)
    inp, outw, _ = classify_warnings(ws)
    observed = (f"{type(exc).__name__}: {str(exc)[:100]}" if exc is not None else wl(inp) + " | " + wl(outw)) + f" (range the object declares: {declared})"

    def bad(p, what):
        problems.append((p, {**case, "range_of_variable": rg, "observed": observed}, {"what": "construction:" + what}))

    how = f"[{var} via {path['via']}" + "".join(f", {k}={v}" for k, v in path.items() if k != "via") + "]"
    if exc is not None:
        bad(f"{how} well-formed 3-dimensional float input rejected: {type(exc).__name__}: {str(exc)[:100]}", "wellformed_rejected")
        return
    for k, a in enumerate(ARGS):
        nonfin, oor = flags_of(vals[k], rg)
        if nonfin and f"infNan:{a}:0" not in inp:
            bad(f"{how} {a}: NaN/inf in the input accepted silently", "silent_nan")
        if oor and f"outOfRange:{a}:0" not in inp:
            bad(f"{how} {a}: values outside the reasonable physical range {rg} of the variable accepted silently ({kind})", "silent_range")
    nonfin, oor = flags_of(out, rg)
    if nonfin and "infNan:output:0" not in outw:
        bad(f"{how} NaN/inf in the output produced no warning", "silent_output_nan")
    if oor and "outOfRange:output:0" not in outw:
        bad(f"{how} values outside the reasonable physical range {rg} of the variable in the output produced no warning ({kind})", "silent_output_range")


def construction_matrix(rng, tier):
    """[(debiaser, variable, path, position, value kind, data seed)]"""
    import ibicus.debias as D

    sup, fields = constructible()
    todo = []
    k = rng.randrange(21)
    for name in DEBS:
        for var in sup[name]:
            rg = variable_range(var) or [0.0, 1.0]
            w = rg[1] - rg[0]
            paths = [dict(via="from_variable", arg="str"), dict(via="from_variable", arg="upper"), dict(via="from_variable", arg="object"),
                     dict(via="from_variable", arg="str", range_override=[rg[0] + 0.25 * w, rg[0] + 0.75 * w])]
            paths += [dict(via="from_variable", arg=rng.choice(("str", "object")), restate=f) for f in fields[name]]
            if var == "pr" and hasattr(getattr(D, name), "for_precipitation"):
                paths.append(dict(via="for_precipitation"))
            for path in paths:
                for rep in range(3 if tier == "thorough" else 1):
                    todo.append((name, var, path, (k + rep) % 3, VALUE_KINDS[k % len(VALUE_KINDS)], rng.randint(0, 3)))
                k += 1
            todo.append((name, var, paths[0], rng.randrange(3), "nan", 0))
            todo.append((name, var, paths[0], rng.randrange(3), "at_bounds", 0))
    return todo


# ------------------------------------------------------------------ the check
def run(tier, res, force_search=False):
    logging.getLogger("ibicus").setLevel(logging.CRITICAL)
    rng = random.Random(C.seed() * 7919 + 14)
    res.rule = ("cases = (debiaser, recipe for obs, recipe for cm_hist, recipe for cm_future) with recipes from a fixed catalogue of "
                f"{len(RECIPES)} array kinds (clean / non-ndarray / dtype / ndim / spatial shape / NaN / inf / range / masked variants): the full matrix "
                "argument position x single malformation x 8 debiasers, plus seeded pairs and triples of malformations; and the time-array matrix "
                "(debiaser x window configuration x every combination of {given right, given wrong length +-1, omitted} over the three time arrays); and the accept side: well-formed input with three different time lengths through every dispatch path "
                "(serial / parallel with 1 and 2 processes / failsafe / progress bar, with and without dates); and sessions: scripted and seeded sequences of "
                "such calls (accepted / wrong time array / malformed array / converted) on ONE debiaser object per window configuration, every call judged as on a "
                "fresh object; and the construction matrix: debiaser x every variable it has default settings for x construction path (from_variable with the name / "
                "upper-case name / Variable object, every attrs field restated as keyword, the range overridden by keyword, for_precipitation) x argument position x "
                "out-of-range value kind (far / one ulp outside, units slip, with NaN / -inf) judged against the range of that variable. Non-trivial = at least one "
                "malformed argument / mismatching time array; distinct = distinct (debiaser, recipes) or (debiaser, configuration, deltas) tuples")
    res.trusted = C.BASE_TRUSTED + [
        "translator/extract_contract.py (AST -> step list / helper texts / order facts); the meaning of each helper predicate is its numpy meaning "
        "(isinstance, np.issubdtype, ndim, shape, np.isnan/isinf, masked-array ufunc semantics), validated by the correspondence only",
        "the instrumentation wraps apply_location, _check_inputs_and_convert_if_possible and the per-window computation on the instance (observation only)",
        "construction-matrix cases only: apply_location is REPLACED on the instance by a pass-through (copy of cm_future / of obs for DeltaChange), so that "
        "only the contract part of apply (input checks, map over locations, output checks) runs for the twelve variables; the range of a variable is read "
        "from ibicus.variables",
    ]
    res.assumptions = ["RUNTIME-ONLY clauses (decided by the oracle on the real code, no theorem): the *values* after conversion "
                       "(astype(float), MaskedArray.filled(nan): NaN exactly at the masked cells, other cells unchanged), the result's numpy dtype, "
                       "pickling / the process pool of the parallel path, tqdm, the warnings machinery. The model carries their logic part only: "
                       "descriptor-level conversion (dtype class, masked flag, NaN flag), the time axis of the result buffer of every dispatch "
                       "path (tier A), which warnings in which order",
                       "default call mode (parallel=False, failsafe=False); with failsafe=True exceptions raised inside a location are swallowed by design",
                       "a debiaser may fail on non-finite data inside a location (scipy fits); such failures are tolerated after the contract's warnings were checked, and counted"]

    lean_ok = C.lean_phase(res, PROP, GEN, TARGETS)

    lines, expect, problems = [], [], []
    # ---- full matrix: position x single malformation x debiaser
    for name in DEBS:
        check_case(name, ["ok", "ok", "ok"], res, lines, expect, problems)
        for pos in range(3):
            for r in SINGLE:
                rec = ["ok", "ok", "ok"]
                rec[pos] = r
                check_case(name, rec, res, lines, expect, problems)
    # ---- pairs / triples (ordering of the checks only matters here)
    n_multi = 400 if tier == "quick" else 3000
    if force_search or not lean_ok:
        n_multi *= 3
    names = list(RECIPES)
    for k in range(n_multi):
        name = DEBS[k % len(DEBS)]
        rec = [rng.choice(names) for _ in range(3)]
        if sum(r != "ok" for r in rec) < 2:
            rec[rng.randrange(3)] = rng.choice(SINGLE)
        check_case(name, rec, res, lines, expect, problems, seed=rng.randint(0, 5))
    if tier == "thorough":  # all ordered pairs of error-class representatives, all position pairs, two cheap debiasers
        reps = ["list", "object_strings", "2d", "4d", "spatial_2x3", "int", "nan", "masked_cells", "2d_strings"]
        for name in ("LinearScaling", "DeltaChange"):
            for p in range(3):
                for q in range(3):
                    if p == q:
                        continue
                    for r1 in reps:
                        for r2 in reps:
                            rec = ["ok", "ok", "ok"]
                            rec[p], rec[q] = r1, r2
                            check_case(name, rec, res, lines, expect, problems)

    # ---- time arrays
    consumes_expect = {}
    for name in DEBS:
        for cfg in time_configs(name):
            # every combination of {given with the right length, given with a wrong length, omitted} over the three positions
            todo = []
            for states in itertools.product(("ok", "wrong", "omitted"), repeat=3):
                d3 = tuple((rng.choice((-1, 1)) if st == "wrong" else 0) for st in states)
                todo.append((d3, tuple(a for a, st in zip(ARGS, states) if st == "omitted"), None))
            for pos in range(3):  # both signs for a single wrong array, everything else given
                for dl in (-1, 1):
                    d3 = [0, 0, 0]
                    d3[pos] = dl
                    todo.append((tuple(d3), (), None))
            todo.append(((0, -1, 0), ("cm_hist",), None))                 # an omitted array cannot mismatch
            if name in ("CDFt", "QuantileDeltaMapping") and not cfg["running_window_mode"]:
                todo.append(((0, 0, 0), (), 800))                        # several years of cm_future (obs / cm_hist are used whole)
                todo.append(((0, 0, -3), (), 800))
                todo.append(((0, 0, -3), ("obs",), 800))
            if tier == "thorough":
                for _ in range(6):
                    todo.append((tuple(rng.choice([-2, -1, 0, 0, 1, 5]) for _ in range(3)), (), None))
            for d3, omit, nfut in todo:
                k0 = len(expect)
                flags = check_time_case(name, cfg, d3, res, lines, expect, problems, omit=omit, nfut=nfut)
                expect[k0 + 1] = ("consumes", expect[k0 + 1][1], flags)
                expect[k0 + 2] = ("consumes-from-sites", expect[k0 + 2][1], flags)

    # ---- accept side: three different time lengths through every dispatch path (serial / parallel / failsafe / progress bar)
    triples = [(40, 50, 60), (60, 50, 40)]
    if tier == "thorough":
        triples += [(45, 33, 38), (30, 61, 47)]
    for name in DEBS:
        for k, lens in enumerate(triples):
            for label, kw in DISPATCH:
                if tier == "quick" and k > 0 and "nr_processes=2" not in label:
                    continue
                check_dispatch(name, lens, label, kw, False, res, lines, expect, problems)
        check_dispatch(name, triples[rng.randrange(2)], "parallel nr_processes=2", dict(progressbar=False, parallel=True, nr_processes=2), True,
                       res, lines, expect, problems)
        check_dispatch(name, triples[rng.randrange(2)], "serial+progressbar", dict(progressbar=True), True, res, lines, expect, problems)

    # ---- sessions: call sequences on one debiaser object (every call judged like a call on a fresh object)
    n_random = 1 if tier == "quick" else 6
    if force_search or not lean_ok:
        n_random *= 3
    for name in DEBS:
        for cfg in time_configs(name):
            for steps in session_scripts(name, rng, n_random):
                check_session(name, cfg, steps, res, lines, expect, problems)

    # ---- construction paths x variables: the range / NaN warnings with the range of the variable the debiaser was built for
    for name, var, path, pos, kind, ds in construction_matrix(rng, tier):
        check_construction(name, var, path, pos, kind, res, problems, data_seed=ds)

    mismatches = []
    try:
        out = C.run_driver("DrvContract", lines)
        for (what, case, exp), got in zip(expect, out):
            res.cov["traces_validated_against_impl"] += 1
            if exp != got:
                mismatches.append({"op": what, "case": case, "impl": str(exp)[:300], "model": got[:300]})
    except (C.DriverError, Exception) as ex:  # noqa: BLE001
        mismatches.append({"op": "driver", "case": {}, "impl": "", "model": f"{type(ex).__name__}: {str(ex)[:400]}"})
    if mismatches:
        res.tie_broken.append(f"correspondence DrvContract: {len(mismatches)} mismatches, first: {mismatches[0]}")
    res.extra["correspondence_mismatches"] = len(mismatches)

    # ---- verdict
    seen = set()
    for p, case, sig in problems:
        key = (sig.get("what"), case.get("debiaser"))
        if key in seen:
            continue
        seen.add(key)
        res.violations.append((f"{case.get('debiaser')}: {p}", {"property": PROP, "failing_input": case, "problem": p, "signature": sig}))
    if res.tie_broken and not problems:
        res.violations.append(("proof obligation / correspondence no longer checks: " + "; ".join(res.tie_broken)[:600],
                               {"property": PROP, "failing_input": None, "broken": res.tie_broken, "mismatches": mismatches[:5]}))
    return res


def replay(data):
    """re-run the failing input of a replay file against the real code; exit status 1 if it still fails"""
    logging.getLogger("ibicus").setLevel(logging.CRITICAL)
    fi = data.get("failing_input")
    if not fi:
        print("replay without failing input:", data.get("broken"))
        return 1
    res = C.Result(PROP, "quick")
    lines, expect, problems = [], [], []
    if "session" in fi:
        check_session(fi["debiaser"], fi["session"]["cfg"], fi["session"]["calls"], res, lines, expect, problems)
    elif "construction" in fi:
        path = {k: v for k, v in fi["construction"].items() if not k.startswith("_")}
        var = path.pop("variable")
        check_construction(fi["debiaser"], var, path, ARGS.index(fi["position"]), fi["value_kind"], res, problems, data_seed=fi.get("data_seed", 0))
    elif "dispatch" in fi:
        check_dispatch(fi["debiaser"], tuple(fi["series_lengths"]), fi["dispatch"], fi["apply_kwargs"], fi.get("time_arrays") == "given, matching",
                       res, lines, expect, problems)
    elif "recipes" in fi:
        check_case(fi["debiaser"], [fi["recipes"][a] for a in ARGS], res, lines, expect, problems, seed=fi.get("data_seed", 0))
    else:
        deltas = [0 if t is None else t - n for t, n in zip(fi["time_lengths"], fi["series_lengths"])]
        check_time_case(fi["debiaser"], fi["cfg"], deltas, res, lines, expect, problems, omit=tuple(fi.get("omitted") or ()),
                        nfut=fi["series_lengths"][2] if fi["series_lengths"][2] != N["cm_future"] else None)
    for p, case, sig in problems:
        print("still failing:", p, case.get("observed"))
    if not problems:
        print("the replayed input no longer violates the property")
    return 1 if problems else 0
