"""C08 — seasonal locality: a day is corrected only from data inside its window."""
import datetime
import random
import warnings

import numpy as np

from harness import common as C
from harness import probes

PROP = "C08"
TARGETS = ["IbicusModel.Props.C08", "IbicusModel.Props.Calendar", "IbicusModel.Props.CalendarAgree", "IbicusModel.Lemmas.GenLoops"]
GEN = ["Windows", "Loops"]
TARGETS += ["IbicusModel.Props.Capstone2"]  # capstone 2: C08 stated on the composition of the regenerated pieces (loop spec ∘ per-window program / kernel / ISIMIP wiring); the audit imports it
GEN += ["Loops", "GridLoops", "DebWin", "Debiasers", "IsimipStep6"]  # the groups the capstone composes (lean_phase regenerates every transitively imported group anyway)


def wrap366(x):
    m = x % 366
    return 366 if m == 0 else m


def near_mask(k, t, doys):
    """circNear k t d (Props.C08.circNear): exists x in [t-k, t+k] with wrap366(x) = d"""
    allowed = {wrap366(x) for x in range(t - k, t + k + 1)}
    return np.array([int(d) in allowed for d in doys])


def reassemble(deb, name, slices_line, o, h, f, dO, dH, dF):
    """rebuild apply_location's result from the model's index sets and the REAL per-window function"""
    n = o.size if name == "DeltaChange" else f.size
    out = np.full(n, np.nan)
    if slices_line == "":
        return out
    for part in slices_line.split("|"):
        c, iadj, iwO, iwH, iwF = part.split(";")
        iadj, iwO, iwH, iwF = (np.array(C.parse_list(x), dtype=int) for x in (iadj, iwO, iwH, iwF))
        if name == "DeltaChange":
            res = deb._apply_on_within_year_window(obs=o[iwO], cm_hist=h[iwH], cm_future=f[iwF])
            mask = np.isin(iwO, iadj)
        elif name == "ISIMIP":
            from ibicus.utils import year
            res = deb._apply_on_window(obs_hist=o[iwO], cm_hist=h[iwH], cm_future=f[iwF], years_obs_hist=year(dO)[iwO],
                                       years_cm_hist=year(dH)[iwH], years_cm_future=year(dF)[iwF])
            mask = np.isin(iwF, iadj)
        else:
            res = deb.apply_on_window(obs=o[iwO], cm_hist=h[iwH], cm_future=f[iwF], time_obs=dO[iwO], time_cm_hist=dH[iwH],
                                      time_cm_future=dF[iwF])
            mask = np.isin(iwF, iadj)
        out[iadj] = res[mask]
    return out


def _annual_trend_p(x, years):
    """harness-side (scipy) p-value of the linear trend in the calendar-year means; only used to MEASURE how many generated
    series carry a significant inter-annual trend (coverage), never for the verdict"""
    import scipy.stats

    ys = np.unique(years)
    if ys.size < 3:
        return 1.0
    p = scipy.stats.linregress(ys, np.array([x[years == y].mean() for y in ys])).pvalue
    return float(p) if np.isfinite(p) else 1.0


def interannual_cases(tier, res, problems, boost):
    """Locality on series with INTER-ANNUAL structure under perturbations that are UNEVEN ACROSS YEARS (round 5).

    Quantifiers of the property covered here (the cases of `run` below draw two-to-four-year stationary series and change
    the far-away data of every year alike, so every statistic taken over YEARS — an annual-mean regression and its
    significance test, a level shift, a window over years — was degenerate and any such statistic computed from the whole
    series instead of the window slice went unseen):
      * "for all inputs": five to ten years per series, each series with its own structure over the years (linear trend of
        either sign in the annual means — strong enough to pass a p < 0.05 test on the whole record, and from clearly to
        barely significant inside a single window —, a level shift between two years, or none), whole calendar years or any
        start day, different periods for the three series;
      * "for all perturbations of out-of-window values": a spell in the last two years only / in a random subset of years /
        in one year / half a year away in the last years, a ramp over the years (creates or removes a trend in the far
        data), besides x3 and +1e6 on everything far away; applied to one series only (obs, cm_hist, cm_future) or to all;
      * "for all target days": EVERY step of the corrected series that falls on the target's calendar day (each year of
        the record) is compared bit for bit, not one step;
      * "all deterministic debiaser configurations in running-window mode": the eight tas configurations, ISIMIP psl / rlds,
        multiplicative LS / DC and relative SDM on precipitation with a multiplicative trend; called through
        `apply_location` and through `apply`.
    The oracle is the property's own clause: only values whose calendar day is farther than L//2 + S//2 (circularly, the
    harness's independent calendar) from the target day are changed, all by finite amounts, so each compared value must be
    bit-for-bit the same (an undefined value stays undefined)."""
    rng = random.Random(C.seed() * 104729 + 8008)  # a stream of its own: the cases of `run` keep theirs
    res.rule += ("; inter-annual cases = (debiaser, L, S, years, structure per series, target doy, perturbation kind, perturbed series), "
                 "non-trivial when some series carries a trend in its annual means with p < 0.05 and the perturbed index set is non-empty")
    tas_names = list(probes.window_debiasers(31, 1)) + ["ISIMIP-psl", "ISIMIP-rlds"]
    pr_names = ["LinearScaling-pr", "DeltaChange-pr", "ScaledDistributionMapping-pr"]
    reps = (1 if tier == "quick" else 6) * (3 if boost else 1)
    series_names = ("obs", "cm_hist", "cm_future")
    kinds = ["spell-last-years", "spell-some-years", "spell-one-year", "halfyear-last-years", "ramp", "x3", "+1e6"]
    n_case = 0
    for rep in range(reps):
        # ISIMIP (the one method with a data-dependent branch over the years: significance-tested detrending) three times, the
        # others once; one precipitation configuration per repetition in quick (which one rotates with the seed)
        plan = ["ISIMIP", "ISIMIP"] + tas_names
        plan += [pr_names[(rep + C.seed()) % len(pr_names)]] if tier == "quick" and not boost else pr_names
        for name in plan:
            n_case += 1
            nprs = np.random.RandomState(rng.randint(0, 2**31 - 1))
            is_pr = name in pr_names
            is_dc = name.startswith("DeltaChange")
            ny = rng.randint(5, 10)
            y0 = rng.randint(1950, 2070)
            whole_years = rng.random() < 0.5

            def span(y):
                if whole_years:
                    return probes.dates_from(datetime.date(y, 1, 1), (datetime.date(y + ny, 1, 1) - datetime.date(y, 1, 1)).days)
                return probes.dates_from(datetime.date(y, rng.randint(1, 12), rng.randint(1, 28)), 365 * ny + rng.randint(0, 300))

            rawO, rawH, rawF = span(y0 - 30 - rng.randint(0, 3)), span(y0 - 30 - rng.randint(0, 3)), span(y0 + rng.randint(0, 20))
            yrs = {s: np.array([d.year for d in raw]) for s, raw in zip(series_names, (rawO, rawH, rawF))}
            doys = {s: probes.indep_doy(raw) for s, raw in zip(series_names, (rawO, rawH, rawF))}  # independent of the library
            sd = rng.choice([1.5, 3.0, 4.0])
            if is_pr:
                data = {"obs": probes.pr_like(nprs, rawO, 0.5, 4.0), "cm_hist": probes.pr_like(nprs, rawH, 0.6, 3.0),
                        "cm_future": probes.pr_like(nprs, rawF, 0.55, 3.5)}
            else:
                data = {"obs": probes.tas_like(nprs, rawO, 283, sd), "cm_hist": probes.tas_like(nprs, rawH, 285, sd + 1),
                        "cm_future": probes.tas_like(nprs, rawF, 287, sd + 1)}
            structure = {s: rng.choice(["trend", "trend", "step", "flat"]) for s in series_names}
            if all(v == "flat" for v in structure.values()):
                structure[rng.choice(series_names)] = "trend"
            struct_par = {}
            for s in series_names:
                k = yrs[s] - yrs[s].min()
                if structure[s] == "trend":
                    g = rng.choice([-1, 1]) * rng.randint(8, 40) / 64  # K per year (0.125 .. 0.625); pr: a tenth of it per year, relative
                    struct_par[s] = g
                    data[s] = data[s] * (1 + abs(g) / 10 * k) if is_pr else data[s] + g * k
                elif structure[s] == "step":
                    g, at = rng.choice([-1, 1]) * rng.randint(64, 192) / 64, int(yrs[s].min()) + ny // 2
                    struct_par[s] = [g, at]
                    data[s] = data[s] * np.where(yrs[s] >= at, 1.5 if g > 0 else 0.6, 1.0) if is_pr else data[s] + np.where(yrs[s] >= at, g, 0.0)
            significant = {s: _annual_trend_p(data[s], yrs[s]) < 0.05 for s in series_names}
            cheap = name.startswith(("LinearScaling", "DeltaChange")) or name == "QuantileMapping"
            S = rng.choice([1, 5, 15, 31] if cheap else [5, 15, 31])
            L = S + rng.choice([0, 4, 16, 30])
            if is_pr:
                L = max(L, 15)  # multiplicative scaling of precipitation: no all-dry window (0/0)
            Ln, Sn = L + (L % 2 == 0), S + (S % 2 == 0)
            k_near = Ln // 2 + Sn // 2
            corrected = "obs" if is_dc else "cm_future"
            cand = [i for i, d in enumerate(doys[corrected]) if d in (1, 2, 365, 366, 59, 60)]
            ti = rng.choice(cand) if cand and rng.random() < 0.4 else rng.randrange(doys[corrected].size)
            t = int(doys[corrected][ti])
            targets = np.where(doys[corrected] == t)[0]
            enc = probes.pick_kind(rng)
            dO, dH, dF = probes.present(rawO, enc), probes.present(rawH, enc), probes.present(rawF, enc)
            via = "apply" if n_case % 2 else "apply_location"
            base_case = {"what": "locality-interannual/" + name, "L": L, "S": S, "years": ny, "whole_years": whole_years,
                         "startO": str(rawO[0]), "startH": str(rawH[0]), "startF": str(rawF[0]), "nO": int(rawO.size), "nH": int(rawH.size),
                         "nF": int(rawF.size), "noise_sd": None if is_pr else sd, "structure": structure, "structure_parameters": struct_par,
                         "annual_trend_significant": significant, "target_doy": t, "target_indices": [int(i) for i in targets],
                         "time_encoding": enc, "called_through": via, "seed": C.seed()}
            if name in probes.window_debiasers(31, 1):
                mk = probes.window_debiasers(L, S)[name]
            else:
                mk = probes.window_debiasers_extra(L, S)[name][0]

            def run_deb(d):
                with warnings.catch_warnings():
                    warnings.simplefilter("ignore")
                    if via == "apply_location":
                        return np.asarray(mk().apply_location(d["obs"], d["cm_hist"], d["cm_future"], dO, dH, dF))
                    return np.asarray(mk().apply(d["obs"][:, None, None], d["cm_hist"][:, None, None], d["cm_future"][:, None, None],
                                                 progressbar=False, time_obs=dO, time_cm_hist=dH, time_cm_future=dF))[:, 0, 0]

            try:
                a = run_deb({s: v.copy() for s, v in data.items()})
            except Exception as ex:  # noqa: BLE001
                problems.append((f"{name} [inter-annual]: {type(ex).__name__} on well-formed multi-year input: {str(ex)[:120]}", base_case))
                continue
            # the perturbed series: each single series and all three in quick (three of the four per case), all four in thorough
            whiches = ["obs", "cm_hist", "cm_future", "all"]
            rng.shuffle(whiches)
            for which in (whiches[:3] if tier == "quick" else whiches):
                kind = rng.choice(kinds)
                amount = rng.choice([-1, 1]) * rng.randint(3 * 64, 8 * 64) / 64  # K (tas); pr: factor 1 + |amount| / 4
                if kind == "ramp":
                    amount = rng.choice([-1, 1]) * rng.randint(12, 64) / 64  # K per year; pr: |amount| / 4 per year, relative
                pert, sel, n_far = {}, {}, 0
                for s in series_names:
                    x = data[s].copy()
                    if which in ("all", s):
                        far = ~near_mask(k_near, t, doys[s])
                        ys = [int(y) for y in np.unique(yrs[s])]
                        if kind in ("spell-last-years", "halfyear-last-years"):
                            sel[s] = ys[-2:]
                        elif kind == "spell-some-years":
                            sel[s] = sorted(rng.sample(ys, rng.randint(1, len(ys) - 1)))
                        elif kind == "spell-one-year":
                            sel[s] = [rng.choice(ys)]
                        if kind == "halfyear-last-years":
                            far &= ~near_mask(150, t, doys[s])
                        if s in sel:
                            far &= np.isin(yrs[s], sel[s])
                        if kind == "x3":
                            x[far] = x[far] * 3
                        elif kind == "+1e6":
                            x[far] = x[far] + (1e3 if is_pr else 1e6)
                        elif kind == "ramp":
                            k = (yrs[s] - yrs[s].min())[far]
                            x[far] = x[far] * (1 + abs(amount) / 4 * k) if is_pr else x[far] + amount * k
                        else:
                            x[far] = x[far] * (1 + abs(amount) / 4) if is_pr else x[far] + amount
                        n_far += int(far.sum())
                    pert[s] = x
                case = dict(base_case, perturbation=kind, perturbed_series=which, amount=amount, perturbed_years=sel, n_perturbed=n_far)
                try:
                    b = run_deb(pert)
                except Exception as ex:  # noqa: BLE001
                    problems.append((f"{name} [inter-annual]: {type(ex).__name__} after changing only finite values more than L//2+S//2={k_near} "
                                     f"days away from day {t} ({kind} on {which}), none on the unperturbed input: {str(ex)[:120]}", case))
                    continue
                res.count(("interannual", name, L, S, ny, t, kind, which), n_far > 0 and any(significant.values()),
                          sample=case if res.extra.get("interannual_cases", 0) < 2 else None)
                res.extra["interannual_cases"] = res.extra.get("interannual_cases", 0) + 1
                res.extra["interannual_cases_significant_trend"] = res.extra.get("interannual_cases_significant_trend", 0) + int(any(significant.values()))
                va, vb = a[targets], b[targets]
                both_nan = np.isnan(va) & np.isnan(vb)
                if both_nan.any():
                    res.extra["locality_targets_nan_in_both_runs"] = res.extra.get("locality_targets_nan_in_both_runs", 0) + int(both_nan.sum())
                bad = ~((va == vb) | both_nan)
                if bad.any():
                    j = int(np.where(bad)[0][0])
                    case["changed_indices"] = [int(i) for i in targets[bad]]
                    problems.append((f"{name} [inter-annual, {kind} on {which}]: the value on day {t} changed in {int(bad.sum())} of {targets.size} "
                                     f"years (first: step {int(targets[j])}, {va[j]!r} -> {vb[j]!r}) although only {n_far} values more than "
                                     f"L//2+S//2={k_near} days away from it were changed", case))


def reuse_cases(tier, res, problems, boost):
    """Locality on a REUSED instance whose time arrays were refilled in place (session 4, after seeded change C08-19).

    The property quantifies over every call; the cases above build a fresh debiaser and fresh time arrays per run, so state kept on the instance
    between calls (anything memoised per array object) never sat between the perturbed data and the compared value.  Here one instance is
    applied to calendar A, the SAME numpy time arrays are refilled in place with calendar B (shifted by 100..265 days), and locality is checked
    for calendar B on that instance: changing values more than L//2 + S//2 days (circularly) from the target day must leave it bit-identical.
    Own PRNG stream."""
    import datetime
    rng = random.Random(C.seed() * 104729 + 1908)
    n_cases = (6 if tier == "quick" else 40) * (3 if boost else 1)
    names = ["LinearScaling", "ECDFM", "QuantileMapping", "DeltaChange"]
    for n_case in range(n_cases):
        name = names[n_case % len(names)]
        if name not in probes.window_debiasers(31, 1):
            continue
        S = rng.choice([1, 5, 15]); L = S + rng.choice([4, 16, 30])
        Ln, Sn = L + (L % 2 == 0), S + (S % 2 == 0)
        k_near = Ln // 2 + Sn // 2
        n = 365 * 3 + rng.randint(0, 40)
        np_seed = rng.randint(0, 2**31 - 2)
        nprs = np.random.RandomState(np_seed)
        shift = rng.randint(100, 265)
        startA = datetime.date(2001 + rng.randint(0, 3), rng.randint(1, 12), rng.randint(1, 28))
        mkdates = lambda st: np.array([st + datetime.timedelta(days=i) for i in range(n)])  # noqa: E731
        times = [mkdates(startA) for _ in range(3)]
        data = [283.0 + 2 * i + 4.0 * nprs.standard_normal(n) for i in range(3)]
        deb = probes.window_debiasers(L, S)[name]()
        via = "apply" if n_case % 2 else "apply_location"
        case = {"what": "locality-reused-instance/" + name, "L": L, "S": S, "n": n, "np_seed": np_seed, "startA": str(startA), "shift_days": shift,
                "called_through": via, "seed": C.seed()}

        def run_deb(d):
            with warnings.catch_warnings():
                warnings.simplefilter("ignore")
                if via == "apply_location":
                    return np.asarray(deb.apply_location(d[0], d[1], d[2], times[0], times[1], times[2]))
                return np.asarray(deb.apply(d[0][:, None, None], d[1][:, None, None], d[2][:, None, None], progressbar=False,
                                            time_obs=times[0], time_cm_hist=times[1], time_cm_future=times[2]))[:, 0, 0]
        try:
            run_deb([x.copy() for x in data])                       # calendar A
            newdates = mkdates(startA + datetime.timedelta(days=shift))
            for tarr in times:
                tarr[:] = newdates                                   # the same array objects, calendar B
            doys = np.array([d.timetuple().tm_yday for d in newdates])
            ti = rng.randrange(n); t = int(doys[ti]); targets = np.where(doys == t)[0]
            a = run_deb([x.copy() for x in data])
            far = ~near_mask(k_near, t, doys)
            pert = [x.copy() for x in data]
            for x in pert:
                x[far] = x[far] * 3 + 50.0
            b = run_deb(pert)
        except Exception as ex:  # noqa: BLE001
            problems.append((f"{name} [reused instance]: {type(ex).__name__} on well-formed input: {str(ex)[:120]}", case))
            continue
        res.count(("reuse", name, L, S, via, shift, t), True, sample={**case, "target_doy": t})
        bad = ~((a[targets] == b[targets]) | (np.isnan(a[targets]) & np.isnan(b[targets])))
        if bad.any():
            problems.append((f"{name} [reused instance, time arrays refilled in place]: the value on day {t} changed in {int(bad.sum())} of {targets.size} "
                             f"years after changing only values more than L//2+S//2={k_near} days away", {**case, "target_doy": t,
                                                                                                      "target_indices": [int(i) for i in targets]}))
    res.extra["oracle_reused_instance_runs"] = n_cases



def _relayout(a, kind):
    """the same logical (t, x, y) array in another memory layout"""
    if kind == "F":
        return np.asfortranarray(a)
    if kind == "stored[x,y,t]":  # e.g. netCDF [lat, lon, time] moved to time-first
        return np.ascontiguousarray(a.transpose(1, 2, 0)).transpose(2, 0, 1)
    if kind == "strided":
        big = np.zeros((2 * a.shape[0], a.shape[1] + 1, 2 * a.shape[2]), dtype=a.dtype)
        out = big[::2, 1:, ::2]
        out[...] = a
        return out
    return np.ascontiguousarray(a)


def _present_values(values, spec, gaps):
    """the object handed to `apply` for the logical float64 values `values` (t, x, y), of which the cells `gaps` (bool) are
    invalid: a dtype, a container (ndarray / ndarray with NaN at the gaps / masked array without mask, with an all-False mask,
    with the gaps masked — three construction paths, the original value or a fill value in the storage under the mask) and a
    memory layout.  Element-wise, so two value arrays that agree at a cell are presented identically at that cell."""
    dt, co = spec["dtype"], spec["container"]
    x = (np.rint(values) if dt.startswith("i") else values).astype(dt)
    if co == "nan/gaps":
        x[gaps] = np.nan
    elif co == "masked/gaps" and spec["under_mask"] != "original":
        x[gaps] = spec["under_mask"]
    x = _relayout(x, spec["layout"])
    if co == "masked/nomask":
        return np.ma.masked_array(x)
    if co == "masked/all-false":
        return np.ma.masked_array(x, mask=np.zeros(x.shape, dtype=bool))
    if co == "masked/gaps":
        if spec["built_by"] == "masked_where":
            a = np.ma.masked_where(gaps, x)
        elif spec["built_by"] == "view-assign":
            a = np.ma.masked_array(x)
            a[gaps] = np.ma.masked
        else:
            a = np.ma.masked_array(x, mask=gaps.copy())
        if not np.array_equal(np.ma.getmaskarray(a), gaps):
            a = np.ma.masked_array(x, mask=gaps.copy())  # the construction path did not give the intended array: the plain constructor
        return a
    return x


def presentation_cases(tier, res, problems, boost):
    """Locality for every KIND OF INPUT OBJECT the public entry point accepts and converts (round 6).

    Quantifiers of the property covered here (every case above hands gap-free, C-contiguous float64 ndarrays to the debiaser,
    most of them to `apply_location` directly; whatever `Debiaser.apply` does to its arguments BEFORE the windows are formed —
    the dtype conversion, the treatment of masked arrays and of their invalid cells — was never between the perturbed data
    and the compared value, so a conversion that looks at the whole series, e.g. a gap filled from a statistic over all time
    steps, went unseen):
      * "for all inputs": per argument a dtype (float64 / float32 / int32 / int64) x a container (ndarray; ndarray with NaN
        cells; masked array without mask / with an all-False mask / with masked cells, built by three construction paths,
        with the original value or a fill value such as -9999 / 1e20 in the storage under the mask) x a memory layout
        (C, Fortran, time-last storage, strided view); the invalid cells INSIDE the target day's neighbourhood (on the target
        day itself, up to L//2 + S//2 days from it), far away from it, or both; grids of 1..4 locations with their own series
        and their own gaps;
      * "for all perturbations of out-of-window values": x3, +1e6, a constant, a spell half a year away — of the VALID
        far-away values (the storage under a mask is not a value) —, and a valid far-away value BECOMING invalid (further
        far-away cells masked / NaN); of one series or of all three;
      * "for all target days": every step of the corrected series on the target's calendar day, at every location, bit for bit;
      * "all deterministic debiaser configurations in running-window mode": the eight tas configurations, the non-parametric
        QuantileMapping, ISIMIP psl / rlds, multiplicative LS / DC on precipitation; through `apply` (DeltaChange: its own);
      * "the window really uses data up to L//2 days": LinearScaling with S = 1 given a masked / converted cm_hist must react
        to a change of VALID values at distance exactly L//2 (judged where the unperturbed values on the target day are defined).
    The oracle is the property's own clause: the two runs differ only in values whose calendar day (the harness's independent
    calendar) is farther than L//2 + S//2 from the target day; the invalid cells near the target are the same cells in both
    runs.  Each compared value must be bit-for-bit the same; an undefined value (NaN: a gap inside the window of a method
    that does not skip gaps) stays undefined.  A run that raises on input WITH gaps is the documented behaviour of a method
    without support for missing values (no locality statement: skipped and counted)."""
    rng = random.Random(C.seed() * 104729 + 80086)  # a stream of its own: the cases of `run` / `interannual_cases` keep theirs
    res.rule += ("; presentation cases = (debiaser, L, S, target doy, per-argument dtype / container / layout / gap placement, perturbation "
                 "kind, perturbed series), non-trivial when the perturbed index set is non-empty")
    from ibicus.debias import QuantileMapping

    tas_names = list(probes.window_debiasers(31, 1))
    # generator steering only (never the verdict): the configurations whose per-window method is defined on a window with gaps
    gap_tolerant = ["LinearScaling", "DeltaChange", "ISIMIP", "QuantileMapping-nonparametric", "ISIMIP-psl", "ISIMIP-rlds",
                    "LinearScaling-pr", "DeltaChange-pr"]
    pr_names = ["LinearScaling-pr", "DeltaChange-pr"]
    series_names = ["obs", "cm_hist", "cm_future"]
    reps = (1 if tier == "quick" else 6) * (3 if boost else 1)
    n_case = 0
    for rep in range(reps):
        if tier == "quick" and not boost:
            plan = gap_tolerant[:4] + [gap_tolerant[4 + (rep + C.seed()) % 4]] + [n for n in tas_names if n not in gap_tolerant]
        else:
            plan = gap_tolerant + [n for n in tas_names if n not in gap_tolerant]
        for name in plan:
            n_case += 1
            data_seed = rng.randint(0, 2**31 - 1)
            nprs = np.random.RandomState(data_seed)
            is_pr, is_dc = name in pr_names, name.startswith("DeltaChange")
            y0 = rng.randint(1950, 2070)
            if rng.random() < 0.5:
                y0 -= y0 % 4
            nx, ny = rng.choice([(1, 1), (1, 1), (1, 2), (2, 1), (2, 2)])

            def span(y):
                return probes.dates_from(datetime.date(y, rng.randint(1, 12), rng.randint(1, 28)) if rng.random() < 0.5 else datetime.date(y, 1, 1),
                                         365 * 2 + rng.randint(1, 400))

            raw = {"obs": span(y0 - 30), "cm_hist": span(y0 - 30 - rng.randint(0, 3)), "cm_future": span(y0 + rng.randint(0, 20))}
            doys = {s: probes.indep_doy(raw[s]) for s in series_names}  # independent of the library
            par = {"obs": (0.5, 4.0, 283, 3), "cm_hist": (0.6, 3.0, 285, 4), "cm_future": (0.55, 3.5, 287, 4)}
            vals = {}
            for s in series_names:
                cols = [probes.pr_like(nprs, raw[s], par[s][0], par[s][1]) if is_pr else probes.tas_like(nprs, raw[s], par[s][2], par[s][3])
                        for _ in range(nx * ny)]
                vals[s] = np.stack(cols, axis=1).reshape(raw[s].size, nx, ny)
            cheap = name.startswith(("LinearScaling", "DeltaChange")) or name in ("QuantileMapping", "QuantileMapping-nonparametric")
            S = rng.choice([1, 1, 5, 15, 31] if cheap else [5, 15, 31])
            L = S + rng.choice([0, 4, 16, 30])
            if is_pr:
                L = max(L, 15)  # multiplicative scaling of precipitation: no all-dry window (0/0)
            Ln, Sn = L + (L % 2 == 0), S + (S % 2 == 0)
            k_near = Ln // 2 + Sn // 2
            corrected = "obs" if is_dc else "cm_future"
            cand = [i for i, d in enumerate(doys[corrected]) if d in (1, 2, 365, 366, 59, 60)]
            ti = rng.choice(cand) if cand and rng.random() < 0.4 else rng.randrange(doys[corrected].size)
            t = int(doys[corrected][ti])
            targets = np.where(doys[corrected] == t)[0]
            near = {s: near_mask(k_near, t, doys[s]) for s in series_names}

            # ---- how each argument is presented, and which of its cells are invalid
            forced = series_names[(n_case + C.seed()) % 3] if name in gap_tolerant or rng.random() < 0.34 else None
            specs, gaps = {}, {}
            for s in series_names:
                co = rng.choice(["ndarray", "masked/nomask", "masked/all-false", "masked/gaps", "masked/gaps", "nan/gaps"]
                                if name in gap_tolerant else ["ndarray", "ndarray", "masked/nomask", "masked/all-false"])
                place = rng.choice(["near", "near", "far", "both"])
                if s == forced:
                    co, place = "masked/gaps", rng.choice(["near", "near", "both"])
                dt = rng.choice(["f8", "f8", "f4"] if is_pr or co == "nan/gaps" else ["f8", "f8", "f4", "i4", "i8"])
                under = "original"
                if co == "masked/gaps":
                    under = rng.choice(["original", -9999, 1e20] if dt.startswith("f") else ["original", -9999])
                specs[s] = {"dtype": dt, "container": co, "layout": rng.choice(["C", "C", "F", "stored[x,y,t]", "strided"]),
                            "under_mask": under, "built_by": rng.choice(["masked_array", "masked_where", "view-assign"]) if co == "masked/gaps" else None,
                            "gaps": None, "gap_cells": []}
                g = np.zeros(vals[s].shape, dtype=bool)
                if co in ("masked/gaps", "nan/gaps"):
                    specs[s]["gaps"] = place
                    for where in (["near", "far"] if place == "both" else [place]):
                        idx = np.where(near[s] if where == "near" else ~near[s])[0]
                        on_target = np.where(doys[s] == t)[0]
                        for _ in range(rng.randint(1, 4)):
                            i0 = int(rng.choice(on_target)) if where == "near" and on_target.size and rng.random() < 0.3 else int(rng.choice(idx))
                            ci, cj = rng.randrange(nx), rng.randrange(ny)
                            for i in range(i0, min(i0 + rng.randint(1, 3), raw[s].size)):  # a single cell or an outage of up to three days
                                if (near[s][i]) == (where == "near"):
                                    g[i, ci, cj] = True
                    specs[s]["gap_cells"] = [[int(i), int(a), int(b)] for i, a, b in zip(*np.where(g))]
                gaps[s] = g
            any_gap = any(g.any() for g in gaps.values())
            gap_near = any((gaps[s] & near[s][:, None, None]).any() for s in series_names)
            enc = probes.pick_kind(rng)
            times = {s: probes.present(raw[s], enc) for s in series_names}
            if name == "QuantileMapping-nonparametric":
                kw = dict(running_window_mode=True, running_window_length=L, running_window_step_length=S)
                mk = lambda: QuantileMapping.from_variable("tas", mapping_type="nonparametric", detrending="no_detrending", **kw)  # noqa: E731
            elif name in tas_names:
                mk = probes.window_debiasers(L, S)[name]
            else:
                mk = probes.window_debiasers_extra(L, S)[name][0]
            base_case = {"what": "locality-presentation/" + name, "L": L, "S": S, "grid": [nx, ny], "data_seed": data_seed,
                         "data_recipe": "r = numpy.random.RandomState(data_seed); for obs, cm_hist, cm_future in turn, for each location in C order: "
                                        + ("probes.pr_like(r, days, wet, scale) with (wet, scale) = (0.5, 4), (0.6, 3), (0.55, 3.5)" if is_pr else
                                           "probes.tas_like(r, days, mean, sd) with (mean, sd) = (283, 3), (285, 4), (287, 4)")
                                        + "; days = n consecutive days from start; cast to dtype (integers: rounded), gap_cells [t, x, y] invalid",
                         "start": {s: str(raw[s][0]) for s in series_names}, "n": {s: int(raw[s].size) for s in series_names},
                         "presented_as": specs, "target_doy": t, "target_indices": [int(i) for i in targets], "time_encoding": enc,
                         "called_through": "apply", "seed": C.seed()}

            def run_deb(v, gp):
                with warnings.catch_warnings():
                    warnings.simplefilter("ignore")
                    args = {s: _present_values(v[s], specs[s], gp[s]) for s in series_names}
                    return np.asarray(mk().apply(args["obs"], args["cm_hist"], args["cm_future"], progressbar=False, time_obs=times["obs"],
                                                 time_cm_hist=times["cm_hist"], time_cm_future=times["cm_future"]))

            try:
                a = run_deb(vals, gaps)
            except Exception as ex:  # noqa: BLE001
                if any_gap:
                    res.extra["presentation_skipped_run_with_gaps_raises"] = res.extra.get("presentation_skipped_run_with_gaps_raises", 0) + 1
                else:
                    problems.append((f"{name} [presentation]: {type(ex).__name__} on gap-free input in a dtype / container / layout that `apply` "
                                     f"documents to convert: {str(ex)[:120]}", base_case))
                continue
            res.extra["presentation_cases_run"] = res.extra.get("presentation_cases_run", 0) + 1
            res.extra["presentation_cases_gap_near_target"] = res.extra.get("presentation_cases_gap_near_target", 0) + int(gap_near)
            kinds = ["x3", "+1e6", "+c", "spell", "more-gaps-far"]
            rng.shuffle(kinds)
            for kind in kinds[:2 if tier == "quick" else 3]:
                which = rng.choice(["obs", "cm_hist", "cm_future", "all", "all"])
                amount = rng.choice([-1, 1]) * rng.randint(3 * 64, 8 * 64) / 64
                if kind == "more-gaps-far" and not any(specs[s]["gaps"] for s in series_names if which in ("all", s)):
                    kind = "x3"  # no perturbed argument is presented with gaps

                def perturbed(kind):
                    pv, pg, n_far = {}, {}, 0
                    prs = np.random.RandomState(data_seed ^ 0x5EED)
                    for s in series_names:
                        x, g = vals[s].copy(), gaps[s].copy()
                        if which in ("all", s):
                            far = ~near[s]
                            if kind == "spell":
                                far = far & near_mask(3, t + 183, doys[s])
                            if kind == "more-gaps-far":
                                if specs[s]["gaps"]:
                                    fi = np.where(far)[0]
                                    for i in prs.choice(fi, size=min(3, fi.size), replace=False) if fi.size else []:
                                        g[int(i), prs.randint(nx), prs.randint(ny)] = True
                                    n_far += int((g & ~gaps[s]).sum())
                            else:
                                if kind == "x3":
                                    x[far] = x[far] * 3
                                elif kind == "+1e6":
                                    x[far] = x[far] + (1e3 if is_pr else 1e6)
                                else:
                                    x[far] = x[far] * (1 + abs(amount) / 4) if is_pr else x[far] + amount
                                n_far += int(far.sum()) * nx * ny
                        pv[s], pg[s] = x, g
                    return pv, pg, n_far

                pv, pg, n_far = perturbed(kind)
                case = dict(base_case, perturbation=kind, perturbed_series=which, amount=amount, n_perturbed=n_far)
                b = None
                try:
                    b = run_deb(pv, pg)
                except Exception as ex:  # noqa: BLE001
                    if not (any_gap or kind == "more-gaps-far"):
                        problems.append((f"{name} [presentation]: {type(ex).__name__} after changing only finite values more than L//2+S//2={k_near} "
                                         f"days away from day {t} ({kind} on {which}) of gap-free input, none on the unperturbed input: {str(ex)[:120]}", case))
                        continue
                    # A gap in an UNRELATED window (one that straddles the edge of the neighbourhood and now holds shifted and
                    # unshifted values, or one that got a further gap) making that window's method raise is the documented
                    # behaviour of a method without support for missing values, not a locality statement (DESIGN §4: fall back
                    # to a milder perturbation, skip and count if that raises too).
                    if kind != "+c":
                        kind = "+c"
                        pv, pg, n_far = perturbed(kind)
                        case = dict(base_case, perturbation=kind, perturbed_series=which, amount=amount, n_perturbed=n_far)
                        try:
                            b = run_deb(pv, pg)
                        except Exception:  # noqa: BLE001
                            b = None
                if b is None:
                    res.extra["presentation_skipped_run_with_gaps_raises"] = res.extra.get("presentation_skipped_run_with_gaps_raises", 0) + 1
                    continue
                res.count(("presentation", name, L, S, t, kind, which, "|".join(f"{specs[s]['dtype']},{specs[s]['container']},{specs[s]['gaps']}" for s in series_names)),
                          n_far > 0, sample=case if res.extra.get("presentation_comparisons", 0) < 2 else None)
                res.extra["presentation_comparisons"] = res.extra.get("presentation_comparisons", 0) + 1
                if a.shape != b.shape or a.dtype != b.dtype:
                    problems.append((f"{name} [presentation, {kind} on {which}]: result {a.dtype}{list(a.shape)} became {b.dtype}{list(b.shape)}", case))
                    continue
                va, vb = a[targets].astype(float), b[targets].astype(float)
                both_nan = np.isnan(va) & np.isnan(vb)
                res.extra["presentation_targets_nan_in_both_runs"] = res.extra.get("presentation_targets_nan_in_both_runs", 0) + int(both_nan.sum())
                res.extra["presentation_targets_defined_compared"] = res.extra.get("presentation_targets_defined_compared", 0) + int((~both_nan).sum())
                bad = ~(((va == vb) & (np.signbit(va) == np.signbit(vb))) | both_nan)
                if bad.any():
                    j = [int(x) for x in np.argwhere(bad)[0]]
                    case["changed_cells"] = [[int(targets[i]), int(p), int(q)] for i, p, q in np.argwhere(bad)[:20]]
                    problems.append((f"{name} [presentation, {kind} on {which}]: {int(bad.sum())} of {bad.size} values on day {t} changed (first: step "
                                     f"{int(targets[j[0]])} at location {j[1:]}, {va[tuple(j)]!r} -> {vb[tuple(j)]!r}) although only {n_far} values more than "
                                     f"L//2+S//2={k_near} days away from it were changed; arguments presented as "
                                     + ", ".join(f"{s}: {specs[s]['dtype']} {specs[s]['container']}" + (f" (gaps {specs[s]['gaps']})" if specs[s]['gaps'] else "")
                                                 for s in series_names), case))
            # ---- the window really reaches L//2 days, whatever the container: valid cm_hist values at distance exactly L//2
            if name == "LinearScaling" and Sn == 1 and Ln >= 3:
                at = near_mask(Ln // 2, t, doys["cm_hist"]) & ~near_mask(Ln // 2 - 1, t, doys["cm_hist"])
                valid_at = at[:, None, None] & ~gaps["cm_hist"]
                defined = np.isfinite(a[targets]).all(axis=0) & valid_at.any(axis=0)  # per location
                if defined.any():
                    v3 = dict(vals, cm_hist=vals["cm_hist"].copy())
                    v3["cm_hist"][at] += 10.0
                    case = dict(base_case, perturbation="+10 on cm_hist exactly L//2 days away")
                    try:
                        c3 = run_deb(v3, gaps)
                    except Exception as ex:  # noqa: BLE001
                        problems.append((f"{name} [presentation]: {type(ex).__name__} after adding 10 to valid cm_hist values: {str(ex)[:120]}", case))
                        continue
                    res.count(("presentation-reach", L, t, specs["cm_hist"]["container"], specs["cm_hist"]["dtype"]), True)
                    unchanged = (c3[targets] == a[targets]) & defined[None, :, :]
                    if unchanged.any():
                        problems.append((f"LinearScaling [presentation]: changing the valid cm_hist values exactly {Ln // 2} days from day {t} left "
                                         f"{int(unchanged.sum())} defined values on that day unchanged: the window is narrower than documented", case))


def run(tier, res, force_search=False):
    from ibicus.utils import day_of_year

    rng = random.Random(C.seed() * 104729 + 8)
    res.rule = ("cases = (debiaser, L, S, start dates, target step, perturbation kind); non-trivial when the excluded (perturbed) index set is "
                "non-empty; distinct = distinct (debiaser, L, S, target doy, perturbation)")
    res.trusted = C.BASE_TRUSTED + [
        "calendar arithmetic by Python; numpy fancy-index semantics as in Model.Skeleton.pairsFor / applyWrites",
        "the loop body of apply_location reads only the inputs (never the result buffer) — structural fact of the code, modelled as 'compute writes, then apply'",
    ]
    res.assumptions = ["deterministic debiaser configurations (tas settings); randomised configurations are outside the bit-for-bit clause"]

    lean_ok = C.lean_phase(res, PROP, GEN, TARGETS)
    problems, mismatches = [], []

    # ---- tier B (1): skeleton probes, shared with C07
    lines, expect = probes.skeleton_cases(rng, 12 if tier == "quick" else 60, tier, res, problems)

    # ---- tier B (2): the real apply_location equals the reassembly from the model's index sets
    n_re = 6 if tier == "quick" else 30
    re_cases = []
    for k in range(n_re):
        nprs = np.random.RandomState(rng.randint(0, 2**31 - 1))
        y0 = rng.randint(1960, 2080)
        if k % 2 == 0:
            dO = probes.dates_from(datetime.date(y0 - 20, rng.randint(1, 12), rng.randint(1, 28)), rng.randint(500, 900))
            dH = probes.dates_from(datetime.date(y0 - 20, 1, 1), rng.randint(500, 900))
        else:
            # reference periods of equal length starting on the same calendar day in different years (leap day elsewhere)
            n_ref, m0, d0 = rng.randint(700, 1100), rng.randint(1, 12), rng.randint(1, 28)
            dO = probes.dates_from(datetime.date(y0 - 20, m0, d0), n_ref)
            dH = probes.dates_from(datetime.date(y0 - 20 - rng.randint(1, 3), m0, d0), n_ref)
        dF = probes.dates_from(datetime.date(y0, rng.randint(1, 12), rng.randint(1, 28)), rng.randint(400, 900))
        S = rng.choice([7, 15, 31, rng.randint(5, 45)])
        L = S + rng.choice([0, 10, 30])
        o, h, f = probes.tas_like(nprs, dO, 283, 3), probes.tas_like(nprs, dH, 285, 4), probes.tas_like(nprs, dF, 287, 4)
        with warnings.catch_warnings():
            warnings.simplefilter("ignore")
            doyO, doyH, doyF = day_of_year(dO), day_of_year(dH), day_of_year(dF)
        Ln, Sn = L + (L % 2 == 0), S + (S % 2 == 0)
        debs = probes.window_debiasers(L, S)
        name = list(debs)[k % len(debs)]
        if name == "DeltaChange":
            lines.append(f"slices {Ln} {Sn} {C.ilist(doyF)} {C.ilist(doyH)} {C.ilist(doyO)}")  # roles: loop over obs days
        else:
            lines.append(f"slices {Ln} {Sn} {C.ilist(doyO)} {C.ilist(doyH)} {C.ilist(doyF)}")
        expect.append(("slices", {"debiaser": name, "L": L, "S": S}, None))
        re_cases.append((len(lines) - 1, name, debs[name], (o, h, f, dO, dH, dF), {"debiaser": name, "L": L, "S": S, "startF": str(dF[0]), "nF": int(dF.size)}))

    try:
        out = C.run_driver("DrvWindows", lines)
        for (what, case, exp), got in zip(expect, out):
            if exp is None:
                continue
            res.cov["traces_validated_against_impl"] += 1
            if exp != got:
                mismatches.append({"op": what, "case": case, "impl": exp[:300], "model": got[:300]})
        for idx, name, mk, (o, h, f, dO, dH, dF), case in re_cases:
            with warnings.catch_warnings():
                warnings.simplefilter("ignore")
                deb = mk()
                real = deb.apply_location(o, h, f, dO, dH, dF)
                line = out[idx]
                if name == "DeltaChange":
                    # the driver was given (doyF, doyH, doyO) in the (obs, hist, fut) slots: its "fut" column is obs
                    parts = []
                    for part in (line.split("|") if line else []):
                        c, iadj, a, b, cc = part.split(";")
                        parts.append(";".join([c, iadj, cc, b, a]))
                    line = "|".join(parts)
                rebuilt = reassemble(deb, name, line, o, h, f, dO, dH, dF)
            res.cov["traces_validated_against_impl"] += 1
            res.count(("reassemble", name, case["L"], case["S"], case["nF"]), True, sample=case)
            if not np.array_equal(real, rebuilt, equal_nan=True):
                nbad = int((~((real == rebuilt) | (np.isnan(real) & np.isnan(rebuilt)))).sum())
                mismatches.append({"op": "reassemble", "case": case, "impl": f"{nbad} steps differ from the window-wise reassembly", "model": ""})
    except Exception as ex:  # noqa: BLE001
        mismatches.append({"op": "driver", "case": {}, "impl": "", "model": f"{type(ex).__name__}: {str(ex)[:300]}"})
    if mismatches:
        res.tie_broken.append(f"correspondence DrvWindows/reassembly: {len(mismatches)} mismatches, first: {mismatches[0]}")
    cal_mismatches = probes.calendar_correspondence(rng, tier, res, problems)
    if cal_mismatches:
        res.tie_broken.append(f"correspondence DrvCalendar: {len(cal_mismatches)} mismatches, first: {cal_mismatches[0]}")
        mismatches = mismatches + cal_mismatches

    # ---- the property's oracle on the real code: perturb everything outside the neighbourhood of a target day.
    # Systematic over debiaser x scenario: calendars of the reference series (unequal lengths / equal lengths starting on the
    # same calendar day of different years, so that the leap day sits elsewhere), and instances whose window settings were
    # changed by attribute assignment after construction (only the step, only the length, both) and are applied through `apply`.
    reps = 1 if tier == "quick" else 6
    if force_search or not lean_ok or mismatches:
        reps *= 3
    all_names = list(probes.window_debiasers(31, 1))
    extra_names = list(probes.window_debiasers_extra(31, 1))
    scenarios = ["unequal", "equal-shifted", "reconf-step", "reconf-length", "reconf-both", "partial-times", "reordered"]
    for rep in range(reps):
        # tas settings of all eight debiasers x every scenario; further deterministic configurations (pr: multiplicative scaling,
        # relative SDM, the censored-gamma model fitted by an optimiser; other distributions; other ISIMIP variables) x two
        # scenarios each; partial-year reference records (a window of the target day holds no reference value at all)
        plan = [(name, scen) for name in all_names for scen in scenarios]
        if tier == "quick" and not (force_search or not lean_ok or mismatches):
            # quick: every second further configuration per run (which ones alternates with the seed), one scenario each
            plan += [(name, "unequal" if (i // 2 + rep + C.seed()) % 2 else rng.choice(scenarios[1:]))
                     for i, name in enumerate(extra_names) if (i + rep + C.seed()) % 2 == 0]
        else:
            plan += [(name, scen) for name in extra_names for scen in ("unequal", rng.choice(scenarios[1:]))]
        plan += [("LinearScaling", "partial-year"), ("DeltaChange", "partial-year"), ("LinearScaling-pr", "partial-year")]
        for name, scen in plan:
            for _once in (0,):
                nprs = np.random.RandomState(rng.randint(0, 2**31 - 1))
                y0 = rng.randint(1960, 2080)
                leap = rng.random() < 0.5
                if leap:
                    y0 -= y0 % 4
                if rng.random() < 0.15:
                    y0 = rng.choice([2099, 2100, 2120, 1920])  # spans touching a century year that is not a leap year
                aligned = None
                if scen == "equal-shifted":
                    # more than four years from 1 January of different years: each span holds exactly one 31 December of a leap year,
                    # at different positions, so the day-of-year axes of the aligned series really differ
                    n_ref = 1461 + rng.randint(0, 40)
                    aligned = "OHF"  # all three aligned, pairwise different leap positions: any confusion of two series' index sets shows
                    kH = rng.randint(1, 3)
                    jF = rng.choice([j for j in (1, 2, 3) if (20 + j) % 4 not in (0, (-kH) % 4)])
                    dO = probes.dates_from(datetime.date(y0 - 20, 1, 1), n_ref)
                    dH = probes.dates_from(datetime.date(y0 - 20 - kH, 1, 1), n_ref)
                else:
                    dO = probes.dates_from(datetime.date(y0 - 20, 1, 1), 365 * 2 + rng.randint(0, 40))
                    dH = probes.dates_from(datetime.date(y0 - 24, 1, 1), 365 * 2 + rng.randint(0, 40))
                dF = probes.dates_from(datetime.date(y0, 1, 1) + datetime.timedelta(days=rng.choice([0, rng.randint(0, 364)])), 365 * 2 + rng.randint(0, 40))
                if aligned and "F" in aligned:
                    dF = probes.dates_from(datetime.date(y0 + jF, 1, 1), dH.size)  # aligned with cm_hist and obs, a third leap position
                omitted = ()
                if scen == "partial-times":
                    # some time arrays omitted: the library infers a daily calendar from 1950-01-01 for those (and only those)
                    combos = [("obs",), ("cm_hist",), ("obs", "cm_hist"), ("cm_future",), ("obs", "cm_future")]
                    omitted = combos[(sum(map(ord, name)) + rep + C.seed()) % len(combos)]  # cycles over debiasers, repetitions and seeds
                    inferred = datetime.date(1950, 1, 1)
                    if "obs" in omitted:
                        dO = probes.dates_from(inferred, dO.size)
                    if "cm_hist" in omitted:
                        dH = probes.dates_from(inferred, dH.size)
                    if "cm_future" in omitted:
                        dF = probes.dates_from(inferred, dF.size)
                if scen == "partial-year":
                    # the reference records cover only part of the year (e.g. March..October of several years)
                    m0, m1 = rng.choice([(3, 10), (4, 9), (5, 11), (2, 8)])
                    if name.startswith("DeltaChange"):  # DeltaChange corrects obs: its reference records are the two model series
                        dH = dH[np.array([m0 <= d.month <= m1 for d in dH])]
                        if rng.random() < 0.5:
                            dF = dF[np.array([m0 <= d.month <= m1 for d in dF])]
                    else:
                        dO = dO[np.array([m0 <= d.month <= m1 for d in dO])]
                        if rng.random() < 0.5:
                            dH = dH[np.array([m0 <= d.month <= m1 for d in dH])]
                cheap = name in ("LinearScaling", "DeltaChange", "QuantileMapping", "LinearScaling-pr", "DeltaChange-pr")
                S = rng.choice([1, 5, 15, 31] if cheap else [5, 15, 31])
                L = S + rng.choice([0, 4, 16, 30])
                if scen == "equal-shifted":
                    S = 1  # a window displaced by a single day is then always outside the allowed neighbourhood
                    L = rng.choice([5, 9, 21, 31])
                if scen == "reconf-step":
                    S = rng.choice([1, 5] if cheap else [5])
                    L = S + rng.choice([16, 30])  # room for a larger step at construction
                if name not in all_names and not name.startswith(("LinearScaling", "DeltaChange")):
                    L = max(L, 31)  # precipitation / non-normal fits: enough (wet) values in every window to fit a distribution
                elif name not in all_names:
                    L = max(L, 15)  # multiplicative scaling of precipitation: no all-dry window (0/0)
                Ln, Sn = L + (L % 2 == 0), S + (S % 2 == 0)
                k_near = Ln // 2 + Sn // 2
                storage = []
                if scen == "reordered":
                    # the time steps are not stored chronologically (reversed, shuffled, interior blocks swapped with the end
                    # points left in place): locality is a statement about calendar days, not about storage positions
                    (kO, pO), (kH, pH), (kF, pF) = (probes.storage_perm(rng, d.size) for d in (dO, dH, dF))
                    if kF == "none" and kO == "none":
                        kF, pF = "inner-blocks", probes.storage_perm(random.Random(rng.randint(0, 10**9)), dF.size)[1]
                    dO, dH, dF = dO[pO], dH[pH], dF[pF]
                    storage = [kO, kH, kF]
                if name in all_names:
                    mk, data_kind = (lambda LL, SS: probes.window_debiasers(LL, SS)[name]()), "tas"
                else:
                    mk, data_kind = (lambda LL, SS: probes.window_debiasers_extra(LL, SS)[name][0]()), probes.window_debiasers_extra(31, 1)[name][1]
                if data_kind == "tas":
                    o, h, f = probes.tas_like(nprs, dO, 283, 3), probes.tas_like(nprs, dH, 285, 4), probes.tas_like(nprs, dF, 287, 4)
                elif data_kind == "pr":
                    o, h, f = probes.pr_like(nprs, dO, 0.5, 4.0), probes.pr_like(nprs, dH, 0.6, 3.0), probes.pr_like(nprs, dF, 0.55, 3.5)
                else:  # all-wet precipitation: every value above every censoring threshold
                    o, h, f = probes.pr_like(nprs, dO, 1.1, 4.0), probes.pr_like(nprs, dH, 1.1, 3.0), probes.pr_like(nprs, dF, 1.1, 3.5)
                # the neighbourhood is defined by the CALENDAR day of year, computed independently of the library
                doyO, doyH, doyF = probes.indep_doy(dO), probes.indep_doy(dH), probes.indep_doy(dF)
                enc = probes.pick_kind(rng)  # the same days in one of the time encodings the library accepts
                rawO, rawH, rawF = dO, dH, dF
                dO, dH, dF = probes.present(rawO, enc), probes.present(rawH, enc), probes.present(rawF, enc)
                for dd, shown in ((rawO, dO), (rawH, dH), (rawF, dF)):
                    probes.check_calendar(dd, problems, what="locality/calendar", presented=shown)
                is_dc = name.startswith("DeltaChange")
                corrected_doy = doyO if is_dc else doyF
                cand = [i for i, d in enumerate(corrected_doy) if d in (1, 2, 365, 366, 59, 60)]
                ti = rng.choice(cand) if cand and rng.random() < 0.5 else rng.randrange(corrected_doy.size)
                if scen == "partial-year":
                    # a target day whose neighbourhood holds no value of the partial reference record
                    part_doy = doyH if is_dc else doyO
                    cand = [i for i, d in enumerate(corrected_doy) if not near_mask(Ln // 2 + Sn // 2, int(d), part_doy).any()]
                    if not cand:
                        continue
                    ti = rng.choice(cand)
                t = int(corrected_doy[ti])
                kind = rng.choice(["x3", "+1e6", "nan", "spike", "spike"])
                case = {"what": "locality/" + name, "scenario": scen, "L": L, "S": S, "target_index": ti, "target_doy": t, "perturbation": kind,
                        "startO": str(rawO[0]), "startH": str(rawH[0]), "startF": str(rawF[0]), "nO": int(dO.size), "nH": int(dH.size), "nF": int(dF.size),
                        "leap": leap, "seed": C.seed(), "time_encoding": enc, "time_arrays_omitted": list(omitted), "storage_order": storage, "aligned": aligned}
                if scen.startswith("reconf"):
                    L0 = L if scen == "reconf-step" else L + rng.choice([10, 30])
                    # a stale (larger) step is what would widen the neighbourhood: prefer a larger step at construction
                    S0 = S if scen == "reconf-length" else rng.choice([x for x in (5, 15, 31) if S < x <= L0] or [x for x in (1, 5, 15) if x != S and x <= L0] or [S])
                    case.update({"constructed_with": [L0, S0]})

                tO, tH, tF = (None if "obs" in omitted else dO), (None if "cm_hist" in omitted else dH), (None if "cm_future" in omitted else dF)

                def run_deb(oo, hh, ff):
                    if not scen.startswith("reconf"):
                        return mk(L, S).apply_location(oo, hh, ff, tO, tH, tF)
                    d = mk(L0, S0)
                    d.running_window_length, d.running_window_step_length = L, S
                    return d.apply(oo[:, None, None], hh[:, None, None], ff[:, None, None], progressbar=False,
                                   time_obs=dO, time_cm_hist=dH, time_cm_future=dF)[:, 0, 0]

                def perturb(x, doys):
                    far = ~near_mask(k_near, t, doys)
                    y = x.copy()
                    if data_kind == "pr_wet" and kind == "nan":
                        y[far] = y[far] * 7  # (kept wet and finite)
                    elif kind == "spike":
                        # a handful of corrupt values far away (a goodness-of-fit test or a fallback of THEIR windows may react;
                        # the target's window must not)
                        fi = np.where(far)[0]
                        if fi.size:
                            sel = fi[np.unique(np.linspace(0, fi.size - 1, min(5, fi.size)).astype(int))]
                            y[sel] = y[sel] * 50 + (1e6 if data_kind == "tas" else 1e3)
                    elif kind == "x3":
                        y[far] = y[far] * 3
                    elif kind == "x1.01":
                        y[far] = y[far] * 1.01
                    elif kind == "+1e6":
                        y[far] = y[far] + 1e6
                    else:
                        y[far] = np.nan
                    return y, int(far.sum())

                a = b = None
                with warnings.catch_warnings():
                    warnings.simplefilter("ignore")
                    try:
                        a = run_deb(o, h, f)
                    except Exception as ex:  # noqa: BLE001
                        if scen != "partial-year" and name in all_names:
                            # (an empty calibration window, or too few wet values, making a fit raise is not a locality statement)
                            problems.append((f"{name}: {type(ex).__name__} on the unperturbed input: {str(ex)[:100]}", case))
                        a = None
                        res.extra["locality_skipped_unperturbed_run_raises"] = res.extra.get("locality_skipped_unperturbed_run_raises", 0) + 1
                    # far-away data that makes an UNRELATED window's fit raise (NaN, an absurd magnitude) is not a locality
                    # statement: fall back to milder perturbations, and skip (counted) if even those raise
                    for attempt_kind in ([kind] + [k2 for k2 in ("+1e6", "x3", "x1.01") if k2 != kind]) if a is not None else []:
                        kind = case["perturbation"] = attempt_kind
                        o2, n1 = perturb(o, doyO)
                        h2, n2 = perturb(h, doyH)
                        f2, n3 = perturb(f, doyF)
                        try:
                            b = run_deb(o2, h2, f2)
                            break
                        except Exception:  # noqa: BLE001
                            b = None
                    if a is not None and b is None:
                        res.extra["locality_skipped_perturbed_run_raises"] = res.extra.get("locality_skipped_perturbed_run_raises", 0) + 1
                if a is None or b is None:
                    continue
                same = (a[ti] == b[ti]) or (np.isnan(a[ti]) and np.isnan(b[ti]))
                if same and kind != "+1e6" and scen in ("equal-shifted", "partial-times", "reordered", "partial-year", "unequal"):
                    # some methods ignore the drawn perturbation (ISIMIP drops NaNs; a few spikes may miss a misplaced window):
                    # where the scenario is about WHICH steps a window takes, also shift all far-away data
                    kind0, kind = kind, "+1e6"
                    with warnings.catch_warnings():
                        warnings.simplefilter("ignore")
                        try:
                            b2 = run_deb(perturb(o, doyO)[0], perturb(h, doyH)[0], perturb(f, doyF)[0])
                            b = b2
                            case["perturbation"] = kind0 + ", then +1e6"
                        except Exception:  # noqa: BLE001
                            kind = kind0
                res.count(("loc", name, scen, L, S, t, kind), n1 + n2 + n3 > 0, sample=case if len(res.cov["samples"]) < 6 else None)
                if scen == "partial-year":
                    # nothing of the partial record is near the target: whatever the value is (NaN for an empty sample), it must
                    # not depend on the far-away data
                    if not (a[ti] == b[ti] or (np.isnan(a[ti]) and np.isnan(b[ti]))):
                        problems.append((f"{name} [{scen}]: value on day {t} changed ({a[ti]!r} -> {b[ti]!r}) although the reference record has no value within L//2+S//2={k_near} days of it and only such far-away data was changed", case))
                elif np.isnan(a[ti]) and np.isnan(b[ti]):
                    # a legitimately undefined value (e.g. a one-day window on day 366 and a reference record without a leap
                    # day: empty sample) stays undefined: unchanged.  Counted; that every step is DEFINED is C07's statement.
                    res.extra["locality_targets_nan_in_both_runs"] = res.extra.get("locality_targets_nan_in_both_runs", 0) + 1
                elif not (a[ti] == b[ti] and np.isfinite(a[ti])):
                    problems.append((f"{name} [{scen}]: value on day {t} changed ({a[ti]!r} -> {b[ti]!r}) although only data more than L//2+S//2={k_near} days away was changed", case))
                # the window really reaches L//2 days: LinearScaling with S = 1 must react to a change at distance exactly L//2
                if name == "LinearScaling" and Sn == 1 and Ln >= 3 and scen != "partial-year":
                    at = near_mask(Ln // 2, t, doyH) & ~near_mask(Ln // 2 - 1, t, doyH)
                    if at.any():
                        h3 = h.copy()
                        h3[at] += 10.0
                        with warnings.catch_warnings():
                            warnings.simplefilter("ignore")
                            c3 = run_deb(o, h3, f)
                        res.count(("reach", L, t), True)
                        if c3[ti] == a[ti]:
                            problems.append((f"LinearScaling [{scen}]: changing cm_hist exactly {Ln // 2} days from day {t} did not change the result: the window is narrower than documented", case))

    # ---- the same oracle on multi-year series with inter-annual structure, perturbed unevenly across the years
    interannual_cases(tier, res, problems, bool(force_search or not lean_ok or mismatches))

    # ---- the same oracle for every kind of input object `apply` accepts (dtypes, masked arrays with invalid cells, layouts, grids)
    presentation_cases(tier, res, problems, bool(force_search or not lean_ok or mismatches))

    # ---- the same oracle on one instance reused after its time arrays were refilled in place
    reuse_cases(tier, res, problems, bool(force_search or not lean_ok or mismatches))

    seen = set()
    for p, case in problems:
        key = (p.split(":")[0][:40], case.get("what"))
        if key in seen:
            continue
        seen.add(key)
        res.violations.append((f"{case.get('what')}: {p}", {"property": PROP, "failing_input": case, "problem": p, "signature": {"what": case.get("what")}}))
    if res.tie_broken and not problems:
        res.violations.append(("proof obligation / correspondence no longer checks: " + "; ".join(res.tie_broken)[:600],
                               {"property": PROP, "failing_input": None, "broken": res.tie_broken, "mismatches": mismatches[:5]}))
    return res
