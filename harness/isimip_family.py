"""
The rational test-double family for ISIMIP step 6: `harness/families.py`'s `RatSigmoid` with a `fit` that honours
the fixed arguments step 6 passes (`floc`, `fscale`) — the Python twin of `Model.Isimip.ratSigmoid`:

    loc   = floc   if given else mean(x)
    scale = fscale if given else mean(|x - loc|)
    the fit raises ValueError on an empty sample and when scale == 0   (Lean: `fit = none`)

`rice_typed()` returns an object whose *type* is `type(scipy.stats.rice)` (step 6 tests exactly that to decide that
`fscale` must not be passed) with the same three methods bound as instance attributes.
"""
import numpy as np

from harness import families

_CACHE = {}


def _fit(data, floc=None, fscale=None, **kwargs):
    data = np.asarray(data, dtype=float)
    if data.size == 0:
        raise ValueError("RatSigmoid fit: empty sample")
    loc = float(floc) if floc is not None else float(np.mean(data))
    scale = float(fscale) if fscale is not None else float(np.mean(np.abs(data - loc)))
    if scale == 0:
        raise ValueError("RatSigmoid fit: scale is 0")
    return (loc, scale)


def _cls():
    if "cls" not in _CACHE:
        base = type(families.RatSigmoid())

        class IsiRatSigmoid(base):
            def fit(self, data, floc=None, fscale=None, **kwargs):
                return _fit(data, floc=floc, fscale=fscale)

            def __repr__(self):
                return "IsiRatSigmoid()"

        _CACHE["cls"] = IsiRatSigmoid
    return _CACHE["cls"]


def IsiRatSigmoid():
    return _cls()()


def rice_typed():
    """same family, but `type(obj) is type(scipy.stats.rice)` holds"""
    import scipy.stats

    plain = IsiRatSigmoid()
    obj = type(scipy.stats.rice)(a=0.0, name="rice_double")
    obj.fit = plain.fit
    obj.cdf = plain.cdf
    obj.ppf = plain.ppf
    return obj
