"""C09 — quantile-mapping transfer functions are monotone (rank preserving) within one calibration window.

Lean: Props.C09 (theorems about the shared layer-N model).  Tie: tier A (regenerated LinearScaling / threshold_cdf_vals /
step-6 count kernels = model) + tier B (`debiasers_corr` for LS / QM / CDFt, `isimip_corr` for the ISIMIP window pipeline incl.
zero-valued thresholds, `precip_qm_tie` / DrvPrecipQM for QuantileMapping with the hurdle / ignore-zeros / censored models).
Oracle on the real code: for all pairs i, j of one window with x_i < x_j require out_i <= out_j.
Known findings (recorded, not repaired): F16 (censored gamma model, two sub-threshold inputs), F22 (ISIMIP with
event_likelihood_adjustment=True: `ela_cases` / `run_ela_case`, control run with the option off).
"""
import random
import warnings
from fractions import Fraction

import numpy as np

from harness import common as C

PROP = "C09"
TARGETS = ["IbicusModel.Props.C09"]
GEN = ["Debiasers", "StatsKernels", "IsimipFreq"]
TARGETS += ["IbicusModel.Props.Capstone3"]  # capstone 3: C09 stated on the denotation of the regenerated per-window pieces (Gen.Debiasers kernels, Gen.DebWin programs, Gen.IsimipStep6.step6 / apply_on_window); the audit imports it
GEN += ["Loops", "GridLoops", "DebWin", "Debiasers", "IsimipStep6"]  # the groups capstone 3 (through Props.Capstone) composes (lean_phase regenerates every transitively imported group anyway)

ECDF_METHODS = ["step_function", "linear_interpolation", "kernel_density"]
IECDF_METHODS = ["inverted_cdf", "averaged_inverted_cdf", "closest_observation", "interpolated_inverted_cdf", "hazen",
                 "weibull", "linear", "median_unbiased", "normal_unbiased"]
# iecdf methods whose result is a copy of a sample value (rank transfer): no float slack at all
DISCRETE_IECDF = ("inverted_cdf", "closest_observation")
F16_SIGNATURE = {"what": "censored_qm_subthreshold_pair"}
F22_SIGNATURE = {"what": "isimip_event_likelihood_adjustment_reorders"}
KNOWN_SIGNATURES = (F16_SIGNATURE, F22_SIGNATURE)


# ------------------------------------------------------------------ the property's relation
def order_violation(x, out, slack=0.0):
    """first pair (i, j) with x[i] < x[j] and out[i] > out[j] + slack; None if the relation holds.
    `slack` is an absolute tolerance; it is 0 wherever the outputs are copies of sample values / bounds / draws
    (rank transfer) and 1e-12*scale only where the value is computed by floating-point special functions,
    interpolation or the extrapolation addition (two *different* exact values one rounding apart may swap)."""
    x = np.asarray(x, dtype=float)
    out = np.asarray(out, dtype=float)
    n = x.size
    order = np.argsort(x, kind="stable")
    xs, os_ = x[order], out[order]
    best, besti = -np.inf, None
    k = 0
    while k < n:
        m = k
        while m + 1 < n and xs[m + 1] == xs[k]:
            m += 1
        grp = os_[k:m + 1]
        if besti is not None:
            g = int(np.argmin(grp))
            if grp[g] < best - slack:
                return int(order[besti]), int(order[k + g])
        g = int(np.argmax(grp))
        if grp[g] > best:
            best, besti = float(grp[g]), k + g
        k = m + 1
    return None


def scale_of(*arrs):
    """largest magnitude present (no floor: precipitation fluxes in kg m-2 s-1 are ~1e-5 … 1e-9)"""
    m = 0.0
    for a in arrs:
        a = np.asarray(a, dtype=float)
        a = a[np.isfinite(a)]
        if a.size:
            m = max(m, float(np.abs(a).max()))
    return m


# ------------------------------------------------------------------ data
def tas_like(nprs, n, mu, sd, ties):
    x = nprs.normal(mu, sd, n)
    if ties:
        x = np.round(x * 2) / 2
    return x


def pr_like(nprs, n, dry, scale, ties, grid=0.1):
    wet = nprs.random(n) >= dry
    if wet.sum() < 6:  # enough wet values for a fit
        wet[nprs.choice(n, 6, replace=False)] = True
    x = np.where(wet, nprs.gamma(0.8, scale, n), 0.0)
    if ties:
        x = np.where(wet, np.maximum(grid, np.round(x / grid) * grid), 0.0)
    return x


def pr_flux(nprs, n, dry, drizzle, unit, shape=0.85, mean_mm=4.0):
    """precipitation as a flux: `unit` = one mm/day in the data's units (1/86400 for kg m-2 s-1, smaller for other unit systems);
    a fraction `dry` of exact zeros, a fraction `drizzle` of DISTINCT tiny positive values (numerical drizzle, in SI units
    below 1e-8 — positive, hence not "zero values" for any randomisation), the rest gamma amounts"""
    x = nprs.gamma(shape, mean_mm / shape, n) * unit
    u = nprs.random(n)
    x[u < dry] = 0.0
    dz = (u >= dry) & (u < dry + drizzle)
    x[dz] = np.sort(nprs.uniform(1e-4, 9e-4, dz.sum()))[nprs.permutation(dz.sum())] * unit  # 0.0001 … 0.0009 mm/day
    if (x > 0).sum() < 6:
        k = nprs.choice(n, 6, replace=False)
        x[k] = nprs.gamma(shape, mean_mm / shape, 6) * unit
    return x


THR_GRIDS = [(0.1, 1), (0.1, 1), (0.1, 2), (0.1, 5), (0.05, 1), (0.05, 2), (0.25, 1), (0.25, 2), (1.0, 1)]  # (resolution mm/day, threshold / resolution)


def pr_on_threshold(nprs, n, dry, shape, mean_mm, res_mm, unit, kthr, style):
    """Precipitation whose values sit exactly ON a configured threshold `thr = kthr * (res_mm * unit)` (the boundary of the case
    split "under the threshold" / "not under the threshold"), next to exact zeros and ordinary amounts:
      style "gauge"    record at gauge resolution res_mm (0.1 mm data with threshold 0.1: the smallest reportable amount IS the
                       threshold and occurs many times; with kthr > 1 there are also reportable amounts under the threshold)
      style "floored"  continuous amounts, drizzle under the threshold floored at the threshold (about half of it; the rest stays as
                       distinct sub-threshold values)
    The threshold and the grid values are the SAME float product k * (res_mm * unit), so that equality with the threshold is exact."""
    step = res_mm * unit
    thr = kthr * step
    amounts = nprs.gamma(shape, mean_mm / shape, n)
    wet = nprs.random(n) >= dry
    if style == "gauge":
        x = np.round(amounts / res_mm) * step
    else:
        x = amounts * unit
        under = x < thr
        x = np.where(under & (nprs.random(n) < 0.5), thr, x)
    x = np.where(wet, x, 0.0)
    if (x > thr).sum() < 8:  # enough uncensored values for a fit
        k = nprs.choice(n, 8, replace=False)
        x[k] = thr + (1 + np.round(nprs.gamma(shape, mean_mm / shape, 8) / res_mm)) * step
    return x


def spice_future(nprs, F, H, lo_floor=None):
    """adds what the quantifier names: values outside the calibration range, values equal to sample points, ties"""
    F = F.copy()
    n = F.size
    span = max(1e-6, float(H.max() - H.min()))
    extra = [H.min() - 0.3 * span * nprs.random(), H.min() - 1e-9 * span, H.min(), H.max(), H.max() + 1e-9 * span,
             H.max() + 0.5 * span * nprs.random(), H.max() + 3 * span, float(nprs.choice(H)), float(nprs.choice(H))]
    if lo_floor is not None:
        extra = [max(lo_floor, e) for e in extra]
    idx = nprs.choice(n, min(n, len(extra)), replace=False)
    for i, e in zip(idx, extra):
        F[i] = e
    if n >= 6:  # exact ties inside the future series
        a, b = nprs.choice(n, 2, replace=False)
        F[a] = F[b]
    return F


TAIL_SIGMAS = [6.5, 7.0, 7.5, 8.0, 8.5, 9.0, 10.0, 12.0, 40.0]


def far_tail(nprs, F, H, positive=False):
    """several DISTINCT future values far outside the calibration range, where a fitted cdf saturates: mean ± 6.5 … 40 sd
    of the calibration sample (a normal cdf is within 1e-10 of 1 from 6.4 sd and exactly 1.0 in doubles from 8.3 sd; exactly
    0.0 only beyond 38 sd); for positive variables the lower tail is a ladder of tiny positive values instead"""
    F = F.copy()
    n = F.size
    ref = H[H > 0] if positive and (H > 0).sum() > 1 else H
    mu, sd = float(ref.mean()), max(float(ref.std()), 1e-12 * max(1.0, abs(float(ref.mean()))))
    ks = list(nprs.choice(TAIL_SIGMAS, 5, replace=False)) + [8.5, 12.0]
    up = [mu + k * sd * nprs.uniform(0.97, 1.03) for k in ks]
    if positive:
        up += [float(ref.max()) * m for m in (30.0, 80.0, 300.0)]
        lo = [float(ref.min()) * m for m in (1e-2, 1e-5, 1e-9, 1e-30)]
    else:
        lo = [mu - k * sd * nprs.uniform(0.97, 1.03) for k in ks]
    extra = up + lo
    nprs.shuffle(extra)
    idx = nprs.choice(n, min(max(2, n // 3), len(extra)), replace=False)
    for i, e in zip(idx, extra):
        F[i] = e
    return F


# ------------------------------------------------------------------ runners on the real code
def _quiet():
    import logging

    from ibicus.utils import get_library_logger

    get_library_logger().setLevel(logging.CRITICAL)


def run_window(deb, o, h, f, method="apply_on_window"):
    with warnings.catch_warnings(), np.errstate(all="ignore"):
        warnings.simplefilter("ignore")
        return np.asarray(getattr(deb, method)(o.copy(), h.copy(), f.copy()), dtype=float)


def build_debiaser(kind, params, **extra):
    """(real debiaser, relative float slack) for a configuration; `extra` overrides constructor arguments
    (running-window settings of the sequence cases)"""
    from ibicus.debias import CDFt, LinearScaling, QuantileMapping
    import scipy.stats

    slack = 1e-12
    with warnings.catch_warnings():
        warnings.simplefilter("ignore")
        if kind == "LS":
            deb, slack = LinearScaling(delta_type=params["delta"], **extra), 0.0
        elif kind == "QMparam":
            dist = {"norm": scipy.stats.norm, "gamma": scipy.stats.gamma}[params["dist"]]
            deb = QuantileMapping(distribution=dist, mapping_type="parametric", detrending=params["detrending"], **extra)
        elif kind == "QMpr" and params.get("construct") == "direct":
            # the other construction path of the same configuration: the model object handed to the plain constructor
            from ibicus.utils import gen_PrecipitationGammaLeftCensoredModel

            dist = gen_PrecipitationGammaLeftCensoredModel(censoring_threshold=censoring_threshold(params),
                                                           censor_in_ppf=bool(params.get("censor_in_ppf", True)))
            deb = QuantileMapping(distribution=dist, mapping_type="parametric", detrending=params["detrending"], **extra)
        elif kind == "QMpr":
            deb = QuantileMapping.for_precipitation(model_type=params["model"], detrending=params["detrending"],
                                                    censoring_threshold=censoring_threshold(params), **extra)
        elif kind == "QMnonparam":
            deb = QuantileMapping(distribution=None, mapping_type="nonparametric", detrending=params["detrending"], **extra)
        elif kind == "CDFt":
            kw = dict(running_window_mode=False, running_window_mode_over_years_of_cm_future=False)
            kw.update(extra)
            deb = CDFt(SSR=params["ssr"], delta_shift=params["shift"], ecdf_method=params["em"], iecdf_method=params["im"], **kw)
            if params["im"] in DISCRETE_IECDF and params["shift"] != "multiplicative":
                slack = 0.0
        else:
            raise ValueError(kind)
    return deb, slack


def make_case(kind, params, seed):
    """(debiaser, obs, H, F, slack_rel, params) for one replayable case; everything derives from `seed`"""
    nprs = np.random.RandomState(seed)
    nO, nH, nF = (int(nprs.randint(12, 90)) for _ in range(3))
    ties = bool(nprs.random() < 0.4)
    data = params.get("data", "tas")
    if data == "tas":
        o, h, f = tas_like(nprs, nO, 283, 3, ties), tas_like(nprs, nH, 285, 4, ties), tas_like(nprs, nF, 287, 5, ties)
        f = spice_future(nprs, f, h)
    elif data == "pos":
        o, h, f = (np.abs(tas_like(nprs, n, 6, 2, ties)) + 0.25 for n in (nO, nH, nF))
        f = spice_future(nprs, f, h, lo_floor=0.01)
    elif data == "degc":
        # quantifier "for all series": SIGNED data around zero (temperature in degC, a wind component, an anomaly); the three
        # sample means take either sign independently, so a ratio of two means (multiplicative detrending) is negative in about
        # half of the cases
        mus = [float(nprs.choice([-1.0, 1.0]) * nprs.uniform(0.3, 3.0)) for _ in range(3)]
        o, h, f = (tas_like(nprs, n, mu, sd, ties) for n, mu, sd in ((nO, mus[0], 3), (nH, mus[1], 4), (nF, mus[2], 5)))
        f = spice_future(nprs, f, h)
    elif data == "neg":
        # a variable that is negative throughout (degC in a polar winter, depth below a datum): the mirror image of "pos"
        o, h, f = (-(np.abs(tas_like(nprs, n, 6, 2, ties)) + 0.25) for n in (nO, nH, nF))
        f = spice_future(nprs, f, h)
    elif data == "prflux":
        # flux magnitudes: obs wetter (fewer dry days, comparable mean) so that the lowest ranks map to distinct positive values
        unit = float(nprs.choice([1 / 86400, 1e-1 / 86400, 1e-2 / 86400, 1e-4 / 86400]))
        nO, nH, nF = (int(nprs.randint(150, 500)) for _ in range(3))
        dry = float(nprs.uniform(0.15, 0.5))
        dz = float(nprs.uniform(0.08, 0.25))
        o = pr_flux(nprs, nO, float(nprs.uniform(0.0, 0.08)), 0.0, unit, 0.9, 3.0 * nprs.uniform(0.7, 1.5))
        h = pr_flux(nprs, nH, dry, dz, unit, 0.8, 5.0)
        f = pr_flux(nprs, nF, dry * nprs.uniform(0.8, 1.2), dz, unit, 0.8, 5.0 * nprs.uniform(0.8, 1.5))
        params = {**params, "_unit": unit}
    elif data == "prthr":
        # quantifier "for all series including ties, zeros …" x "parametric branches": series whose values lie exactly ON the
        # configured censoring threshold (ties there), one ulp under / above it, exact zeros, and ordinary amounts; obs wetter than
        # cm_hist so that the lowest ranks (censored days) are mapped to distinct non-zero amounts
        unit = float(nprs.choice([1.0, 1.0, 1 / 86400, 1e-2 / 86400]))
        res_mm, kthr = THR_GRIDS[int(nprs.randint(len(THR_GRIDS)))]
        style = str(nprs.choice(["gauge", "gauge", "floored"]))
        thr = kthr * (res_mm * unit)
        nO, nH, nF = (int(nprs.randint(120, 420)) for _ in range(3))
        dry = float(nprs.uniform(0.2, 0.6))
        o = pr_on_threshold(nprs, nO, float(nprs.uniform(0.0, 0.1)), 0.9, 5.0 * nprs.uniform(0.8, 1.6), res_mm, unit, kthr, style)
        h = pr_on_threshold(nprs, nH, dry, 0.7, 3.0, res_mm, unit, kthr, style)
        f = pr_on_threshold(nprs, nF, min(0.9, dry * nprs.uniform(0.8, 1.2)), 0.7, 3.0 * nprs.uniform(0.8, 1.5), res_mm, unit, kthr, style)
        k = nprs.choice(nF, 12, replace=False)  # whatever the draw: some values ON the threshold and some exact zeros …
        f[k[:4]], f[k[4:7]] = thr, 0.0
        if nprs.random() < 0.5:  # … and the two neighbouring doubles of the threshold
            f[k[7:9]], f[k[9:11]] = np.nextafter(thr, 0.0), np.nextafter(thr, np.inf)
        params = {**params, "_thr_abs": float(thr), "_style": style}
    else:  # pr
        dry = params.get("dry", None)
        dry = float(nprs.uniform(0.05, 0.95)) if dry is None else dry
        sc = float(nprs.choice([0.5, 2.0, 8.0]))
        o = pr_like(nprs, nO, min(0.95, dry * nprs.uniform(0.6, 1.2)), sc * nprs.uniform(1, 4), ties)
        h = pr_like(nprs, nH, dry, sc, ties)
        f = pr_like(nprs, nF, min(0.95, dry * nprs.uniform(0.7, 1.3)), sc * nprs.uniform(0.7, 2), ties)
        f = spice_future(nprs, f, h[h > 0] if (h > 0).sum() > 1 else h, lo_floor=0.0)
        if nprs.random() < 0.5:  # drizzle just above the smallest positive value (CDFt SSR threshold) and exact zeros
            pos = np.concatenate([o[o > 0], h[h > 0], f[f > 0]])
            thr = pos.min()
            k = nprs.choice(nF, min(nF, 6), replace=False)
            f[k[:3]] = thr * np.array([1.0, 1.25, 1.6])[: k[:3].size]
            f[k[3:]] = 0.0
    if nprs.random() < 0.6:  # far tails: saturation of fitted cdfs / extrapolation far outside the calibration range
        f = far_tail(nprs, f, h, positive=(data not in ("tas", "degc", "neg")))
    if data in ("degc", "neg") and params.get("detrending") == "multiplicative":
        # the only guard of multiplicative detrending (qmGuard): neither mean is zero (the code divides by both)
        while float(np.mean(h)) == 0.0:
            h[0] += 0.5
        while float(np.mean(f)) == 0.0:
            f[0] += 0.5
        params = {**params, "_delta_negative": bool(np.mean(f) / np.mean(h) < 0)}
    deb, slack = build_debiaser(kind, params)
    return deb, o, h, f, slack, params


def describe(name, prob):
    if "malformed" in prob:
        return f"{name}: well-formed window, but the real code did not return a finite result of the right shape: {prob['malformed']}"
    where = f" [{prob['where']}]" if prob.get("where") else ""
    return f"{name}{where}: x[{prob['i']}]={prob['x_i']!r} < x[{prob['j']}]={prob['x_j']!r} but out {prob['out_i']!r} > {prob['out_j']!r}"


def censoring_threshold(params):
    """the censored model's threshold in the data's units (0.35 mm/day for the flux data)"""
    if "_thr_abs" in params:  # data built around the threshold (make_case, data "prthr"): the very float the data carries
        return params["_thr_abs"]
    thr = params.get("censoring_threshold", 0.1)
    return thr * params["_unit"] if "_unit" in params else thr


def run_case(kind, params, seed):
    """returns (problem | None, info).  problem = dict(i, j, xi, xj, oi, oj)"""
    _quiet()
    deb, o, h, f, slack, params = make_case(kind, params, seed)
    np.random.seed(seed % (2**31 - 1))
    method = "_apply_debiasing_steps" if kind == "CDFt" else "apply_on_window"
    base = {"n": int(f.size), "ties": int(f.size - np.unique(f).size), "zeros": int((f == 0).sum()),
            "outside": int(((f < h.min()) | (f > h.max())).sum())}
    if "_delta_negative" in params:
        base["delta_negative"] = params["_delta_negative"]
    try:
        out = run_window(deb, o, h, f, method)
    except Exception as ex:  # noqa: BLE001  well-formed input: the window function must return
        return ({"malformed": f"{type(ex).__name__}: {str(ex)[:200]}", "obs": o.tolist(), "cm_hist": h.tolist(), "cm_future": f.tolist()}, base)
    if out.shape != f.shape or not np.all(np.isfinite(out)):
        return ({"malformed": f"result shape {out.shape} for {f.shape} / non-finite values", "obs": o.tolist(), "cm_hist": h.tolist(),
                 "cm_future": f.tolist()}, base)
    sl = slack * scale_of(o, h, f, out)
    info = base
    if kind == "QMpr" and params["model"] == "censored":
        # what the theorem states for every draw: pairs with x_j >= thr (sub-threshold inputs collapsed to one tie class) …
        thr = censoring_threshold(params)
        info["at_thr"] = int((f == thr).sum())
        info["under_thr"] = int((f < thr).sum())
        v = order_violation(np.where(f < thr, -1.0, f), out, sl)
        if v is None:  # … and the F16 pairs: two distinct sub-threshold inputs
            sub = np.where(f < thr)[0]
            w = order_violation(f[sub], out[sub], sl)
            v = None if w is None else (int(sub[w[0]]), int(sub[w[1]]))
            info["f16"] = v is not None
    else:
        v = order_violation(f, out, sl)
    if v is None:
        return None, info
    i, j = v
    prob = {"i": i, "j": j, "x_i": float(f[i]), "x_j": float(f[j]), "out_i": float(out[i]), "out_j": float(out[j]),
            "obs": o.tolist(), "cm_hist": h.tolist(), "cm_future": f.tolist(), "slack_abs": sl}
    if "f16" in info:
        prob["f16"] = info["f16"]
    return prob, info


# ------------------------------------------------------------------ ISIMIP
ISIMIP_VARS = ["pr", "tas", "hurs", "sfcwind", "tasskew"]
TWO_SIDED = {"hurs": (0.0, 0.01, 99.99, 100.0), "tasskew": (0.0, 0.0001, 0.9999, 1.0), "prsnratio": (0.0, 0.0001, 0.9999, 1.0)}


def isimip_data(var, nprs, n, role, dry, mode="normal"):
    """series in the variable's units; `role` shifts the distribution a little between obs / hist / future.
    mode "allbounds" (two-sided variables): every value lies beyond a threshold (all rain / all snow, saturated / bone dry),
    so that the entries sent to the lower and to the upper bound add up to the window size"""
    k = {"obs": 0, "hist": 1, "fut": 2}[role]
    if mode == "allbounds":
        lb, lt, ut, ub = TWO_SIDED[var]
        p_up = [0.4, 0.5, 0.7][k] if dry is None else min(0.9, max(0.1, dry + 0.1 * k))
        up = nprs.random(n) < p_up
        if up.all() or not up.any():
            up[0], up[-1] = True, False
        x = np.where(up, ub, lb)
        if nprs.random() < 0.5:  # not only the bounds themselves: distinct values between threshold and bound
            j = nprs.choice(n, max(1, n // 5), replace=False)
            x[j] = np.where(up[j], nprs.uniform(ut, ub, j.size), nprs.uniform(lb, lt, j.size))
        return x
    if mode == "bell":  # pr / sfcwind in mm/day-like units, exact zeros the only dry values: bell-shaped observed wet amounts,
        # exponential-like model amounts (a free-location fit of the observations would get a negative location)
        if role == "obs":
            x = np.maximum(nprs.normal(3.0, 1.6, n), 0.0)
            x[nprs.random(n) < 0.2] = 0.0
        else:
            x = (4.0 + k - 1) * nprs.gamma(0.8, size=n)
            x[nprs.random(n) < 0.1] = 0.0
        return x
    if var == "pr":
        x = pr_like(nprs, n, min(0.95, max(0.03, dry + 0.05 * (k - 1))), (3.0 + 2 * k) / 86400, False)
        r = nprs.random()
        if r < 0.35:  # drizzle below the threshold 0.1/86400 and exact zeros
            idx = nprs.choice(n, max(1, n // 8), replace=False)
            x[idx] = nprs.uniform(0, 0.1 / 86400, idx.size)
        elif r < 0.7:  # numerical drizzle: distinct positive fluxes below 1e-8 kg m-2 s-1 next to exact zeros
            idx = nprs.choice(n, max(2, n // 6), replace=False)
            x[idx] = nprs.uniform(1e-9, 9e-9, idx.size)
        return x
    if var == "tas":
        return nprs.normal(283 + 2 * k, 3 + k, n)
    if var == "sfcwind":
        x = nprs.weibull(2.0, n) * (4 + k)
        idx = nprs.choice(n, max(1, n // 10), replace=False)
        x[idx] = nprs.choice([0.0, 0.005, 0.01], idx.size)
        return x
    if var == "hurs":
        x = 100 * nprs.beta(5 - k, 1.2 + 0.3 * k, n)
        idx = nprs.choice(n, max(1, n // 6), replace=False)
        x[idx] = nprs.choice([100.0, 99.995, 99.99, 0.0, 0.005], idx.size, p=[0.5, 0.15, 0.15, 0.1, 0.1])
        return x
    if var == "tasskew":
        x = nprs.beta(2 + 0.5 * k, 2.5, n)
        idx = nprs.choice(n, max(1, n // 8), replace=False)
        x[idx] = nprs.choice([0.0, 0.00005, 1.0, 0.99995], idx.size)
        return x
    raise ValueError(var)


def isimip_far_tail(var, nprs, f, h, shift):
    """far-tail future values for the parametric step 6 (in unshifted units): where the fitted cdf saturates"""
    f = f.copy()
    n = f.size
    if var == "tas":
        mu, sd = float(h.mean()), float(h.std())
        extra = [mu + sg * k * sd for k in nprs.choice(TAIL_SIGMAS, 3, replace=False) for sg in (1, -1)]
    elif var in ("pr", "sfcwind"):
        extra = [float(h.max()) * m for m in (5.0, 12.0, 30.0, 80.0, 300.0)]
    else:
        lb, lt, ut, ub = TWO_SIDED[var]
        extra = [ut - (ut - lt) * 10.0 ** -e for e in (3, 6, 9, 12)] + [lt + (ut - lt) * 10.0 ** -e for e in (3, 6, 9, 12)]
    nprs.shuffle(extra)
    idx = nprs.choice(n, min(max(2, n // 4), len(extra)), replace=False)
    for i, e in zip(idx, extra):
        f[i] = e
    return f


def make_isimip(var, overrides):
    from ibicus.debias import ISIMIP

    with warnings.catch_warnings():
        warnings.simplefilter("ignore")
        return ISIMIP.from_variable(var, **overrides)


def run_isimip_case(var, overrides, stage, seed, dry=None, mode="normal"):
    """stage in {"step4", "step6", "window"}; returns (problem | None, info)"""
    _quiet()
    nprs = np.random.RandomState(seed)
    if mode == "allbounds":
        dry = None if dry is None else dry
    else:
        dry = float(nprs.uniform(0.05, 0.95)) if dry is None else dry
    overrides = dict(overrides)
    shift = float(overrides.pop("_shift", 0.0))  # data, bounds and thresholds in units shifted by a constant
    nO, nH, nF = (int(nprs.randint(120, 330)) for _ in range(3)) if mode == "bell" else (int(nprs.randint(25, 120)) for _ in range(3))
    o, h, f = (isimip_data(var, nprs, n, role, dry, "normal" if mode in ("atthr", "degc") else mode) for n, role in ((nO, "obs"), (nH, "hist"), (nF, "fut")))
    if mode == "degc":  # quantifier "for all series": the unbounded variable in units in which the data change sign (tas in degC)
        off = float(nprs.choice([283.0, 285.0, 287.0, 300.0]))
        o, h, f = o - off, h - off, f - off
    if mode in ("normal", "degc") and nprs.random() < 0.5:
        f = isimip_far_tail(var, nprs, f, h, shift)
    if mode != "allbounds" and nprs.random() < 0.5 and nF >= 8:  # ties among the future values
        a = nprs.choice(nF, 4, replace=False)
        f[a[0]], f[a[2]] = f[a[1]], f[a[3]]
    if shift:
        lb, lt, ut, ub = TWO_SIDED[var]
        o, h, f = o - shift, h - shift, f - shift
        # exact images of the special values (x - shift is exact for these decimals only up to rounding: snap them)
        for arr in (o, h, f):
            for v in (lb, lt, ut, ub):
                arr[np.isclose(arr, v - shift, rtol=0, atol=1e-13)] = v - shift
        overrides.update(lower_bound=lb - shift, lower_threshold=lt - shift, upper_threshold=ut - shift, upper_bound=ub - shift)
    deb = make_isimip(var, overrides)
    if mode == "atthr":
        # quantifier "for all series including ties … bounded ISIMIP variables": values exactly ON the debiaser's own lower / upper
        # threshold (the boundary of "beyond the threshold"; ties there) and the neighbouring doubles on either side, in all three series
        specials = []
        for t, has in ((deb.lower_threshold, deb.has_lower_threshold), (deb.upper_threshold, deb.has_upper_threshold)):
            if has:
                t = float(t)
                specials += [t, t, t, float(np.nextafter(t, -np.inf)), float(np.nextafter(t, np.inf))]
        if specials:
            for arr in (o, h, f):
                idx = nprs.choice(arr.size, max(2, arr.size // 5), replace=False)
                arr[idx] = nprs.choice(specials, idx.size)
    np.random.seed(seed % (2**31 - 1))
    yO, yH, yF = (np.repeat(np.arange(2000, 2000 + (n + 9) // 10), 10)[:n] for n in (nO, nH, nF))
    x = f.copy()
    with warnings.catch_warnings(), np.errstate(all="ignore"):
        warnings.simplefilter("ignore")
        try:
            if stage == "window":
                out = deb._apply_on_window(o.copy(), h.copy(), f.copy(), yO, yH, yF)
            else:
                o4, h4, f4 = deb.step4(o.copy(), h.copy(), f.copy())
                if stage == "step4":
                    out = f4
                else:
                    oF = deb.step5(o4.copy(), h4.copy(), f4.copy())
                    x = f4.copy()
                    out = deb.step6(o4.copy(), oF, h4.copy(), f4.copy())
        except Exception as ex:  # noqa: BLE001  well-formed window: the step must return
            return ({"malformed": f"{type(ex).__name__}: {str(ex)[:200]}", "obs": o.tolist(), "cm_hist": h.tolist(), "cm_future": f.tolist()},
                    {"n": int(f.size), "ties": 0, "at_lower": 0, "at_upper": 0})
    out = np.asarray(out, dtype=float)
    if out.shape != x.shape or not np.all(np.isfinite(out)):
        return ({"malformed": f"result shape {out.shape} for {x.shape} / non-finite values", "obs": o.tolist(), "cm_hist": h.tolist(),
                 "cm_future": f.tolist()}, {"n": int(f.size), "ties": 0, "at_lower": 0, "at_upper": 0})
    parametric = not deb.nonparametric_qm
    slack = 0.0 if stage == "step4" else 1e-12 * scale_of(o, h, f, out) if (parametric or deb.iecdf_method not in DISCRETE_IECDF) else 0.0
    v = order_violation(x, out, slack)
    info = {"n": int(x.size), "ties": int(x.size - np.unique(x).size),
            "at_lower": int((out == deb.lower_bound).sum()), "at_upper": int((out == deb.upper_bound).sum())}
    if v is None:
        return None, info
    i, j = v
    return ({"i": i, "j": j, "x_i": float(x[i]), "x_j": float(x[j]), "out_i": float(out[i]), "out_j": float(out[j]),
             "obs": o.tolist(), "cm_hist": h.tolist(), "cm_future": f.tolist(), "stage_input": x.tolist(), "slack_abs": slack}, info)


# ------------------------------------------------------------------ ISIMIP with event likelihood adjustment (known finding F22)
ELA_CANONICAL_SEED = 22  # the window quoted in known_findings.json / DESIGN.md §5 (independent of VERIF_SEED)


def ela_data(seed):
    """tie-free tas-like window (K): the three samples of `isimip_data("tas", …)` without far tails and without ties"""
    nprs = np.random.RandomState(seed)
    nO, nH, nF = (int(nprs.randint(25, 120)) for _ in range(3))
    o, h, f = (nprs.normal(283 + 2 * k, 3 + k, n) for k, n in enumerate((nO, nH, nF)))
    while np.unique(f).size != f.size:  # probability 0 for doubles drawn from a normal distribution
        f = nprs.normal(287, 5, nF)
    return o, h, f


def run_ela_case(stage, seed):
    """ISIMIP.from_variable("tas", detrending=False, event_likelihood_adjustment=E) for E = True and — the control, on the identical
    data with the identical numpy seed — E = False; `stage` in {"step6", "window"} (public `step6` after `step4` / `step5`, or the whole
    `_apply_on_window`).  The SAME pairwise order oracle and slack as `run_isimip_case`.
    Returns (status, problem | None, info): status "holds" | "known-ela" (the option inverts a pair and the control preserves every order:
    the recorded finding F22) | "violation" (the control inverts as well, or a run failed: ordinary violation)"""
    _quiet()
    res = {}
    for ela in (True, False):
        o, h, f = ela_data(seed)
        deb = make_isimip("tas", {"detrending": False, "event_likelihood_adjustment": ela})
        np.random.seed(seed % (2**31 - 1))
        yO, yH, yF = (np.repeat(np.arange(2000, 2000 + (n + 9) // 10), 10)[:n] for n in (o.size, h.size, f.size))
        x = f.copy()
        with warnings.catch_warnings(), np.errstate(all="ignore"):
            warnings.simplefilter("ignore")
            try:
                if stage == "window":
                    out = deb._apply_on_window(o.copy(), h.copy(), f.copy(), yO, yH, yF)
                else:
                    o4, h4, f4 = deb.step4(o.copy(), h.copy(), f.copy())
                    oF = deb.step5(o4.copy(), h4.copy(), f4.copy())
                    x = f4.copy()
                    out = deb.step6(o4.copy(), oF, h4.copy(), f4.copy())
            except Exception as ex:  # noqa: BLE001  well-formed window: the step must return
                res[ela] = ("malformed", f"{type(ex).__name__}: {str(ex)[:200]}", x, None, 0.0)
                continue
        out = np.asarray(out, dtype=float)
        if out.shape != x.shape or not np.all(np.isfinite(out)):
            res[ela] = ("malformed", f"result shape {out.shape} for {x.shape} / non-finite values", x, None, 0.0)
            continue
        slack = 1e-12 * scale_of(o, h, f, out)  # parametric step 6 (scipy.stats.norm): values computed by special functions
        res[ela] = ("ok", order_violation(x, out, slack), x, out, slack)
    o, h, f = ela_data(seed)
    info = {"n": int(f.size), "sizes": [int(o.size), int(h.size), int(f.size)], "ties": int(f.size - np.unique(f).size)}
    base = {"obs": o.tolist(), "cm_hist": h.tolist(), "cm_future": f.tolist()}
    for ela in (False, True):  # a failure / an inversion of the control first: that is never the recorded finding
        kind, v, x, out, slack = res[ela]
        if kind == "malformed":
            return "violation", {"malformed": v, "event_likelihood_adjustment": ela, **base}, info
        if v is not None:
            i, j = v
            prob = {"i": i, "j": j, "x_i": float(x[i]), "x_j": float(x[j]), "out_i": float(out[i]), "out_j": float(out[j]),
                    "event_likelihood_adjustment": ela, **base, "stage_input": x.tolist(), "slack_abs": slack}
            if ela:
                prob["control"] = "the identical call with event_likelihood_adjustment=False preserves the order of every pair"
                prob["where"] = "event_likelihood_adjustment=True; control with the option off: order preserved"
                return "known-ela", prob, info
            prob["where"] = "control run, event_likelihood_adjustment=False"
            return "violation", prob, info
    return "holds", None, info


def ela_cases(rng, tier, mult):
    """(stage, numpy seed): the canonical window first (step 6 and the whole window), then windows of this run's own stream"""
    cases = [("step6", ELA_CANONICAL_SEED), ("window", ELA_CANONICAL_SEED)]
    for _ in range((2 if tier == "quick" else 60) * mult):
        cases.append((rng.choice(["step6", "step6", "window"]), rng.randint(0, 2**31 - 2)))
    return cases


# ------------------------------------------------------------------ sequences on ONE debiaser object
def seq_location(nprs, data, n, mag, smallest):
    """(obs, cm_hist, cm_future) of one location / season; `mag` scales the whole location, `smallest` is the smallest positive
    precipitation amount (so that two locations differ in the smallest positive value of the data)"""
    if data == "pr":
        def pr(dry, scale):
            x = (smallest + nprs.gamma(0.7, scale, n)) * mag
            x[nprs.random(n) < dry] = 0.0
            return x
        return pr(0.30, 3.5), pr(0.40, 3.0), pr(0.40, 3.0)
    if data == "pos":
        return tuple((np.abs(nprs.normal(6, 2, n)) + 0.25) * mag for _ in range(3))
    return tuple(nprs.normal(mu, sd, n) * mag for mu, sd in ((283, 3), (285, 4), (287, 5)))


def group_violation(x, out, groups, slack):
    for label, idx in groups:
        idx = np.asarray(idx, dtype=int)
        if idx.size < 2:
            continue
        v = order_violation(x[idx], out[idx], slack)
        if v is not None:
            return label, int(idx[v[0]]), int(idx[v[1]])
    return None


def run_sequence_case(kind, params, mode, seed):
    """One debiaser object used for several windows one after the other; within every window the relation must hold
    whatever the object was applied to before.  mode:
      "calls"   two apply_on_window calls (locations of different magnitude, either order); the second is checked
      "grid"    apply() on a 1 x 2 grid (running-window modes off: each cell is one window)
      "windows" apply_location with day-of-year running windows and a seasonal change of magnitude; groups = the steps adjusted
                by one window
      "years"   CDFt only: year windows of cm_future with a change of magnitude between the years"""
    import datetime

    from harness import probes

    _quiet()
    nprs = np.random.RandomState(seed)
    data = params.get("data", "tas")
    data = "pr" if data in ("pr", "prflux") else data
    coarse_first = bool(nprs.random() < 0.7)
    mags = (1.0, float(nprs.choice([1.0, 1e-2]))) if data == "pr" else (1.0, float(nprs.choice([1e-2, 10.0])))
    smalls = (0.5, 1e-3)
    order = (0, 1) if coarse_first else (1, 0)
    info = {"mode": mode, "coarse_first": coarse_first}
    np.random.seed(seed % (2**31 - 1))
    prob = None
    try:
        with warnings.catch_warnings(), np.errstate(all="ignore"):
            warnings.simplefilter("ignore")
            if mode == "calls":
                n = int(nprs.randint(120, 400))
                locs = [seq_location(nprs, data, n, mags[k], smalls[k]) for k in order]
                deb, slack = build_debiaser(kind, params)
                for o, h, f in locs:
                    out = np.asarray(deb.apply_on_window(o.copy(), h.copy(), f.copy()), dtype=float)
                x, groups = locs[1][2], [("second call", np.arange(n))]
                series = locs[1]
            elif mode == "grid":
                n = int(nprs.randint(120, 300))
                locs = [seq_location(nprs, data, n, mags[k], smalls[k]) for k in order]
                extra = {} if kind == "CDFt" else {"running_window_mode": False}
                deb, slack = build_debiaser(kind, params, **extra)
                O, Hh, Ff = (np.stack([locs[0][k], locs[1][k]], axis=1)[:, None, :] for k in range(3))
                res3 = np.asarray(deb.apply(O.copy(), Hh.copy(), Ff.copy(), progressbar=False), dtype=float)
                x = np.concatenate([locs[0][2], locs[1][2]])
                out = np.concatenate([res3[:, 0, 0], res3[:, 0, 1]])
                groups = [("cell (0,0)", np.arange(n)), ("cell (0,1)", np.arange(n, 2 * n))]
                series = tuple(np.concatenate([locs[0][k], locs[1][k]]) for k in range(3))
            else:
                years_n = 2 if mode == "windows" else 6
                dates = probes.dates_from(datetime.date(2001, 1, 1), 365 * years_n)
                n = dates.size
                from ibicus.utils import day_of_year, year
                doy, yrs = day_of_year(dates), year(dates)
                a, b = (seq_location(nprs, data, n, mags[k], smalls[k]) for k in order)
                if mode == "windows":  # the season decides the magnitude
                    first = doy <= 183
                    extra = dict(running_window_mode=True, running_window_length=61, running_window_step_length=61)
                else:  # the year decides the magnitude: early years coarse, late years fine
                    first = yrs <= 2003
                    extra = dict(running_window_mode=False, running_window_mode_over_years_of_cm_future=True,
                                 running_window_over_years_of_cm_future_length=3, running_window_over_years_of_cm_future_step_length=1)
                series = tuple(np.where(first, a[k], b[k]) for k in range(3))
                deb, slack = build_debiaser(kind, params, **extra)
                out = np.asarray(deb.apply_location(series[0].copy(), series[1].copy(), series[2].copy(), dates, dates, dates), dtype=float)
                x = series[2]
                if mode == "windows":
                    groups = [(f"window centred on day {int(c)}", idx) for c, idx in deb.running_window.use(doy)]
                else:
                    groups = [(f"years {list(map(int, yd))}", np.where(np.isin(yrs, yd))[0])
                              for yd, _ in deb.running_window_over_years_of_cm_future.use(yrs)]
    except Exception as ex:  # noqa: BLE001
        return {"malformed": f"{type(ex).__name__}: {str(ex)[:200]}"}, info
    if out.shape != x.shape or not np.all(np.isfinite(out)):
        return {"malformed": f"result shape {out.shape} for {x.shape} / non-finite values"}, info
    info["n"] = int(x.size)
    info["groups"] = len(groups)
    v = group_violation(x, out, groups, slack * scale_of(x, out))
    if v is None:
        return None, info
    label, i, j = v
    prob = {"where": label, "i": i, "j": j, "x_i": float(x[i]), "x_j": float(x[j]), "out_i": float(out[i]), "out_j": float(out[j]),
            "obs": series[0].tolist(), "cm_hist": series[1].tolist(), "cm_future": series[2].tolist()}
    return prob, info


def run_isimip_sequence_case(var, overrides, mode, seed):
    """ISIMIP: two `_apply_on_window` calls on one object ("calls"), or `apply` on a 1 x 2 grid in month mode ("grid": every
    calendar month of every cell is one window); the two locations differ in dry fraction / magnitude"""
    import datetime

    from harness import probes

    _quiet()
    nprs = np.random.RandomState(seed)
    info = {"mode": mode}
    np.random.seed(seed % (2**31 - 1))
    n = int(nprs.randint(60, 140)) if mode == "calls" else 365
    mags = (1.0, float(nprs.choice([1.0, 0.2]))) if var == "pr" else (1.0, 1.0)
    locs = []
    for k in range(2):
        dry = float(nprs.uniform(0.05, 0.9))
        locs.append(tuple(isimip_data(var, nprs, n, role, dry) * mags[k] for role in ("obs", "hist", "fut")))
    try:
        with warnings.catch_warnings(), np.errstate(all="ignore"):
            warnings.simplefilter("ignore")
            if mode == "calls":
                deb = make_isimip(var, dict(overrides))
                yrs = np.repeat(np.arange(2000, 2000 + (n + 9) // 10), 10)[:n]
                for o, h, f in locs:
                    out = np.asarray(deb._apply_on_window(o.copy(), h.copy(), f.copy(), yrs, yrs, yrs), dtype=float)
                x, groups, series = locs[1][2], [("second call", np.arange(n))], locs[1]
            else:
                deb = make_isimip(var, {**overrides, "running_window_mode": False})
                dates = probes.dates_from(datetime.date(2001, 1, 1), n)
                from ibicus.utils import month
                mon = month(dates)
                O, Hh, Ff = (np.stack([locs[0][k], locs[1][k]], axis=1)[:, None, :] for k in range(3))
                res3 = np.asarray(deb.apply(O.copy(), Hh.copy(), Ff.copy(), time_obs=dates, time_cm_hist=dates, time_cm_future=dates,
                                            progressbar=False), dtype=float)
                x = np.concatenate([locs[0][2], locs[1][2]])
                out = np.concatenate([res3[:, 0, 0], res3[:, 0, 1]])
                groups = [(f"cell (0,{c}) month {m}", c * n + np.where(mon == m)[0]) for c in (0, 1) for m in range(1, 13)]
                series = tuple(np.concatenate([locs[0][k], locs[1][k]]) for k in range(3))
    except Exception as ex:  # noqa: BLE001
        return {"malformed": f"{type(ex).__name__}: {str(ex)[:200]}"}, info
    if out.shape != x.shape or not np.all(np.isfinite(out)):
        return {"malformed": f"result shape {out.shape} for {x.shape} / non-finite values"}, info
    info["n"], info["groups"] = int(x.size), len(groups)
    v = group_violation(x, out, groups, 1e-12 * scale_of(x, out))
    if v is None:
        return None, info
    label, i, j = v
    return ({"where": label, "i": i, "j": j, "x_i": float(x[i]), "x_j": float(x[j]), "out_i": float(out[i]), "out_j": float(out[j]),
             "obs": series[0].tolist(), "cm_hist": series[1].tolist(), "cm_future": series[2].tolist()}, info)


def sequence_cases(rng, tier, mult):
    cases = []
    rep = (1 if tier == "quick" else 8) * mult
    for _ in range(rep):
        ssr_pairs = [("linear_interpolation", "linear"), ("step_function", "inverted_cdf"), (rng.choice(ECDF_METHODS), rng.choice(IECDF_METHODS))]
        for em, im in ssr_pairs:
            p = dict(em=em, im=im, shift=rng.choice(["additive", "multiplicative", "no_shift"]), ssr=True, data="pr")
            for mode in ("calls", "grid", "windows", "years"):
                cases.append(("CDFt", p, mode))
        cases.append(("CDFt", dict(em="linear_interpolation", im="linear", shift="additive", ssr=False, data="tas"), rng.choice(["calls", "grid", "windows", "years"])))
        for kind, p in (("LS", dict(delta="multiplicative", data="pr")),
                        ("QMparam", dict(dist="norm", detrending="additive", data="tas")),
                        ("QMnonparam", dict(detrending="no_detrending", data="pr")),
                        ("QMpr", dict(model="hurdle", detrending="multiplicative", data="pr")),
                        ("QMpr", dict(model="ignore_zeros", detrending="no_detrending", data="pr"))):
            for mode in ("calls", rng.choice(["grid", "windows"])):
                cases.append((kind, p, mode))
        for var, ov in (("pr", {}), ("hurs", {"nonparametric_qm": False}), ("tas", {"detrending": False}), ("tasskew", {})):
            cases.append(("ISIMIP", {"var": var, "overrides": ov}, rng.choice(["calls", "grid"])))
    return cases


# ------------------------------------------------------------------ explicit time axes in any storage order
# Quantifier "for all inputs" x "within one calibration window": the window is a set of TIME STEPS (a day-of-year window, a window
# over the years of cm_future, a calendar month), not a stretch of the array.  The cases above only ever handed over chronological
# daily axes shared by the three series, where every window is one contiguous block per year.  Here each series has its own dates
# (own span, own stride) in its own storage order — reversed, shuffled, interior blocks swapped, whole years out of order, two
# ensemble members / time slices of the same dates stored one after the other — in one of the accepted encodings; the oracle
# collects the steps adjusted by one window with its own calendar (python dates) and demands the order relation inside each.
FUT_STORAGE = ["reverse", "shuffle", "inner-blocks", "year-blocks", "stacked", "stacked", "none"]
CAL_STORAGE = ["none", "none", "reverse", "shuffle", "inner-blocks", "year-blocks", "stacked"]
DATED_ENCODINGS = ["date", "date", "datetime", "M8D", "M8s"]


def dated_axis(prs, y0, ny, stride, storage):
    """python dates: every `stride`-th day of the years y0 … y0+ny-1, stored in the order `storage`"""
    import datetime

    d0 = datetime.date(y0, 1, 1)
    total = (datetime.date(y0 + ny, 1, 1) - d0).days
    dates = [d0 + datetime.timedelta(days=k) for k in range(prs.randrange(stride), total, stride)]
    n = len(dates)
    if storage == "stacked":  # two members of the same dates, one after the other
        dates = dates + dates
    elif storage == "year-blocks":
        ys = list(range(y0, y0 + ny))
        prs.shuffle(ys)
        dates = [d for y in ys for d in dates if d.year == y]
    elif storage == "reverse":
        dates = dates[::-1]
    elif storage == "shuffle":
        prs.shuffle(dates)
    elif storage == "inner-blocks" and n >= 8:
        a = prs.randint(1, n - 5)
        b = prs.randint(a + 1, n - 3)
        c = prs.randint(b, n - 2)
        dates = dates[:a] + dates[b:c + 1] + dates[a:b] + dates[c + 1:]
    return np.array(dates, dtype=object)


def dated_values(nprs, data, dates, role, ties, dry):
    """values for the given dates (storage order = order of `dates`): noise + annual cycle + trend over the years"""
    k = {"obs": 0, "hist": 1, "fut": 2}[role]
    n = dates.size
    doy = np.array([d.timetuple().tm_yday for d in dates], dtype=float)
    yrs = np.array([d.year for d in dates], dtype=float)
    cyc = np.cos(2 * np.pi * (doy - 200) / 365.25)
    if data in ("tas", "degc"):
        mu = 283.0 + 2 * k if data == "tas" else float(nprs.choice([-1.0, 1.0]) * nprs.uniform(0.3, 3.0))
        x = mu + 5.0 * cyc + 0.08 * (yrs - yrs.min()) + nprs.normal(0, 3 + k, n)
        return np.round(x * 2) / 2 if ties else x
    if data == "pos":
        return np.abs(tas_like(nprs, n, 6 + k, 2, ties)) * (1 + 0.3 * cyc) + 0.25
    if data == "pr":
        return pr_like(nprs, n, min(0.7, dry * (1 + 0.1 * (k - 1))), 2.0 + k, ties)
    return isimip_data(data[len("isimip:"):], nprs, n, role, dry)


def run_dated_case(kind, params, mode, seed):
    """apply_location of ONE debiaser with explicit time axes.  mode:
      "windows"  day-of-year running window (every RunningWindowDebiaser; ISIMIP)        groups = the steps one window adjusts
      "years"    CDFt, window over the years of cm_future only                            groups = the years one window adjusts
      "both"     CDFt as constructed by default: year windows inside day-of-year windows  groups = intersection
      "months"   ISIMIP with running_window_mode=False                                    groups = calendar months
    returns (problem | None, info)"""
    from harness import probes

    _quiet()
    prs = random.Random(seed)
    nprs = np.random.RandomState(seed)
    data = params.get("data", "tas")
    precip = data in ("pr", "isimip:pr")
    stride = prs.choice([1, 2, 3]) if precip else prs.choice([2, 3, 5])
    year_windows = mode in ("years", "both")
    nyO, nyH = prs.randint(3, 5), prs.randint(3, 5)
    nyF = prs.randint(6, 10) if year_windows else prs.randint(3, 4)
    y0O, y0H, y0F = prs.randint(1975, 1990), prs.randint(1975, 1990), prs.randint(2020, 2060)
    stO, stH, stF = prs.choice(CAL_STORAGE), prs.choice(CAL_STORAGE), prs.choice(FUT_STORAGE)
    dO, dH, dF = dated_axis(prs, y0O, nyO, stride, stO), dated_axis(prs, y0H, nyH, stride, stH), dated_axis(prs, y0F, nyF, stride, stF)
    enc = [prs.choice(DATED_ENCODINGS) for _ in range(3)]
    ties = prs.random() < 0.4
    if data == "degc" and params.get("detrending") == "multiplicative":
        ties = False  # the only guard of multiplicative detrending: no window mean is exactly 0 (continuous values: probability 0)
    dry = prs.uniform(0.1, 0.6)
    o, h, f = (dated_values(nprs, data, d, role, ties, dry) for d, role in ((dO, "obs"), (dH, "hist"), (dF, "fut")))
    L, S = prs.choice([(31, 31), (61, 31), (61, 61), (91, 31), (91, 61)])
    LY, SY = prs.choice([(3, 1), (3, 3), (5, 1), (5, 3), (7, 3), (9, 5)])
    info = {"mode": mode, "storage": [stO, stH, stF], "encoding": enc, "stride": stride, "n": int(f.size),
            "future_chronological": bool(all(dF[i] <= dF[i + 1] for i in range(dF.size - 1)))}
    np.random.seed(seed % (2**31 - 1))
    try:
        with warnings.catch_warnings(), np.errstate(all="ignore"):
            warnings.simplefilter("ignore")
            if kind == "ISIMIP":
                rw = {"running_window_mode": False} if mode == "months" else \
                    {"running_window_mode": True, "running_window_length": L, "running_window_step_length": S}
                deb, slack = make_isimip(params["var"], {**params.get("overrides", {}), **rw}), 1e-12
            else:
                extra = dict(running_window_mode=mode in ("windows", "both"))
                if extra["running_window_mode"]:
                    extra.update(running_window_length=L, running_window_step_length=S)
                if kind == "CDFt":
                    extra["running_window_mode_over_years_of_cm_future"] = year_windows
                    if year_windows:
                        extra.update(running_window_over_years_of_cm_future_length=LY, running_window_over_years_of_cm_future_step_length=SY)
                deb, slack = build_debiaser(kind, params, **extra)
            tO, tH, tF = (probes.present(d, e) for d, e in zip((dO, dH, dF), enc))
            out = np.asarray(deb.apply_location(o.copy(), h.copy(), f.copy(), tO, tH, tF), dtype=float)
            # the windows, from the harness's own calendar arithmetic on the python dates
            doyF, yrsF = probes.indep_doy(dF), np.array([d.year for d in dF], dtype=int)
            if mode == "windows":
                groups = [(f"window centred on day {int(c)}", np.asarray(idx)) for c, idx in deb.running_window.use(doyF)]
            elif mode == "months":
                mon = np.array([d.month for d in dF], dtype=int)
                groups = [(f"month {m}", np.where(mon == m)[0]) for m in range(1, 13)]
            elif mode == "years":
                groups = [(f"years {int(yd[0])}-{int(yd[-1])}", np.where(np.isin(yrsF, yd))[0])
                          for yd, _ in deb.running_window_over_years_of_cm_future.use(yrsF)]
            else:
                groups = []
                for c, idx in deb.running_window.use(doyF):
                    idx = np.asarray(idx)
                    win = np.asarray(deb.running_window.get_indices_vals_in_window(doyF, c))
                    for yd, _ in deb.running_window_over_years_of_cm_future.use(yrsF[win]):
                        groups.append((f"window centred on day {int(c)}, years {int(yd[0])}-{int(yd[-1])}", idx[np.isin(yrsF[idx], yd)]))
    except Exception as ex:  # noqa: BLE001  well-formed dated series: apply_location must return
        prob = {"malformed": f"{type(ex).__name__}: {str(ex)[:200]}"}
        out = None
    if out is not None and (out.shape != f.shape or not np.all(np.isfinite(out))):
        prob = {"malformed": f"result shape {out.shape} for {f.shape} / {int((~np.isfinite(out)).sum()) if out.shape == f.shape else '?'} non-finite values"}
        out = None
    series = {"obs": o.tolist(), "cm_hist": h.tolist(), "cm_future": f.tolist(),
              "time_obs": [d.isoformat() for d in dO], "time_cm_hist": [d.isoformat() for d in dH], "time_cm_future": [d.isoformat() for d in dF],
              "windows": {"day_of_year": [L, S] if mode in ("windows", "both") else None, "years": [LY, SY] if year_windows else None}}
    if out is None:
        return {**prob, **series, "storage": info["storage"], "encoding": enc}, info
    info["groups"] = len(groups)
    info["largest_group"] = max((int(np.size(g)) for _, g in groups), default=0)
    v = group_violation(f, out, groups, slack * scale_of(f, out))
    if v is None:
        return None, info
    label, i, j = v
    return ({"where": label, "i": i, "j": j, "x_i": float(f[i]), "x_j": float(f[j]), "out_i": float(out[i]), "out_j": float(out[j]),
             "date_i": dF[i].isoformat(), "date_j": dF[j].isoformat(), "storage": info["storage"], "encoding": enc, **series}, info)


def dated_cases(rng, tier, mult):
    """(kind, params, mode) — every debiaser family of the property, each window kind it has"""
    cases = []
    for _ in range((3 if tier == "quick" else 30) * mult):
        em, im = rng.choice(ECDF_METHODS), rng.choice(IECDF_METHODS)
        for p, modes in ((dict(em="linear_interpolation", im="linear", shift="additive", ssr=False, data="tas"), ("years", "both", "windows")),
                         (dict(em="step_function", im="inverted_cdf", shift=rng.choice(["additive", "multiplicative", "no_shift"]), ssr=True, data="pr"),
                          ("years", "both")),
                         (dict(em=em, im=im, shift=rng.choice(["additive", "no_shift"]), ssr=False, data="degc"), ("years", rng.choice(["both", "windows"]))),
                         (dict(em=rng.choice(ECDF_METHODS), im=rng.choice(IECDF_METHODS), shift="multiplicative", ssr=True, data="pr"), ("years",))):
            for mode in modes:
                cases.append(("CDFt", p, mode))
        for kind, p in (("LS", dict(delta=rng.choice(["additive", "multiplicative"]), data="pos")),
                        ("LS", dict(delta="additive", data="degc")),
                        ("QMparam", dict(dist="norm", detrending=rng.choice(["additive", "no_detrending", "multiplicative"]), data="degc")),
                        ("QMnonparam", dict(detrending=rng.choice(["additive", "no_detrending", "multiplicative"]), data="tas")),
                        ("QMnonparam", dict(detrending="multiplicative", data="pr")),
                        ("QMpr", dict(model=rng.choice(["hurdle", "ignore_zeros"]), detrending=rng.choice(["multiplicative", "no_detrending"]), data="pr"))):
            cases.append((kind, p, "windows"))
        for var, ov in (("pr", {}), ("tas", {"detrending": False}), ("hurs", {}), ("sfcwind", {"nonparametric_qm": True})):
            cases.append(("ISIMIP", {"var": var, "overrides": ov, "data": "isimip:" + var}, rng.choice(["windows", "months"])))
    return cases


def signed_cases(rng, tier, mult):
    """Quantifier "for all series" x "parametric and non-parametric branches": data that change sign (degC, wind components,
    anomalies) or are negative throughout.  Every configuration for which the statement is unconditional is run on them — in
    particular QuantileMapping with multiplicative detrending, whose scaling factor mean F / mean H is then negative in about
    half of the cases (`qm_*_mono_signed`: the division reverses the order, the multiplication by the same factor restores it).
    LinearScaling 'multiplicative' and CDFt's multiplicative shift keep their guard mean obs / mean cm_hist >= 0
    (`legacy_ls_mult_reverses`), which all-negative data satisfy.  Returns ([(kind, params)], [(var, overrides, stage, dry, mode)])."""
    deb, isi = [], []
    for _ in range((5 if tier == "quick" else 80) * mult):
        deb.append(("LS", dict(delta="additive", data="degc")))
        deb.append(("LS", dict(delta="multiplicative", data="neg")))
        for d in ("additive", "multiplicative", "no_detrending"):
            deb.append(("QMparam", dict(dist="norm", detrending=d, data="degc")))
            deb.append(("QMnonparam", dict(detrending=d, data="degc")))
        deb.append(("QMparam", dict(dist="norm", detrending="multiplicative", data="degc")))
        deb.append(("QMnonparam", dict(detrending="multiplicative", data="degc")))
        deb.append((rng.choice(["QMparam", "QMnonparam"]), dict(dist="norm", detrending=rng.choice(["additive", "multiplicative", "no_detrending"]), data="neg")))
        for data, shifts in (("degc", ["additive", "no_shift"]), ("neg", ["additive", "multiplicative", "no_shift"])):
            deb.append(("CDFt", dict(em=rng.choice(ECDF_METHODS), im=rng.choice(IECDF_METHODS), shift=rng.choice(shifts), ssr=False, data=data)))
        for ov in ({"detrending": False}, {"detrending": False, "nonparametric_qm": True}):
            isi.append(("tas", ov, rng.choice(["step6", "window"]), None, "degc"))
    return deb, isi


# ------------------------------------------------------------------ case lists
def debiaser_cases(rng, tier, mult):
    """(kind, params) list; every CDFt method pair appears in every run"""
    cases = []
    rep = (8 if tier == "quick" else 150) * mult
    for _ in range(2 * rep):
        cases.append(("LS", dict(delta="additive", data="tas")))
        cases.append(("LS", dict(delta="multiplicative", data="pr")))
        cases.append(("LS", dict(delta="multiplicative", data="pos")))
        for d in ("additive", "no_detrending"):
            cases.append(("QMparam", dict(dist="norm", detrending=d, data="tas")))
            cases.append(("QMnonparam", dict(detrending=d, data="tas")))
        cases.append(("QMparam", dict(dist="norm", detrending="multiplicative", data="pos")))
        cases.append(("QMnonparam", dict(detrending="multiplicative", data="pos")))
        cases.append(("QMnonparam", dict(detrending="no_detrending", data="pr")))
        for d in ("multiplicative", "no_detrending"):
            cases.append(("QMpr", dict(model="hurdle", detrending=d, data="pr")))
        cases.append(("QMpr", dict(model="ignore_zeros", detrending="no_detrending", data="pr")))
        cases.append(("QMpr", dict(model="censored", detrending="no_detrending", data="pr", censoring_threshold=0.35)))
        cases.append(("QMpr", dict(model="hurdle", detrending=rng.choice(["multiplicative", "no_detrending"]), data="prflux")))
        cases.append(("QMpr", dict(model="censored", detrending="no_detrending", data="prflux", censoring_threshold=0.35)))
        cases.append(("QMnonparam", dict(detrending="no_detrending", data="prflux")))
        cases.append(("LS", dict(delta="multiplicative", data="prflux")))
    for _ in range(rep):
        for em in ECDF_METHODS:
            for im in IECDF_METHODS:
                shift = rng.choice(["additive", "multiplicative", "no_shift"])
                cases.append(("CDFt", dict(em=em, im=im, shift=shift, ssr=False, data="pos" if shift == "multiplicative" else "tas")))
                cases.append(("CDFt", dict(em=em, im=im, shift=rng.choice(["additive", "multiplicative", "no_shift"]), ssr=True, data="pr")))
                cases.append(("CDFt", dict(em=em, im=im, shift=rng.choice(["additive", "multiplicative", "no_shift"]), ssr=True, data="prflux")))
    return cases


def isimip_cases(rng, tier, mult):
    cases = []
    rep = (10 if tier == "quick" else 300) * mult
    for _ in range(rep):
        for var in ISIMIP_VARS:
            base = {"detrending": False} if var == "tas" else {}
            variants = [base]
            if var in ("hurs", "tasskew"):
                variants.append({**base, "nonparametric_qm": False})  # parametric branch, beta with floc / fscale
                variants.append({**base, "ecdf_method": "step_function", "iecdf_method": "inverted_cdf"})
            if var in ("pr", "sfcwind"):
                variants.append({**base, "nonparametric_qm": True})
                variants.append({**base, "mode_non_parametric_qm": "normal"})
            if var == "tas":
                variants.append({**base, "nonparametric_qm": True, "ecdf_method": "step_function", "iecdf_method": "closest_observation"})
            for ov in variants:
                for stage in ("step4", "step6", "window"):
                    if stage == "step4" and var == "tas":
                        continue
                    dry = rng.choice([0.05, 0.2, 0.5, 0.8, 0.95, None]) if var == "pr" else None
                    cases.append((var, ov, stage, dry, "normal"))
        # legitimate ZERO-valued settings: a threshold of exactly 0 (only exact zeros are dry), and the two-sided variables in
        # units shifted by a constant so that the lower threshold / upper threshold / upper bound is exactly 0.0
        for var in ("pr", "sfcwind"):
            for ov in ({"lower_threshold": 0.0}, {"lower_threshold": 0.0, "ks_test_for_goodness_of_cdf_fit": False}):
                for stage in ("step6", "window"):
                    cases.append((var, ov, stage, None, "bell"))
            cases.append((var, {"lower_threshold": 0.0}, "step6", rng.choice([0.2, 0.5, None]) if var == "pr" else None, "normal"))
        for var in ("hurs", "tasskew"):
            lb, lt, ut, ub = TWO_SIDED[var]
            for sh in (lt, ut, ub):
                for ov in ({"_shift": sh}, {"_shift": sh, "nonparametric_qm": False}):
                    cases.append((var, ov, rng.choice(["step6", "window"]), None, rng.choice(["normal", "normal", "allbounds"])))
        # windows in which every value lies beyond a threshold: nothing is left between the bounds
        for var in ("hurs", "tasskew", "prsnratio"):
            for ov in ({}, {"nonparametric_qm": False}):
                for stage in ("step6", "window"):
                    cases.append((var, ov, stage, rng.choice([None, 0.2, 0.5]), "allbounds"))
    return cases


def boundary_cases(rng, tier, mult):
    """Values exactly ON a configured threshold — the boundary of a case split of the transfer function (censoring threshold of the
    left-censored gamma model: "under the threshold" is randomised, "not under" keeps its value; ISIMIP lower / upper threshold:
    "beyond" includes equality).  Covers the quantifier "for all series including ties, zeros and values outside the calibration
    range" x "parametric and non-parametric branches, bounded ISIMIP variables" at the one kind of value continuous generators
    never produce.  Returns ([(kind, params)], [(var, overrides, stage, dry, mode)])."""
    deb, isi = [], []
    rep = (8 if tier == "quick" else 120) * mult
    for _ in range(rep):
        base = dict(model="censored", detrending="no_detrending", data="prthr", values="on_threshold")
        deb.append(("QMpr", base))
        deb.append(("QMpr", base))
        deb.append(("QMpr", {**base, "construct": "direct", "censor_in_ppf": rng.random() < 0.5}))
        # the same series through the models / debiasers for which the threshold value is an ordinary amount
        deb.append(("QMpr", dict(model=rng.choice(["hurdle", "ignore_zeros"]), detrending="no_detrending", data="prthr", values="on_threshold")))
        deb.append((rng.choice([("QMnonparam", dict(detrending="no_detrending", data="prthr", values="on_threshold")),
                                ("LS", dict(delta="multiplicative", data="prthr", values="on_threshold"))])))
    for _ in range((2 if tier == "quick" else 40) * mult):
        for var, variants in (("pr", ({}, {"nonparametric_qm": True})), ("sfcwind", ({}, {"mode_non_parametric_qm": "normal"})),
                              ("hurs", ({}, {"nonparametric_qm": False})), ("tasskew", ({}, {"nonparametric_qm": False}))):
            for ov in variants:
                for stage in ("step4", rng.choice(["step6", "window"])):
                    isi.append((var, ov, stage, rng.choice([0.2, 0.5, None]) if var == "pr" else None, "atthr"))
    return deb, isi


# ------------------------------------------------------------------ structural probe of the censored model
def censored_model_probe(rng, res, mismatches):
    """`gen_PrecipitationGammaLeftCensoredModel.cdf / ppf` are the two functions transcribed as
    `Lemmas.C09.censCdf / censPpf` (Lean): cdf = gamma.cdf(where(x < thr, u, x)), ppf = where(v < thr, 0, v)."""
    import scipy.stats

    from ibicus.utils import gen_PrecipitationGammaLeftCensoredModel
    from harness.debiasers_corr import _CaptureUniform

    for k in range(6):
        nprs = np.random.RandomState(rng.randint(0, 2**31 - 2))
        thr = float(nprs.choice([0.05, 0.1, 0.5]))
        m = gen_PrecipitationGammaLeftCensoredModel(censoring_threshold=thr)
        x = np.concatenate([np.zeros(3), nprs.uniform(0, thr, 3), [thr], nprs.gamma(1.0, 2.0, 8)])
        fit = (float(nprs.uniform(0.5, 2)), 0, float(nprs.uniform(0.5, 3)))
        with _CaptureUniform() as cap:
            c = m.cdf(x, *fit)
        u = cap.draws[0] if cap.draws else np.zeros_like(x)
        c_ref = scipy.stats.gamma.cdf(np.where(x < thr, u, x), *fit)
        q = nprs.uniform(0.001, 0.999, 12)
        v = scipy.stats.gamma.ppf(q, *fit)
        p_ref = np.where(v < thr, 0, v)
        res.cov["traces_validated_against_impl"] += 2
        draws_ok = bool(np.all((u >= 0) & (u < thr)))
        if not (np.array_equal(c, c_ref) and np.array_equal(m.ppf(q, *fit), p_ref) and draws_ok):
            mismatches.append({"op": "censored_model_probe", "thr": thr, "draws_in_[0,thr)": draws_ok})
    # hurdle model: cdf = where(x == 0, u, p0 + (1 - p0) G(x)), u in [0, p0]; ppf = where(q > p0, Q((q - p0)/(1 - p0)), 0)
    from ibicus.utils import gen_PrecipitationHurdleModel

    for k in range(6):
        nprs = np.random.RandomState(rng.randint(0, 2**31 - 2))
        m = gen_PrecipitationHurdleModel()
        p0 = float(nprs.choice([0.0, 0.2, 0.7]))
        amounts = (float(nprs.uniform(0.5, 2)), 0, float(nprs.uniform(0.5, 3)))
        x = np.concatenate([np.zeros(4), nprs.gamma(1.0, 2.0, 8)])
        with _CaptureUniform() as cap:
            c = m.cdf(x, p0, amounts)
        u = cap.draws[0] if cap.draws else np.zeros_like(x)
        c_ref = np.where(x == 0, u, p0 + (1 - p0) * scipy.stats.gamma.cdf(x, *amounts))
        q = nprs.uniform(0.001, 0.999, 12)
        with np.errstate(all="ignore"):
            p_ref = np.where(q > p0, scipy.stats.gamma.ppf((q - p0) / (1 - p0), *amounts), 0)
            p_real = m.ppf(q, p0, amounts)
        res.cov["traces_validated_against_impl"] += 2
        draws_ok = bool(np.all((u >= 0) & (u <= p0)))
        fit = m.fit(np.concatenate([np.zeros(3), nprs.gamma(1.0, 2.0, 9)]))
        if not (np.array_equal(c, c_ref) and np.array_equal(p_real, p_ref) and draws_ok and abs(fit[0] - 0.25) < 1e-12):
            mismatches.append({"op": "hurdle_model_probe", "p0": p0, "draws_in_[0,p0]": draws_ok, "fit_p0": float(fit[0])})


# ------------------------------------------------------------------ tier B for the non-ISIMIP debiasers
def debiasers_tie(rng, n_cases, tier, res):
    """`debiasers_corr` primitives (real per-window code vs DrvDebiasers) on the configurations C09 speaks about:
    LinearScaling, QuantileMapping (parametric with the rational test double, non-parametric; three detrendings) and
    CDFt (three shifts x eleven modelled method pairs + kernel_density with the histogram oracle, with and without SSR);
    spread evenly over the configurations (the shared `correspondence` weights them for other properties)."""
    from collections import Counter

    from harness import debiasers_corr as DC

    by_fam = {}
    for n, c in DC.CONFIGS.items():
        if c["family"] in ("LS", "QM", "CDFt") and not c.get("invalid") and not c.get("years"):
            by_fam.setdefault(c["family"], []).append(n)
    for v in by_fam.values():
        rng.shuffle(v)
    fams = sorted(by_fam)
    names = [by_fam[fams[k % len(fams)]][(k // len(fams)) % len(by_fam[fams[k % len(fams)]])] for k in range(n_cases)]
    stats = {n: Counter() for n in DC.CONFIGS}
    lines, todo, mismatches = [], [], []
    for k in range(n_cases):
        config = DC.CONFIGS[names[k]]
        stream = "ties" if rng.random() < 0.35 else "main"
        case = DC.gen_case(rng, config, stream, tier)
        params = DC.case_params(case)
        kind, value, u = DC.run_real(config, case["obs"], case["H"], case["F"], years=case["years"], **params)
        if len(u):
            case["u"] = [float(x) for x in u]
        lines.append(DC.driver_line(config, case["obs"], case["H"], case["F"], u=case.get("u"), years=case["years"], **params))
        todo.append((config, case, kind, value, stream))
        res.count(("tieB", config["name"], stream, len(case["F"]) // 16), True)
    out = DC.run_driver_parallel(lines)
    for (config, case, kind, value, stream), line in zip(todo, out):
        res.cov["traces_validated_against_impl"] += 1
        mm = DC.compare(config, case, kind, value, line, stats)
        if mm is not None:
            mm["stream"] = stream
            mismatches.append(mm)
    res.extra["ties_accepted"] = res.extra.get("ties_accepted", 0) + sum(st["ties_elements"] for st in stats.values())
    fam = Counter()
    for n, st in stats.items():
        if st["cases"]:
            fam[DC.CONFIGS[n]["family"] + ":cases"] += st["cases"]
            fam[DC.CONFIGS[n]["family"] + ":configs"] += 1
            fam[DC.CONFIGS[n]["family"] + ":compared_elements"] += st["compared_elements"]
    res.extra["debiasers_tie"] = dict(fam)
    return mismatches


# ------------------------------------------------------------------ tier B for the precipitation models inside QuantileMapping
def precip_qm_tie(rng, n_cases, res, mismatches):
    """`Model/PrecipQM.lean` (driver DrvPrecipQM) against the real `QuantileMapping.apply_on_window` with the three
    precipitation models: hurdle / ignore-zeros with a rational amounts double (F(z) = z/(1+z), fit = (0, mean of the wet
    values)), censored gamma with the recorded calls of `scipy.stats.gamma.cdf / ppf` as tables (its fit replaced by a
    data-dependent stub: the Nelder–Mead optimiser is outside the model).  Draws of np.random.uniform are captured."""
    from ibicus.debias import QuantileMapping
    from ibicus.utils import _math_utils as M

    from harness import c17

    class MeanDouble(c17.RatDouble):
        def fit(self, data, *args, **kwds):
            return (0.0, float(np.mean(np.asarray(data, dtype=float))))

    def series(n, unit, dry):
        k0 = max(1, min(n - 2, int(round(n * dry))))
        v = [0.0] * k0 + [rng.randint(1, 40 * 64) / 64 for _ in range(n - k0)]
        rng.shuffle(v)
        return np.array(v, dtype=float) * unit

    lines, expect = [], []
    _quiet()
    for k in range(n_cases):
        model = ["hurdle", "ignore_zeros", "censored"][k % 3]
        unit = rng.choice([1.0, 1.0, 2.0 ** -17, 2.0 ** -34])  # mm/day or a flux: wet values far below 1e-8 occur
        nO, nH, nF = (rng.randint(4, 24) for _ in range(3))
        o, h, f = series(nO, unit, rng.uniform(0.1, 0.5)), series(nH, unit, rng.uniform(0.2, 0.7)), series(nF, unit, rng.uniform(0.2, 0.7))
        if rng.random() < 0.5:  # far tail / tiny values
            f[rng.randrange(nF)] = 4000.0 * unit
            f[rng.randrange(nF)] = unit / 4096
        t = rng.choice([1e-10, 1.0 / 1024, 1.0 / 16])
        d = rng.choice(["no_detrending", "multiplicative"]) if model != "censored" else "no_detrending"
        tag = {"model": model, "k": k, "unit": unit, "t": t, "detrending": d, "sizes": [nO, nH, nF]}
        R = C.rlist
        np.random.seed(C.seed() * 977 + k)
        try:
            with warnings.catch_warnings(), np.errstate(all="ignore"):
                warnings.simplefilter("ignore")
                if model == "hurdle":
                    rand = rng.random() < 0.7
                    dist = M.gen_PrecipitationHurdleModel(distribution=MeanDouble(a=0.0, name="meandouble"), cdf_randomization=rand)
                    deb = QuantileMapping(distribution=dist, mapping_type="parametric", detrending=d, cdf_threshold=t)
                    with c17.Patched() as P:
                        out = np.asarray(deb.apply_on_window(o.copy(), h.copy(), f.copy()), dtype=float)
                    us = P.uniform_calls[0][3] if P.uniform_calls else np.zeros(nF)
                    ok_draws = (len(P.uniform_calls) == (1 if rand else 0)) and (not rand or us.shape == f.shape)
                    if not ok_draws:
                        mismatches.append({"corr": "precip_qm", **tag, "why": "np.random.uniform not called once per window with one draw per value"})
                        continue
                    lines.append(f"qmh {d} {'true' if rand else 'false'} {C.rat(t)} {R(o)} {R(h)} {R(f)} {R(us)}")
                elif model == "ignore_zeros":
                    dist = M.gen_PrecipitationIgnoreZeroValuesModel(distribution=MeanDouble(a=0.0, name="meandouble"))
                    deb = QuantileMapping(distribution=dist, mapping_type="parametric", detrending=d, cdf_threshold=t)
                    out = np.asarray(deb.apply_on_window(o.copy(), h.copy(), f.copy()), dtype=float)
                    lines.append(f"qmi {d} {C.rat(t)} {R(o)} {R(h)} {R(f)}")
                else:
                    thr = rng.choice([0.1, 0.5, 1.0, 0.125]) * unit
                    censor = rng.random() < 0.7
                    dist = M.gen_PrecipitationGammaLeftCensoredModel(censoring_threshold=thr, censor_in_ppf=censor)
                    deb = QuantileMapping(distribution=dist, mapping_type="parametric", detrending=d, cdf_threshold=t)
                    fit0 = M.gen_PrecipitationGammaLeftCensoredModel.__dict__["_fit_censored_gamma"]

                    def stub(x, nr, min_x):  # data dependent: the fits of obs and cm_hist differ
                        return (0.6 + 0.2 * (len(x) % 4), 0, float(np.mean(x)) if len(x) else unit)

                    M.gen_PrecipitationGammaLeftCensoredModel._fit_censored_gamma = staticmethod(stub)
                    try:
                        with c17.Patched() as P:
                            out = np.asarray(deb.apply_on_window(o.copy(), h.copy(), f.copy()), dtype=float)
                    finally:
                        M.gen_PrecipitationGammaLeftCensoredModel._fit_censored_gamma = fit0
                    fit_h, fit_o = stub(h[h > thr], 0, thr), stub(o[o > thr], 0, thr)
                    good = (len(P.uniform_calls) == 1 and len(P.gamma_cdf_calls) == 1 and len(P.gamma_ppf_calls) == 1
                            and tuple(P.gamma_cdf_calls[0][1]) == fit_h and tuple(P.gamma_ppf_calls[0][1]) == fit_o)
                    res.cov["traces_validated_against_impl"] += 1
                    if not good:
                        mismatches.append({"corr": "precip_qm", **tag, "why": "censored model: cdf not evaluated with the fit of cm_hist / ppf not with the fit of obs / draws"})
                        continue
                    us = P.uniform_calls[0][3]
                    ca, cv = P.gamma_cdf_calls[0][0], P.gamma_cdf_calls[0][2]
                    pa, pv = P.gamma_ppf_calls[0][0], P.gamma_ppf_calls[0][2]
                    if not (np.all(np.isfinite(cv)) and np.all(np.isfinite(pv))):
                        continue
                    lines.append(f"qmc {d} {C.rat(thr)} {'true' if censor else 'false'} {C.rat(t)} {R(ca)} {R(cv)} {R(pa)} {R(pv)} {R(h)} {R(f)} {R(us)}")
        except Exception as ex:  # noqa: BLE001
            mismatches.append({"corr": "precip_qm", **tag, "why": f"{type(ex).__name__}: {str(ex)[:200]}"})
            continue
        expect.append((out, tag, f))
        res.count(("tieB-precipQM", model, d, unit, t), True)
    try:
        got = C.run_driver("DrvPrecipQM", lines) if lines else []
    except Exception as ex:  # noqa: BLE001
        mismatches.append({"corr": "precip_qm", "why": f"driver: {type(ex).__name__}: {str(ex)[:300]}"})
        return
    for (out, tag, f), g in zip(expect, got):
        res.cov["traces_validated_against_impl"] += 1
        toks = [] if g == "-" else g.split(",")
        if g == "bad-op" or len(toks) != out.size:
            mismatches.append({"corr": "precip_qm", **tag, "impl": out.tolist()[:8], "model_value": g[:200]})
            continue
        mod = np.array([float(Fraction(x)) for x in toks])
        sc = scale_of(out, mod)
        bad = np.where(~(np.abs(out - mod) <= 1e-9 * sc + 1e-300))[0]
        if bad.size:
            i = int(bad[0])
            mismatches.append({"corr": "precip_qm", **tag, "index": i, "x": float(f[i]), "impl": float(out[i]), "model_value": float(mod[i])})


# ------------------------------------------------------------------ the check
def run(tier, res, force_search=False):
    from harness import isimip_corr as IC

    rng = random.Random(C.seed() * 15485863 + 9)
    res.rule = ("cases = (debiaser configuration, three series, numpy seed) from one PRNG (VERIF_SEED); a case is non-trivial when the future "
                "series has at least one pair x_i < x_j (always) — distinct = distinct (configuration, has ties, has zeros, has values outside the "
                "calibration range, size class)")
    res.trusted = C.BASE_TRUSTED + [
        "scipy.stats.norm / gamma / beta / weibull_min are assumed (not proved) to satisfy the monotonicity / support laws stated as LocScaleLaws / "
        "IsiLaws; they are exercised by the oracle on the real code only",
        "np.histogram(bins='auto') bin edges / counts (kernel_density) are an oracle constrained by HistLaws; kernel_density is exercised via the real code only",
        "the precipitation models inside QuantileMapping are Model/PrecipQM.lean over Model/Precip.lean, tied by the driver DrvPrecipQM "
        "(real QuantileMapping.apply_on_window with a rational amounts double for hurdle / ignore-zeros; for the censored gamma model the recorded "
        "scipy.stats.gamma.cdf / ppf calls are the amounts tables and the Nelder-Mead fit is replaced by a data-dependent stub)",
        "np.argsort is not stable: all statements are about strictly different inputs (x_i < x_j), never about the order of equal inputs",
    ]
    res.assumptions = [
        "exact rational arithmetic in the theorems; float rounding carried by slack 1e-12*scale only where values are computed by special functions / "
        "interpolation / the extrapolation addition, and 0 for rank-transfer outputs (LS, step 4, bound assignment, discrete iecdf methods)",
        "LS multiplicative / CDFt multiplicative shift: mean obs / mean cm_hist >= 0 (non-negative data); QM multiplicative detrending: mean F / mean H > 0",
        "samples of size >= 2; ISIMIP: event_likelihood_adjustment = False, bounds enclose thresholds, family support inside the bounds (IsiLaws)",
        "the whole-window theorem (window_mono) assumes pairwise distinct step-4 draws (probability 1); tied draws are covered by the oracle only",
        "QuantileMapping with a precipitation model: non-negative data; censored model: the F16 pairs (two distinct sub-threshold inputs) are excluded from the theorem",
        "ISIMIP with event_likelihood_adjustment = True: nothing positive is claimed — the guard of step6_mono is necessary (Props.C09.step6_ela_can_reorder, "
        "witness on the model) and the real step 6 / window with the option on is run by the oracle against a control with the option off; an inversion "
        "that only the option produces is the recorded known finding F22",
    ]

    ok = C.lean_phase(res, PROP, GEN, TARGETS)

    # ---- tier B: correspondence of the shared model with the real per-window code (modest budget)
    mismatches = []
    nB = 150 if tier == "quick" else 3000
    try:
        for m in debiasers_tie(rng, nB, tier, res):
            mismatches.append({"corr": "debiasers", **{k: (str(v)[:300]) for k, v in m.items()}})
    except Exception as ex:  # noqa: BLE001
        mismatches.append({"corr": "debiasers", "why": f"{type(ex).__name__}: {str(ex)[:300]}"})
    try:
        cfgs = ["tas_nodetr", "tas_npqm", "pr_mixed", "pr_v30", "pr_npqm", "skew_npqm", "skew_param", "skew_step_inv", "hurs",
                "hurs_param_freq", "upper_add", "pr_mixed_ks", "pr_thr0", "skew_lthr0"]
        cfgs = [c for c in cfgs if c in IC.CONFIGS]
        mm = IC.correspondence(rng, len(cfgs) * (4 if tier == "quick" else 60), tier, res, configs=cfgs)
        for m in mm:
            mismatches.append({"corr": "isimip", **{k: (str(v)[:300]) for k, v in m.items() if k != "line"}})
    except Exception as ex:  # noqa: BLE001
        mismatches.append({"corr": "isimip", "why": f"{type(ex).__name__}: {str(ex)[:300]}"})
    try:
        precip_qm_tie(rng, 45 if tier == "quick" else 450, res, mismatches)
    except Exception as ex:  # noqa: BLE001
        mismatches.append({"corr": "precip_qm", "why": f"{type(ex).__name__}: {str(ex)[:300]}"})
    try:
        censored_model_probe(rng, res, mismatches)
    except Exception as ex:  # noqa: BLE001
        mismatches.append({"corr": "censored_model_probe", "why": f"{type(ex).__name__}: {str(ex)[:300]}"})
    if mismatches:
        res.tie_broken.append(f"correspondence (DrvDebiasers / DrvIsimip / censored probe): {len(mismatches)} mismatches, first: {str(mismatches[0])[:600]}")
        res.extra["mismatches"] = mismatches[:10]

    # ---- the property's oracle on the real code
    mult = 3 if (force_search or not ok or mismatches) else 1
    problems, skipped, hist = [], {}, {}
    f16_hits = 0
    for kind, params in debiaser_cases(rng, tier, mult):
        seeds = [rng.randint(0, 2**31 - 2) for _ in range(3 if (kind == "CDFt" and params.get("ssr")) else 1)]
        for seed in seeds:  # SSR: re-seeded, several seeds
            prob, info = run_case(kind, params, seed)
            name = kind + ":" + ",".join(f"{k}={v}" for k, v in sorted(params.items()) if k not in ("data",))
            if "skipped" in info:
                skipped[f"{kind}:{info['skipped']}"] = skipped.get(f"{kind}:{info['skipped']}", 0) + 1
                continue
            hist[kind] = hist.get(kind, 0) + 1
            res.count((name, info["ties"] > 0, info["zeros"] > 0, info["outside"] > 0, info["n"] // 30), True,
                      sample={"config": name, **info} if len(res.cov["samples"]) < 3 else None)
            if prob is None:
                continue
            case = {"what": name, "kind": kind, "params": params, "np_seed": seed, **prob}
            sig = {"what": name}
            if kind == "QMpr" and params["model"] == "censored" and prob.get("f16"):
                sig = dict(F16_SIGNATURE)
                f16_hits += 1
            problems.append((describe(name, prob), case, sig))
    for kind, params, mode in sequence_cases(rng, tier, mult):
        seed = rng.randint(0, 2**31 - 2)
        if kind == "ISIMIP":
            prob, info = run_isimip_sequence_case(params["var"], params["overrides"], mode, seed)
        else:
            prob, info = run_sequence_case(kind, params, mode, seed)
        name = f"sequence/{mode}/{kind}:" + ",".join(f"{k}={v}" for k, v in sorted(params.items()) if k not in ("data",))
        hist["sequence/" + mode] = hist.get("sequence/" + mode, 0) + 1
        res.count((name, info.get("coarse_first"), info.get("groups")), True)
        if prob is None:
            continue
        case = {"what": name, "kind": "sequence", "debiaser": kind, "params": params, "mode": mode, "np_seed": seed, **prob}
        problems.append((describe(name, prob), case, {"what": name}))
    for var, ov, stage, dry, mode in isimip_cases(rng, tier, mult):
        seed = rng.randint(0, 2**31 - 2)
        prob, info = run_isimip_case(var, ov, stage, seed, dry, mode)
        name = f"ISIMIP/{var}/{stage}{'/allbounds' if mode == 'allbounds' else ''}:" + ",".join(f"{k}={v}" for k, v in sorted(ov.items()))
        if "skipped" in info:
            skipped[f"ISIMIP/{var}:{info['skipped']}"] = skipped.get(f"ISIMIP/{var}:{info['skipped']}", 0) + 1
            continue
        hist["ISIMIP/" + stage] = hist.get("ISIMIP/" + stage, 0) + 1
        res.count((name, info["ties"] > 0, info["at_lower"] > 0, info["at_upper"] > 0, info["n"] // 40), True,
                  sample={"config": name, **info} if len(res.cov["samples"]) < 6 else None)
        if prob is None:
            continue
        case = {"what": name, "kind": "ISIMIP", "var": var, "overrides": ov, "stage": stage, "dry": dry, "mode": mode, "np_seed": seed, **prob}
        problems.append((describe(name, prob), case, {"what": name}))
    # values exactly on a configured threshold: own PRNG stream (the streams of the cases above stay what they were)
    rng_b = random.Random(C.seed() * 15485863 + 909)
    deb_b, isi_b = boundary_cases(rng_b, tier, mult)
    for kind, params in deb_b:
        seed = rng_b.randint(0, 2**31 - 2)
        prob, info = run_case(kind, params, seed)
        name = kind + ":" + ",".join(f"{k}={v}" for k, v in sorted(params.items()) if k not in ("data",))
        hist["on_threshold/" + kind] = hist.get("on_threshold/" + kind, 0) + 1
        res.count((name, info["ties"] > 0, info["zeros"] > 0, info.get("at_thr", 0) > 0, info.get("under_thr", 0) > 0, info["n"] // 100),
                  info.get("at_thr", 1) > 0 and info["zeros"] > 0)
        if prob is None:
            continue
        case = {"what": name, "kind": kind, "params": params, "np_seed": seed, **prob}
        sig = {"what": name}
        if kind == "QMpr" and params["model"] == "censored" and prob.get("f16"):
            sig = dict(F16_SIGNATURE)
            f16_hits += 1
        problems.append((describe(name, prob), case, sig))
    for var, ov, stage, dry, mode in isi_b:
        seed = rng_b.randint(0, 2**31 - 2)
        prob, info = run_isimip_case(var, ov, stage, seed, dry, mode)
        name = f"ISIMIP/{var}/{stage}/on_threshold:" + ",".join(f"{k}={v}" for k, v in sorted(ov.items()))
        hist["on_threshold/ISIMIP/" + stage] = hist.get("on_threshold/ISIMIP/" + stage, 0) + 1
        res.count((name, info["ties"] > 0, info["at_lower"] > 0, info["at_upper"] > 0, info["n"] // 40), True)
        if prob is None:
            continue
        case = {"what": name, "kind": "ISIMIP", "var": var, "overrides": ov, "stage": stage, "dry": dry, "mode": mode, "np_seed": seed, **prob}
        problems.append((describe(name, prob), case, {"what": name}))
    # signed / all-negative data: own PRNG stream
    rng_s = random.Random(C.seed() * 15485863 + 9091)
    deb_s, isi_s = signed_cases(rng_s, tier, mult)
    n_delta_neg = 0
    for kind, params in deb_s:
        seed = rng_s.randint(0, 2**31 - 2)
        prob, info = run_case(kind, params, seed)
        name = "signed/" + kind + ":" + ",".join(f"{k}={v}" for k, v in sorted(params.items()))
        hist["signed/" + kind] = hist.get("signed/" + kind, 0) + 1
        n_delta_neg += bool(info.get("delta_negative"))
        res.count((name, info["ties"] > 0, info["outside"] > 0, info.get("delta_negative"), info["n"] // 30), True)
        if prob is None:
            continue
        case = {"what": name, "kind": kind, "params": params, "np_seed": seed, **prob}
        problems.append((describe(name, prob), case, {"what": name}))
    for var, ov, stage, dry, mode in isi_s:
        seed = rng_s.randint(0, 2**31 - 2)
        prob, info = run_isimip_case(var, ov, stage, seed, dry, mode)
        name = f"signed/ISIMIP/{var}/{stage}:" + ",".join(f"{k}={v}" for k, v in sorted(ov.items()))
        hist["signed/ISIMIP/" + stage] = hist.get("signed/ISIMIP/" + stage, 0) + 1
        res.count((name, info["ties"] > 0, info["n"] // 40), True)
        if prob is None:
            continue
        case = {"what": name, "kind": "ISIMIP", "var": var, "overrides": ov, "stage": stage, "dry": dry, "mode": mode, "np_seed": seed, **prob}
        problems.append((describe(name, prob), case, {"what": name}))
    res.extra["signed_cases_with_negative_detrending_factor"] = n_delta_neg
    # explicit time axes in any storage order: own PRNG stream
    rng_t = random.Random(C.seed() * 15485863 + 9092)
    n_unordered = 0
    for kind, params, mode in dated_cases(rng_t, tier, mult):
        seed = rng_t.randint(0, 2**31 - 2)
        prob, info = run_dated_case(kind, params, mode, seed)
        name = f"dated/{mode}/{kind}:" + ",".join(f"{k}={v}" for k, v in sorted(params.items()) if k not in ("data",))
        hist["dated/" + mode] = hist.get("dated/" + mode, 0) + 1
        n_unordered += not info["future_chronological"]
        res.count((name, tuple(info["storage"]), tuple(info["encoding"]), info["stride"]), not info["future_chronological"])
        if prob is None:
            continue
        case = {"what": name, "kind": "dated", "debiaser": kind, "params": params, "mode": mode, "np_seed": seed, **prob}
        problems.append((describe(name, prob), case, {"what": name}))
    res.extra["dated_cases_with_non_chronological_future"] = n_unordered
    # event likelihood adjustment (documented non-default option): own PRNG stream.  The real step 6 / window with the option on, the
    # identical call with the option off as control; an inversion that only the option produces is the recorded finding F22
    rng_e = random.Random(C.seed() * 15485863 + 9093)
    ela_stats = {"windows": 0, "inverted_with_option_only": 0, "ordinary_violations": 0}
    for stage, seed in ela_cases(rng_e, tier, mult):
        status, prob, info = run_ela_case(stage, seed)
        name = f"ISIMIP/tas/{stage}:detrending=False,event_likelihood_adjustment=True"
        hist["ela/" + stage] = hist.get("ela/" + stage, 0) + 1
        ela_stats["windows"] += 1
        res.count((name, info["n"] // 40), True)
        if prob is None:
            continue
        case = {"what": name, "kind": "ISIMIP_ELA", "var": "tas", "stage": stage, "np_seed": seed, "sizes": info["sizes"], **prob}
        if status == "known-ela":
            ela_stats["inverted_with_option_only"] += 1
            problems.append((describe(name, prob), case, dict(F22_SIGNATURE)))
        else:
            ela_stats["ordinary_violations"] += 1
            problems.append((describe(name, prob), case, {"what": name + "/control"}))
    res.extra["event_likelihood_adjustment_windows"] = ela_stats
    res.extra["oracle_cases"] = hist
    res.extra["oracle_skipped"] = skipped
    res.extra["f16_windows_with_inverted_subthreshold_pair"] = f16_hits

    # ---- verdict
    seen = set()
    for desc, case, sig in problems:
        key = sig.get("what") if sig in KNOWN_SIGNATURES else (case["kind"], case["what"].split(":")[0])
        if key in seen:
            continue
        seen.add(key)
        res.violations.append((desc, {"property": PROP, "failing_input": case, "signature": sig}))
    for desc, rp in res.violations:  # a recorded finding gets no violation file from `finish`: keep F22's failing input replayable
        if rp.get("signature") == F22_SIGNATURE:
            kf = C.match_known(PROP, rp)
            if kf is not None:
                C.write_replay(PROP, "known_" + kf.get("id", "finding"), dict(rp, seed=C.seed(), tier=tier))
    real = [p for p in problems if p[2] not in KNOWN_SIGNATURES]
    if res.tie_broken and not real:
        res.violations.append(("proof obligation / correspondence no longer checks: " + "; ".join(res.tie_broken)[:600],
                               {"property": PROP, "failing_input": None, "broken": res.tie_broken, "mismatches": mismatches[:5]}))
    return res


def replay(data):
    """re-run the failing input of a replay file against the real code; exit 1 if the inversion reproduces"""
    fi = data.get("failing_input")
    if not fi:
        print("replay: no failing input recorded (broken proof obligation / correspondence):", data.get("broken"))
        return 1
    if fi["kind"] == "ISIMIP_ELA":  # event likelihood adjustment: the recorded finding F22, or an ordinary violation of its control
        status, prob, info = run_ela_case(fi["stage"], fi["np_seed"])
        if prob is None:
            print("replay: the relation holds now (event_likelihood_adjustment=True and the control)", info)
            return 0
        print(f"replay C09 ISIMIP tas {fi['stage']} event_likelihood_adjustment=True sizes={info['sizes']}: {status}")
        same = all(prob.get(k) == fi.get(k) for k in ("i", "j", "x_i", "x_j", "out_i", "out_j"))
        if status == "known-ela" and (data.get("signature") or {}) == F22_SIGNATURE:
            print(("REPRODUCED" if same else "REPRODUCED (another pair than the recorded one)") + ": " + describe(fi.get("what", ""), prob))
        else:
            print("replay: " + describe(fi.get("what", ""), prob))
        return 1
    if fi["kind"] == "sequence":
        if fi["debiaser"] == "ISIMIP":
            prob, info = run_isimip_sequence_case(fi["params"]["var"], fi["params"]["overrides"], fi["mode"], fi["np_seed"])
        else:
            prob, info = run_sequence_case(fi["debiaser"], fi["params"], fi["mode"], fi["np_seed"])
    elif fi["kind"] == "dated":
        prob, info = run_dated_case(fi["debiaser"], fi["params"], fi["mode"], fi["np_seed"])
    elif fi["kind"] == "ISIMIP":
        prob, info = run_isimip_case(fi["var"], fi["overrides"], fi["stage"], fi["np_seed"], fi.get("dry"), fi.get("mode", "normal"))
    else:
        prob, info = run_case(fi["kind"], fi["params"], fi["np_seed"])
    if prob is None:
        print("replay: the relation holds now", info)
        return 0
    if prob.get("f16") and not fi.get("f16"):
        # the recorded pair had a not-censored member; what inverts now is only a pair of two distinct sub-threshold inputs (F16, known)
        print("replay: the relation holds now for every pair with a not-censored member (only the known F16 sub-threshold pair inverts)", info)
        return 0
    print("replay: " + describe(fi.get("what", ""), prob))
    return 1
