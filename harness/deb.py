"""DEB — not a registered property: validates the shared layer-N debiaser model (Model/Family, Model/Debiasers,
DrvDebiasers) against the real per-window code.  `./check DEB --tier quick|thorough`."""
import random

from harness import common as C
from harness import debiasers_corr as DC

PROP = "DEB"
TARGETS = ["IbicusModel.Model.Debiasers", "IbicusModel.Lemmas.Family", "IbicusModel.Lemmas.GenDebiasers"]
GEN = ["Debiasers"]


def run(tier, res, families=None, n=None):
    res.rule = ("cases = (configuration, stream, lengths) drawn from one PRNG (VERIF_SEED); distinct = distinct "
                "(configuration, stream, length classes)")
    res.trusted = C.BASE_TRUSTED + ["harness/families.py RatSigmoid implements the formulas of Model.Family.ratSigmoid in numpy floats"]
    res.assumptions = ["inputs dyadic k/64, |k| <= 2^14, lengths 2..60; parametric configurations keep |standardised value| <= 20"]
    C.lean_phase(res, PROP, GEN, TARGETS)
    rng = random.Random(C.seed() * 104729 + 11)
    n = n if n is not None else (60 if tier == "quick" else 2000)
    mm = DC.correspondence(rng, n, tier, res, families=families)
    if mm:
        res.tie_broken.append(f"correspondence DrvDebiasers: {len(mm)} mismatches, first: {str(mm[0])[:1500]}")
        res.extra["mismatches"] = mm[:20]
    if res.tie_broken:
        res.violations.append(("model / correspondence no longer checks: " + "; ".join(res.tie_broken)[:1500],
                               {"property": PROP, "failing_input": None, "broken": res.tie_broken}))
    return res
