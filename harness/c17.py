"""C17 — the precipitation statistical models are coherent (fit, cdf, ppf; dry stays dry).

Lean side: Props/C17.lean (theorems on Model/Precip.lean over an abstract amounts family, for every random draw).
Tier B: the real `gen_PrecipitationHurdleModel` / `gen_PrecipitationIgnoreZeroValuesModel` run with a rational
`scipy.stats.rv_continuous` test double (F(z) = z/(1+z), z = (x - loc)/scale; `fit` overridden) against
drivers/DrvPrecip.lean; `np.random.uniform` is wrapped in-process so the actual draws (and the range they were asked
for) are captured and handed to the driver as the explicit `u` list.  The censored gamma model is hard-wired to
`scipy.stats.gamma`: its `cdf` / `ppf` calls are wrapped and recorded positionally so that only the surrounding
`np.where` logic is compared (with values injected exactly at the threshold).
Property oracle: the property's statement on the real models with the real scipy gamma on zero-inflated gamma samples.
"""
import collections
import random
import warnings
from fractions import Fraction

import numpy as np
import scipy.stats

from harness import common as C

PROP = "C17"
TARGETS = ["IbicusModel.Props.C17", "IbicusModel.Lemmas.GenPrecip", "IbicusModel.Props.C17Gen"]  # the audit imports all three
GEN = ["Precip"]  # tier A: the models' fit / cdf / ppf and the factory, element-wise (translator/extract_precip.py)


# ------------------------------------------------------------------ the rational test double
class RatDouble(scipy.stats.rv_continuous):
    """F(z) = z/(1+z) on (0, inf); `fit` returns the (loc, scale) the harness chose and records how it was called"""

    def _cdf(self, x):
        return x / (1.0 + x)

    def _ppf(self, p):
        return p / (1.0 - p)

    def fit(self, data, *args, **kwds):
        self.fit_calls.append((np.array(data, dtype=float), args, dict(kwds)))
        return (self.fit_loc, self.fit_scale)


def make_double(loc, scale):
    d = RatDouble(a=0.0, name="ratdouble")
    d.fit_calls, d.fit_loc, d.fit_scale = [], float(loc), float(scale)
    return d


class Patched:
    """in-process wrappers: np.random.uniform (record range + draws), scipy.stats.gamma.cdf/ppf (record, optionally
    inject), the censored model's Nelder-Mead fit (record its arguments)"""

    def __init__(self, inject_ppf=None, fake_fit=None):
        self.uniform_calls, self.gamma_cdf_calls, self.gamma_ppf_calls, self.fit_calls = [], [], [], []
        self.inject_ppf, self.fake_fit = inject_ppf, fake_fit

    def __enter__(self):
        from ibicus.utils import _math_utils as M

        self.M = M
        self._uniform = np.random.uniform
        gam = scipy.stats.gamma
        cdf0, ppf0 = gam.cdf, gam.ppf

        def uniform(low=0.0, high=1.0, size=None):
            r = self._uniform(low, high, size)
            self.uniform_calls.append((low, high, size, np.array(r, dtype=float)))
            return r

        def cdf(x, *a, **k):
            r = cdf0(x, *a, **k)
            self.gamma_cdf_calls.append((np.array(x, dtype=float), a, np.array(r, dtype=float)))
            return r

        def ppf(q, *a, **k):
            r = np.array(self.inject_ppf, dtype=float) if self.inject_ppf is not None else ppf0(q, *a, **k)
            self.gamma_ppf_calls.append((np.array(q, dtype=float), a, np.array(r, dtype=float)))
            return r

        np.random.uniform = uniform
        gam.cdf, gam.ppf = cdf, ppf  # instance attributes shadow the methods; removed again in __exit__
        if self.fake_fit is not None:
            self._fit = M.gen_PrecipitationGammaLeftCensoredModel.__dict__["_fit_censored_gamma"]

            def fit(x, nr, thr):
                self.fit_calls.append((np.array(x, dtype=float), int(nr), float(thr)))
                return self.fake_fit

            M.gen_PrecipitationGammaLeftCensoredModel._fit_censored_gamma = staticmethod(fit)
        return self

    def __exit__(self, *exc):
        np.random.uniform = self._uniform
        gam = scipy.stats.gamma
        del gam.cdf, gam.ppf
        if self.fake_fit is not None:
            self.M.gen_PrecipitationGammaLeftCensoredModel._fit_censored_gamma = self._fit
        return False


def quiet(f, *a, **kw):
    with warnings.catch_warnings(), np.errstate(all="ignore"):
        warnings.simplefilter("ignore")
        return f(*a, **kw)


# ------------------------------------------------------------------ generators
def gen_precip(rng, n, grid=64):
    """zero-inflated non-negative dyadic sample with a dry fraction strictly between 0 and 1"""
    n = max(n, 2)
    k0 = rng.randint(1, n - 1)
    wet = [rng.randint(1, 40 * grid) / grid for _ in range(n - k0)]
    v = [0.0] * k0 + wet
    rng.shuffle(v)
    return np.array(v, dtype=float)


def tok(v):
    if isinstance(v, float) and np.isnan(v):
        return "nan"
    if v == -np.inf:
        return "-inf"
    if v == np.inf:
        return "nan"  # scipy's +inf at q = 1: the model's partial ppf has no value there either
    return C.rat(v)


class Corr:
    def __init__(self, res):
        self.res, self.lines, self.expect, self.mismatches = res, [], [], []

    def add(self, line, real, mode, info, scale=1.0):
        self.lines.append(line)
        self.expect.append((real, mode, info, scale))

    def direct(self, ok, info, impl, model):
        self.res.cov["traces_validated_against_impl"] += 1
        if not ok:
            self.mismatches.append({"op": info, "impl": str(impl)[:300], "model": str(model)[:300]})

    def run(self):
        if not self.lines:
            return
        try:
            out = C.run_driver("DrvPrecip", self.lines)
        except Exception as ex:  # noqa: BLE001
            self.mismatches.append({"op": "driver", "impl": "", "model": f"{type(ex).__name__}: {str(ex)[:300]}"})
            return
        for (real, mode, info, scale), got, line in zip(self.expect, out, self.lines):
            self.res.cov["traces_validated_against_impl"] += 1
            if mode == "text":
                if got != real:
                    self.mismatches.append({"op": info, "impl": real, "model": got, "line": line[:300]})
                continue
            toks = [] if got == "-" else got.split(",")
            real = list(np.atleast_1d(real))
            if got == "bad-op" or len(toks) != len(real):
                self.mismatches.append({"op": info, "impl": [tok(float(r)) for r in real][:12], "model": got[:300], "line": line[:300]})
                continue
            for i, (r, t) in enumerate(zip(real, toks)):
                r = float(r)
                if t in ("nan", "-inf"):
                    good = tok(r) == t
                elif not np.isfinite(r):
                    good = False
                elif mode == "exact":
                    good = Fraction(r) == Fraction(t)
                elif mode == "relfloat":  # outputs in the data's units (possibly a flux ~1e-10): relative to the output scale
                    good = abs(r - float(Fraction(t))) <= 1e-9 * scale
                else:
                    good = abs(r - float(Fraction(t))) <= 1e-9 * (1 + scale)
                if not good:
                    self.mismatches.append({"op": info, "index": i, "impl": tok(r), "model": t, "line": line[:400]})
                    break


# ------------------------------------------------------------------ correspondence (tier B)
# the inputs of the correspondence case that is currently running (set by each corr_* function before the first call of the
# real code): an exception of the code under test that escapes a case is reported as a violation carrying them
_CASE = {}


def _set_case(**kw):
    _CASE.clear()
    _CASE.update(kw)


def corr_hurdle_iz(rng, k, corr, res):
    from ibicus.utils import _math_utils as M

    n = rng.randint(2, 14)
    # units: mm/day (1) or a flux in kg m-2 s-1 (values down to 2^-40 ~ 1e-12: wet values far below 1e-8 occur)
    unit = rng.choice([1.0, 1.0, 2.0 ** -20, 2.0 ** -34])
    dt = np.float32 if rng.random() < 0.3 else np.float64  # dyadic values: exactly representable in float32
    data = (gen_precip(rng, n) * unit).astype(dt)
    xs = np.concatenate([data, (np.array([0.0, 0.0] + [rng.randint(0, 3000) / 64 for _ in range(4)]) * unit).astype(dt)])
    loc = rng.choice([0.0, 0.0, 0.5, 1.0, 0.25]) * unit
    scale = rng.choice([1.0, 2.0, 0.5, 4.0, 0.125]) * unit
    rand = rng.random() < 0.6
    fit_kwds = rng.choice([{"floc": 0, "fscale": None}, {"floc": 0, "fscale": None}, None, {"floc": 0.5}, {"floc": 0}])
    dbl = make_double(loc, scale)
    _set_case(models="gen_PrecipitationHurdleModel / gen_PrecipitationIgnoreZeroValuesModel with the rational rv_continuous double (fit -> (loc, scale))",
              data=data.tolist(), dtype=dt.__name__, x=xs.tolist(), family_loc=loc, family_scale=scale, cdf_randomization=rand, fit_kwds=str(fit_kwds),
              wet_values=int((data != 0).sum()), calls="fit(data); cdf(x, *fit); ppf(cdf values + [p0, 0, 1 - 2^-20, p0/2, (1 + p0)/2], *fit)")
    tag = f"case {k} hurdle rand={rand} loc={loc} scale={scale}"
    model = M.gen_PrecipitationHurdleModel(distribution=dbl, fit_kwds=fit_kwds, cdf_randomization=rand)

    def R(a):
        return C.rlist(np.asarray(a, dtype=np.float64))

    np.random.seed(C.seed() * 1000 + k)
    with Patched() as P:
        fit = quiet(model.fit, data)
        p0 = float(fit[0])
        cdf_raw = np.asarray(quiet(model.cdf, xs, *fit))
        cdf_dtype = cdf_raw.dtype
        cdf = cdf_raw.astype(float)
        qs = np.concatenate([cdf_raw, np.array([p0, 0.0, 1.0 - 2.0 ** -20, p0 / 2, (1 + p0) / 2])])
        ppf_raw = np.asarray(quiet(model.ppf, qs, *fit))
        ppf_dtype = ppf_raw.dtype
        ppf = ppf_raw.astype(float)
    res.count(("hurdle", n, int((data == 0).sum()), rand, loc > 0, fit_kwds is None, unit, dt.__name__), True,
              sample={"model": "hurdle", "data": data.tolist()[:8], "dtype": dt.__name__, "rand": rand, "loc": loc, "scale": scale, "p0": p0})
    # the cdf / ppf are computed in double precision whatever the dtype of the data
    corr.direct(cdf_dtype == np.float64 and ppf_dtype == np.float64, f"{tag} cdf / ppf of {dt.__name__} data are float64", (cdf_dtype, ppf_dtype), "float64")
    # fit: p0 and what the amounts distribution was fitted on
    corr.add(f"p0 {R(data)}", [p0], "float", f"{tag} fit p0")
    call = dbl.fit_calls[0] if dbl.fit_calls else (np.array([]), None, None)
    corr.add(f"rainy {R(data)}", call[0], "exact", f"{tag} data handed to distribution.fit")
    want_kw = {} if fit_kwds is None else fit_kwds
    corr.direct(len(dbl.fit_calls) == 1 and call[1] == () and call[2] == want_kw, f"{tag} distribution.fit called as fit(rainy_days, **fit_kwds)", call[1:], want_kw)
    corr.direct(tuple(fit[1]) == (loc, scale), f"{tag} fit returns (p0, distribution fit)", fit[1], (loc, scale))
    # randomisation: one draw per position from uniform(0, p0)
    if rand:
        okc = len(P.uniform_calls) == 1 and P.uniform_calls[0][0] == 0 and P.uniform_calls[0][1] == p0 and tuple(np.atleast_1d(P.uniform_calls[0][2])) == xs.shape
        corr.direct(okc, f"{tag} np.random.uniform called once as uniform(0, p0, x.shape)", [(c[0], c[1], c[2]) for c in P.uniform_calls], (0, p0, xs.shape))
        us = P.uniform_calls[0][3] if P.uniform_calls and P.uniform_calls[0][3].shape == xs.shape else np.zeros_like(xs)
    else:
        corr.direct(len(P.uniform_calls) == 0, f"{tag} no random draw without cdf_randomization", len(P.uniform_calls), 0)
        us = np.zeros_like(xs)
    corr.add(f"hcdf {C.rat(loc)} {C.rat(scale)} {C.rat(p0)} {'true' if rand else 'false'} {R(xs)} {R(us)}", cdf, "float", f"{tag} cdf")
    corr.add(f"hppf {C.rat(loc)} {C.rat(scale)} {C.rat(p0)} {R(qs)}", ppf, "relfloat", f"{tag} ppf", scale=float(np.nanmax(np.where(np.isfinite(ppf), np.abs(ppf), 0))))

    # ignore-zeros model on the same data
    dbl2 = make_double(loc, scale)
    model2 = M.gen_PrecipitationIgnoreZeroValuesModel(distribution=dbl2, fit_kwds=fit_kwds)
    tag2 = f"case {k} ignore_zeros loc={loc} scale={scale}"
    with Patched() as P2:
        fit2 = quiet(model2.fit, data)
        cdf2_raw = np.asarray(quiet(model2.cdf, xs, *fit2))
        cdf2 = cdf2_raw.astype(float)
        qs2 = np.concatenate([cdf2_raw, np.array([-np.inf, 0.0, 0.5, 0.75])])
        ppf2_raw = np.asarray(quiet(model2.ppf, qs2, *fit2))
        ppf2 = ppf2_raw.astype(float)
    res.count(("ignore_zeros", n, int((data == 0).sum()), loc > 0, fit_kwds is None, unit, dt.__name__), True)
    corr.direct(cdf2_raw.dtype == np.float64 and ppf2_raw.dtype == np.float64, f"{tag2} cdf / ppf of {dt.__name__} data are float64", (cdf2_raw.dtype, ppf2_raw.dtype), "float64")
    call2 = dbl2.fit_calls[0] if dbl2.fit_calls else (np.array([]), None, None)
    corr.add(f"rainy {R(data)}", call2[0], "exact", f"{tag2} data handed to distribution.fit")
    corr.direct(len(dbl2.fit_calls) == 1 and call2[1] == () and call2[2] == want_kw, f"{tag2} distribution.fit called as fit(rainy_days, **fit_kwds)", call2[1:], want_kw)
    corr.direct(len(P2.uniform_calls) == 0, f"{tag2} no random draw", len(P2.uniform_calls), 0)
    corr.add(f"izcdf {C.rat(loc)} {C.rat(scale)} {R(xs)}", cdf2, "float", f"{tag2} cdf")
    corr.add(f"izppf {C.rat(loc)} {C.rat(scale)} {','.join(tok(float(q)) for q in qs2)}", ppf2, "relfloat", f"{tag2} ppf",
             scale=float(np.nanmax(np.where(np.isfinite(ppf2), np.abs(ppf2), 0))))


def corr_censored(rng, k, corr, res):
    from ibicus.utils import _math_utils as M

    thr = rng.choice([0.1, 0.05, 0.5, 1.0, 0.125, 0.3])
    censor = rng.random() < 0.7
    n = rng.randint(2, 14)
    data = gen_precip(rng, n, grid=16)
    near = [thr, float(np.nextafter(thr, 0)), float(np.nextafter(thr, 1e9)), thr / 2, 0.0, 2 * thr]
    xs = np.concatenate([data, np.array(near)])
    fake = (rng.choice([0.5, 1.0, 2.5]), 0, rng.choice([0.5, 1.0, 3.0]))
    tag = f"case {k} censored thr={thr} censor_in_ppf={censor}"
    R = C.rlist
    model = M.gen_PrecipitationGammaLeftCensoredModel(censoring_threshold=thr, censor_in_ppf=censor)
    np.random.seed(C.seed() * 1000 + 500 + k)
    inject = np.array(near + [rng.randint(0, 640) / 64 for _ in range(5)] + [thr * rng.random() for _ in range(3)])
    _set_case(models="gen_PrecipitationGammaLeftCensoredModel (Nelder-Mead fit replaced by fixed parameters)", data=data.tolist(), x=xs.tolist(), censoring_threshold=thr,
              censor_in_ppf=censor, fit=list(fake), calls="fit(data); cdf(x, *fit); ppf(cdf(x), *fit)")
    with Patched(fake_fit=fake) as P:
        fit = quiet(model.fit, data)
        cdf = np.asarray(quiet(model.cdf, xs, *fit), dtype=float)
        ppf_rt = np.asarray(quiet(model.ppf, cdf, *fit), dtype=float)
    with Patched(inject_ppf=inject) as P3:
        ppf_inj = np.asarray(quiet(model.ppf, np.full(inject.shape, 0.5), *fit), dtype=float)
    res.count(("censored", thr, censor, n, int((data < thr).sum())), True,
              sample={"model": "censored", "data": data.tolist()[:8], "thr": thr, "censor_in_ppf": censor})
    # fit: which data go to the likelihood fit
    fc = P.fit_calls[0] if P.fit_calls else (np.array([]), -1, -1.0)
    corr.add(f"censfit {C.rat(thr)} {R(data)}", f"{R(fc[0])} {fc[1]}", "text", f"{tag} arguments of _fit_censored_gamma")
    corr.direct(len(P.fit_calls) == 1 and fc[2] == thr and tuple(fit) == fake, f"{tag} fit passes the threshold and returns the optimiser's result", (fc[2], fit), (thr, fake))
    # cdf: one uniform(0, thr) draw per position, the where, then scipy's gamma cdf with the fit
    okc = len(P.uniform_calls) == 1 and P.uniform_calls[0][0] == 0 and P.uniform_calls[0][1] == thr and tuple(np.atleast_1d(P.uniform_calls[0][2])) == xs.shape
    corr.direct(okc, f"{tag} np.random.uniform called once as uniform(0, thr, x.shape)", [(c[0], c[1], c[2]) for c in P.uniform_calls], (0, thr, xs.shape))
    us = P.uniform_calls[0][3] if P.uniform_calls and P.uniform_calls[0][3].shape == xs.shape else np.zeros_like(xs)
    gc = P.gamma_cdf_calls[0] if P.gamma_cdf_calls else (np.array([]), (), np.array([]))
    corr.add(f"censarg {C.rat(thr)} {R(xs)} {R(us)}", gc[0], "exact", f"{tag} argument of scipy.stats.gamma.cdf")
    corr.direct(len(P.gamma_cdf_calls) == 1 and tuple(gc[1]) == fake and np.array_equal(gc[2], cdf), f"{tag} cdf returns gamma.cdf(arg, *fit)", gc[1], fake)
    # ppf: scipy's gamma ppf with the fit, then the censoring where
    gp = P.gamma_ppf_calls[0] if P.gamma_ppf_calls else (np.array([]), (), np.array([]))
    corr.direct(len(P.gamma_ppf_calls) == 1 and tuple(gp[1]) == fake and np.array_equal(gp[0], cdf), f"{tag} ppf calls gamma.ppf(q, *fit)", gp[1], fake)
    fin = np.isfinite(gp[2])
    corr.add(f"censpost {C.rat(thr)} {'true' if censor else 'false'} {R(gp[2][fin])}", ppf_rt[fin], "exact", f"{tag} ppf after gamma.ppf (recorded values)")
    corr.add(f"censpost {C.rat(thr)} {'true' if censor else 'false'} {R(inject)}", ppf_inj, "exact", f"{tag} ppf after gamma.ppf (values injected at and around the threshold)")


def corr_factory(rng, k, corr, res):
    from ibicus import variables as V
    from ibicus.utils import _math_utils as M

    t = rng.choice(["censored", "censored", "hurdle", "ignore_zeros", "Censored", "zero", ""])
    dist = rng.choice([scipy.stats.gamma, scipy.stats.gamma, scipy.stats.weibull_min, scipy.stats.gengamma])
    thr = rng.choice([0.1, 0.05, 1.0, 0.0, -0.5, 2.5])
    rand = rng.random() < 0.5
    _set_case(call=f"map_standard_precipitation_method({t!r}, scipy.stats.{dist.name}, {thr}, {rand})")
    try:
        m = quiet(V.map_standard_precipitation_method, t, dist, thr, rand)
        if isinstance(m, M.gen_PrecipitationGammaLeftCensoredModel):
            got = f"censored {C.rat(m.censoring_threshold)}" + ("" if m.censor_in_ppf else " uncensored")
        elif isinstance(m, M.gen_PrecipitationHurdleModel):
            got = f"hurdle {'true' if m.cdf_randomization else 'false'}"
            if m.distribution is not dist or m.fit_kwds != {"floc": 0, "fscale": None}:
                got += " wrong-distribution-or-fit_kwds"
        elif isinstance(m, M.gen_PrecipitationIgnoreZeroValuesModel):
            got = "ignore_zeros" + ("" if m.distribution is dist else " wrong-distribution")
        else:
            got = f"other {type(m).__name__}"
    except Exception as ex:  # noqa: BLE001
        got = f"error {type(ex).__name__}"
    res.count(("factory", t, dist.name == "gamma", thr > 0, rand), True)
    corr.add(f"factory {t or '_'} {'true' if dist is scipy.stats.gamma else 'false'} {C.rat(thr)} {'true' if rand else 'false'}", got, "text",
             f"case {k} map_standard_precipitation_method({t!r}, {dist.name}, {thr}, {rand})")


# ------------------------------------------------------------------ the property's oracle on the real models
def gen_gamma_sample(nrng, n):
    shape = float(nrng.choice([0.4, 0.7, 1.0, 2.0, 5.0]))
    # mm/day scales and precipitation fluxes in kg m-2 s-1 (scale 4e-5 ~ 2 mm/day; wet values below 1e-8 occur)
    scale = float(nrng.choice([0.05, 0.5, 2.0, 10.0, 40.0, 4e-5, 1e-7, 1e-9]))
    dry = float(nrng.uniform(0.05, 0.95))
    wet = nrng.gamma(shape, scale, size=n)
    z = nrng.uniform(size=n) < dry
    z[0], z[1:6] = True, False  # dry fraction strictly inside (0,1); >= 5 wet values so that scipy's gamma MLE is defined
    return np.where(z, 0.0, wet), shape, scale


def oracle(nrng, problems, stats, k):
    try:
        return oracle_(nrng, problems, stats, k)
    except Exception as ex:  # noqa: BLE001  - a real model raising on a valid zero-inflated sample
        import traceback

        where = [f for f in traceback.extract_tb(ex.__traceback__) if "ibicus" in f.filename]
        n2 = np.random.default_rng(k)
        n = int(n2.integers(20, 120))
        data, shape, scale = gen_gamma_sample(n2, n)
        problems.append((f"a precipitation model raises {type(ex).__name__}: {str(ex)[:120]} on a zero-inflated gamma sample with {int((data > 0).sum())} wet values "
                         f"(gamma scale {scale}; in {where[-1].name if where else '?'})",
                         {"data": data.tolist(), "gamma_shape": shape, "gamma_scale": scale, "numpy_seed_of_case": k},
                         {"law": "exception", "exception": type(ex).__name__, "in": where[-1].name if where else "?"}))


def oracle_(nrng, problems, stats, k):
    """one zero-inflated gamma sample through the three real models (real scipy gamma)"""
    from ibicus.utils import _math_utils as M

    n = int(nrng.integers(20, 120))
    data, shape, scale = gen_gamma_sample(nrng, n)
    wet = np.sort(data[data > 0])
    nz = int((data == 0).sum())
    info = {"data": data.tolist(), "gamma_shape": shape, "gamma_scale": scale, "numpy_seed_of_case": k}

    def bad(desc, sig, **extra):
        problems.append((desc, {**info, **extra}, sig))

    data32 = data.astype(np.float32)  # the usual storage dtype of model output; cdf / ppf must still be computed in float64
    d32 = data32.astype(np.float64)
    nz32 = int((data32 == 0).sum())

    def f32_checks(cdf32, back32, F32, sig, name):
        s32 = {**sig, "input_dtype": "float32"}
        if cdf32.dtype != np.float64 or back32.dtype != np.float64:
            bad(f"{name}: cdf / ppf of float32 data have dtype {cdf32.dtype} / {back32.dtype}, not float64", {**s32, "law": "result_dtype"})
        b = back32.astype(float)
        if np.any(b[d32 == 0] != 0):
            bad(f"{name} (float32 data): a dry value does not stay dry", {**s32, "law": "dry"})
        m = d32 > 0
        if not rt_ok(d32[m], b[m], F32[m]):
            k_ = np.where(m)[0][np.argmax(np.where((F32[m] >= 1e-4) & (F32[m] <= 1 - 1e-4), np.abs(b[m] - d32[m]) / d32[m], 0))]
            bad(f"{name} (float32 data): ppf(cdf(x)) != x for a wet value: x = {d32[k_]!r} comes back as {b[k_]!r}", {**s32, "law": "wet_roundtrip"})

    def rt_ok(x, back, F):
        """round trip demanded where the float cdf has room: 1e-4 <= F <= 1 - 1e-4 (float guard, see assumptions)"""
        m = (F >= 1e-4) & (F <= 1 - 1e-4)
        stats["roundtrip_values_checked"] += int(m.sum())
        stats["roundtrip_values_skipped_float_guard"] += int((~m).sum())
        return np.all(np.abs(back[m] - x[m]) <= 1e-9 * np.abs(x[m]))

    # ---- hurdle, with and without randomisation
    for rand in (True, False):
        model = M.gen_PrecipitationHurdleModel(cdf_randomization=rand)
        sig = {"model": "hurdle", "cdf_randomization": rand}
        np.random.seed(k)
        with Patched() as P:
            fit = quiet(model.fit, data)
            p0 = fit[0]
            cdf = np.asarray(quiet(model.cdf, data, *fit), dtype=float)
            back = np.asarray(quiet(model.ppf, cdf, *fit), dtype=float)
            cw = np.asarray(quiet(model.cdf, wet, *fit), dtype=float)
            p0_32 = quiet(model.fit, data32)[0]
            cdf32 = np.asarray(quiet(model.cdf, data32, *fit))
            back32 = np.asarray(quiet(model.ppf, cdf32, *fit))
        if abs(p0 - nz / n) > 1e-15:
            bad(f"hurdle fit: p0 = {p0}, observed fraction of zeros {nz}/{n} ({int(((data > 0) & (data < 1e-8)).sum())} wet values are below 1e-8)", {**sig, "law": "p0"})
        if abs(p0_32 - nz32 / n) > 1e-15:
            bad(f"hurdle fit (float32 data): p0 = {p0_32}, observed fraction of zeros {nz32}/{n}", {**sig, "law": "p0", "input_dtype": "float32"})
        f32_checks(cdf32, back32, scipy.stats.gamma.cdf(d32, *fit[1]), sig, "hurdle")
        if not (np.all(cdf >= 0) and np.all(cdf <= 1)):
            bad("hurdle cdf outside [0,1]", {**sig, "law": "cdf_range"})
        if np.any(back[data == 0] != 0):
            bad(f"hurdle: ppf(cdf(0)) = {back[data == 0][back[data == 0] != 0][:3].tolist()} — a dry value does not stay dry (p0 = {p0})", {**sig, "law": "dry"})
        if np.any(cdf[data > 0] < p0):
            bad("hurdle: a wet value receives a cdf value below the dry probability", {**sig, "law": "wet_above_p0"})
        F = scipy.stats.gamma.cdf(data, *fit[1])
        wetm = data > 0
        if not rt_ok(data[wetm], back[wetm], F[wetm]):
            bad("hurdle: ppf(cdf(x)) != x for a wet value (relative 1e-9)", {**sig, "law": "wet_roundtrip"})
        if np.any(np.diff(cw) < 0):
            bad("hurdle cdf decreasing over wet values", {**sig, "law": "cdf_monotone"})
        for (low, high, size, r) in P.uniform_calls:
            if not (low == 0 and high == p0) or np.any(r < 0) or (p0 > 0 and np.any(r >= p0)):
                bad(f"hurdle randomisation draws from uniform({low}, {high}) instead of uniform(0, p0 = {p0})", {**sig, "law": "randomisation_range"})
        stats["hurdle_checks"] += 1
    # ---- hurdle with the rational double whose support starts at loc > 0 (ppf(0) = loc, as for a fitted location)
    loc = float(nrng.choice([0.25, 1.0]))
    dbl = make_double(loc, 2.0)
    d2 = np.where(data > 0, data / scale + loc, 0.0)  # in units of the gamma scale, shifted into the double's support
    for rand in (True, False):
        model = M.gen_PrecipitationHurdleModel(distribution=dbl, fit_kwds=None, cdf_randomization=rand)
        np.random.seed(k)
        fit = quiet(model.fit, d2)
        back = np.asarray(quiet(model.ppf, np.asarray(quiet(model.cdf, d2, *fit)), *fit), dtype=float)
        if np.any(back[d2 == 0] != 0):
            bad(f"hurdle (amounts family with support ({loc}, inf), cdf_randomization={rand}): ppf(cdf(0)) = {back[d2 == 0][back[d2 == 0] != 0][:3].tolist()} — a dry value does not stay dry",
                {"model": "hurdle", "cdf_randomization": rand, "law": "dry", "family": "rational double with loc > 0"}, loc=loc, data_used=d2.tolist())
        m = (d2 - loc > 1e-4) & (d2 - loc < 1e4)  # float guard as for the gamma round trip: 1e-4 <~ F <~ 1 - 1e-4
        if np.any(np.abs(back[m] - d2[m]) > 1e-9 * d2[m]):
            bad("hurdle (rational double): wet round trip fails", {"model": "hurdle", "cdf_randomization": rand, "law": "wet_roundtrip", "family": "rational double with loc > 0"}, loc=loc)
        stats["hurdle_double_checks"] += 1
    # ---- ignore zeros
    model = M.gen_PrecipitationIgnoreZeroValuesModel()
    sig = {"model": "ignore_zeros"}
    fit = quiet(model.fit, data)
    cdf = np.asarray(quiet(model.cdf, data, *fit), dtype=float)
    back = np.asarray(quiet(model.ppf, cdf, *fit), dtype=float)
    if np.any(cdf[data == 0] != -np.inf):
        bad("ignore-zeros: cdf(0) is not -inf", {**sig, "law": "cdf_zero"})
    if np.any(back[data == 0] != 0):
        bad("ignore-zeros: ppf(cdf(0)) != 0", {**sig, "law": "dry"})
    wetm = data > 0
    if not (np.all(cdf[wetm] >= 0) and np.all(cdf[wetm] <= 1)):
        bad("ignore-zeros: cdf of a wet value outside [0,1]", {**sig, "law": "cdf_range"})
    if not rt_ok(data[wetm], back[wetm], cdf[wetm]):
        bad("ignore-zeros: ppf(cdf(x)) != x for a wet value", {**sig, "law": "wet_roundtrip"})
    if np.any(np.diff(np.asarray(quiet(model.cdf, wet, *fit), dtype=float)) < 0):
        bad("ignore-zeros cdf decreasing over wet values", {**sig, "law": "cdf_monotone"})
    cdf32 = np.asarray(quiet(model.cdf, data32, *fit))
    back32 = np.asarray(quiet(model.ppf, cdf32, *fit))
    if np.any(cdf32[d32 == 0] != -np.inf):
        bad("ignore-zeros (float32 data): cdf(0) is not -inf", {**sig, "law": "cdf_zero", "input_dtype": "float32"})
    f32_checks(cdf32, back32, scipy.stats.gamma.cdf(d32, *fit), sig, "ignore-zeros")
    stats["ignore_zeros_checks"] += 1
    # ---- censored gamma (parameters: the generating ones; the optimiser is outside the model — one real fit in a while)
    thr = float(nrng.choice([0.1, 0.05, 0.5])) * (1.0 if scale >= 0.05 else scale)  # threshold in the data's units
    for censor in (True, False):
        model = M.gen_PrecipitationGammaLeftCensoredModel(censoring_threshold=thr, censor_in_ppf=censor)
        sig = {"model": "censored", "censor_in_ppf": censor}
        fit = (shape, 0, scale)
        if k % 25 == 0 and censor and scale >= 0.05 and int((data > thr).sum()) >= 10:  # guard: enough non-censored values for the likelihood fit
            fit = quiet(model.fit, data)
            stats["censored_real_fits"] += 1
            if not (np.isfinite(fit[0]) and fit[0] > 0 and fit[2] > 0 and fit[1] == 0):
                bad(f"censored fit returns non-positive / non-finite parameters {fit}", {**sig, "law": "fit"})
                fit = (shape, 0, scale)
        xs = np.concatenate([data, [thr]])
        np.random.seed(k)
        with Patched() as P:
            cdf = np.asarray(quiet(model.cdf, xs, *fit), dtype=float)
            back = np.asarray(quiet(model.ppf, cdf, *fit), dtype=float)
        if not (np.all(cdf >= 0) and np.all(cdf <= 1)):
            bad("censored cdf outside [0,1]", {**sig, "law": "cdf_range"})
        for (low, high, size, r) in P.uniform_calls:
            if not (low == 0 and high == thr) or np.any(r < 0) or np.any(r >= thr):
                bad(f"censored model draws from uniform({low}, {high}) instead of uniform(0, threshold = {thr})", {**sig, "law": "randomisation_range"})
        below = xs < thr
        if censor and np.any(back[below] != 0):
            bad(f"censored (censor_in_ppf): ppf(cdf(x)) = {back[below][back[below] != 0][:3].tolist()} for x below the threshold {thr} — dry does not stay dry", {**sig, "law": "dry"})
        if not censor and (np.any(back[below] >= thr * (1 + 1e-9)) or np.any(back[below] < 0)):
            bad("censored (censor_in_ppf=False): a value below the threshold comes back at or above it", {**sig, "law": "dry_uncensored"})
        above = xs > thr * (1 + 1e-9)
        if not rt_ok(xs[above], back[above], cdf[above]):
            bad("censored: ppf(cdf(x)) != x for a value above the threshold", {**sig, "law": "wet_roundtrip"})
        at = back[-1]
        if not (abs(at - thr) <= 1e-9 * thr or (censor and at == 0)):
            bad(f"censored: value at the threshold comes back as {at}", {**sig, "law": "at_threshold"})
        elif censor and at == 0:
            stats["ties_accepted_at_threshold"] += 1
        np.random.seed(k + 1)
        cdf32 = np.asarray(quiet(model.cdf, data32, *fit))
        back32 = np.asarray(quiet(model.ppf, cdf32, *fit))
        if cdf32.dtype != np.float64 or back32.dtype != np.float64:
            bad(f"censored: cdf / ppf of float32 data have dtype {cdf32.dtype} / {back32.dtype}, not float64", {**sig, "law": "result_dtype", "input_dtype": "float32"})
        a32 = d32 > thr * (1 + 1e-6)
        if not rt_ok(d32[a32], back32.astype(float)[a32], cdf32.astype(float)[a32]):
            bad("censored (float32 data): ppf(cdf(x)) != x for a value above the threshold", {**sig, "law": "wet_roundtrip", "input_dtype": "float32"})
        if censor and np.any(back32[d32 < thr * (1 - 1e-6)] != 0):
            bad("censored (float32 data, censor_in_ppf): a value below the threshold does not come back as 0", {**sig, "law": "dry", "input_dtype": "float32"})
        cwet = np.asarray(scipy.stats.gamma.cdf(wet[wet >= thr], *fit))
        if np.any(np.diff(cwet) < 0):
            bad("censored cdf decreasing over wet values", {**sig, "law": "cdf_monotone"})
        # a ppf result that is exactly the threshold is not below it and must not be censored
        if censor:
            q0 = float(scipy.stats.gamma.cdf(thr, *fit))
            q = q0
            cand = []
            for _ in range(12):
                cand.append(q)
                q = float(np.nextafter(q, 0))
            q = q0
            for _ in range(12):
                q = float(np.nextafter(q, 1))
                cand.append(q)
            cand = np.array(cand)
            raw = scipy.stats.gamma.ppf(cand, *fit)
            hit = raw == thr
            if hit.any():
                stats["exact_threshold_hits"] += 1
                got = np.asarray(quiet(model.ppf, cand[hit], *fit), dtype=float)
                if np.any(got != thr):
                    bad(f"censored ppf: gamma.ppf(q) is exactly the threshold {thr} (not below it) but the model returns {got[got != thr][:2].tolist()}", {**sig, "law": "ppf_at_threshold"},
                        q=cand[hit].tolist(), fit=[float(f) for f in fit], threshold=thr)
        stats["censored_checks"] += 1


def oracle_extreme_fraction(nrng, problems, stats, k):
    """long series with a dry fraction below 0.1 % or above 99.9 % (>= 5 wet values so that the gamma MLE is defined)"""
    from ibicus.utils import _math_utils as M

    n = int(nrng.choice([2000, 5000, 10950]))
    shape, scale = float(nrng.choice([0.7, 1.0, 2.0])), float(nrng.choice([0.5, 2.0, 10.0, 4e-5]))
    if nrng.uniform() < 0.5:
        n_dry = int(nrng.integers(1, max(2, n // 1001)))  # almost always wet
    else:
        n_dry = n - int(nrng.integers(5, 9))  # almost always dry
    data = np.concatenate([np.zeros(n_dry), nrng.gamma(shape, scale, size=n - n_dry)])
    nrng.shuffle(data)
    info = {"n": n, "n_dry": n_dry, "wet_values": data[data > 0][:12].tolist(), "gamma_shape": shape, "gamma_scale": scale, "numpy_seed_of_case": k, "generator": "extreme_fraction"}
    for rand in (True, False):
        model = M.gen_PrecipitationHurdleModel(cdf_randomization=rand)
        sig = {"model": "hurdle", "cdf_randomization": rand, "dry_fraction": "extreme"}
        np.random.seed(k)
        fit = quiet(model.fit, data)
        p0 = fit[0]
        cdf = np.asarray(quiet(model.cdf, data, *fit), dtype=float)
        back = np.asarray(quiet(model.ppf, cdf, *fit), dtype=float)
        frac = n_dry / n
        if abs(p0 - frac) > 1e-15:
            problems.append((f"hurdle fit: p0 = {p0!r} but the observed fraction of zeros is {n_dry}/{n} = {frac!r}", info, {**sig, "law": "p0"}))
        if np.any(cdf[data > 0] < frac - 1e-15) or np.any(cdf[data == 0] > frac + 1e-15):  # 1 - k/n vs (n-k)/n differ by an ulp
            problems.append((f"hurdle ({n_dry} dry of {n}): a wet value receives a cdf value below / a dry value above the observed dry fraction {frac!r}", info, {**sig, "law": "wet_above_p0"}))
        if np.any(back[data == 0] != 0):
            problems.append((f"hurdle ({n_dry} dry of {n}): a dry value does not stay dry", info, {**sig, "law": "dry"}))
        if not (np.all(cdf >= 0) and np.all(cdf <= 1)):
            problems.append(("hurdle cdf outside [0,1]", info, {**sig, "law": "cdf_range"}))
        F = scipy.stats.gamma.cdf(data, *fit[1])
        m = (data > 0) & (F >= 1e-3) & (F <= 1 - 1e-3)
        if np.any(np.abs(back[m] - data[m]) > 1e-6 * data[m]):  # (q - p0)/(1 - p0) amplifies rounding by 1/(1 - p0) <= 2200
            problems.append((f"hurdle ({n_dry} dry of {n}): wet round trip fails (relative 1e-6)", info, {**sig, "law": "wet_roundtrip"}))
        stats["extreme_fraction_checks"] += 1


def oracle_tails(nrng, problems, stats, k):
    """wet values far in the tails of the amounts distribution (tail probability 1e-10 … 3e-15, cdf still strictly inside
    (0,1) in float64) must round-trip as well as the distribution itself allows: ppf(cdf(x)) is ill-conditioned there, so the
    tolerance is derived per element from the real distribution — a few ulps of the cdf value divided by the density,
    inflated by 1/(1 - p0) for the hurdle mixture — and from what scipy's own gamma.ppf(gamma.cdf(x)) achieves."""
    from ibicus.utils import _math_utils as M

    n = int(nrng.integers(30, 120))
    data, shape, scale = gen_gamma_sample(nrng, n)
    thr = float(nrng.choice([0.1, 0.05, 0.5])) * (1.0 if scale >= 0.05 else scale)
    eps = 2.0 ** -52
    g = scipy.stats.gamma
    for kind, model in _models(M, thr):
        np.random.seed(k)
        fit = (shape, 0, scale) if kind.startswith("censored") else quiet(model.fit, data)
        gf = fit[1] if kind.startswith("hurdle") else fit
        p0 = fit[0] if kind.startswith("hurdle") else 0.0
        sf = np.array([1e-9, 1e-10, 3e-11, 1e-11, 1e-12, 1e-13, 1e-14, 3e-15])
        xt = np.concatenate([g.isf(sf, *gf), g.ppf(sf, *gf)])
        xt = xt[np.isfinite(xt) & (xt > (thr * (1 + 1e-6) if kind.startswith("censored") else 0))]
        F = g.cdf(xt, *gf)
        ok = (F > 0) & (F < 1 - 4 * eps)
        xt, F = xt[ok], F[ok]
        if xt.size == 0:
            continue
        cdf = np.asarray(quiet(model.cdf, xt, *fit), dtype=float)
        back = np.asarray(quiet(model.ppf, cdf, *fit), dtype=float)
        ref = g.ppf(F, *gf)  # what scipy itself achieves
        pdf = g.pdf(xt, *gf)
        tol = 1e-9 * xt + 8 * np.abs(ref - xt) + 32 * eps * np.maximum(F, p0 + (1 - p0) * F) / ((1 - p0) * pdf)
        stats["tail_values_checked"] += int(xt.size)
        badm = ~(np.abs(back - xt) <= tol)
        if badm.any():
            i = int(np.argmax(np.where(badm, np.abs(back - xt) / tol, 0)))
            problems.append((f"{kind}: a wet value in the far tail does not round-trip: x = {xt[i]!r} (tail probability {min(F[i], 1 - F[i]):.3g}) comes back as {back[i]!r}; "
                             f"scipy's own gamma.ppf(gamma.cdf(x)) gives {ref[i]!r}, allowed deviation {tol[i]:.3g}",
                             {"x": float(xt[i]), "fit": [float(v) for v in gf], "p0": float(p0), "threshold": thr, "numpy_seed_of_case": k, "generator": "tails"},
                             {"model": kind, "law": "wet_roundtrip", "region": "far tail"}))
    stats["tail_cases"] += 1


def _models(M, thr):
    return [("hurdle", M.gen_PrecipitationHurdleModel(cdf_randomization=True)),
            ("hurdle_norand", M.gen_PrecipitationHurdleModel(cdf_randomization=False)),
            ("ignore_zeros", M.gen_PrecipitationIgnoreZeroValuesModel()),
            ("censored", M.gen_PrecipitationGammaLeftCensoredModel(censoring_threshold=thr, censor_in_ppf=True)),
            ("censored_nocensor", M.gen_PrecipitationGammaLeftCensoredModel(censoring_threshold=thr, censor_in_ppf=False))]


def _deterministic(kind, x, thr):
    """positions whose cdf value does not depend on a random draw"""
    if kind == "hurdle":
        return x != 0
    if kind.startswith("censored"):
        return x >= thr
    return np.ones(x.shape, dtype=bool)


def _eq(a, b):
    a, b = np.asarray(a, dtype=float), np.asarray(b, dtype=float)
    return a.shape == b.shape and np.array_equal(a, b, equal_nan=True)


def oracle_vectors(nrng, problems, stats, k, large=False):
    """cdf / ppf are element-wise maps given the fit: evaluated on a vector that differs from the fitted sample — only the
    wet values, only zeros, a single value, a permutation, with repeated values, consecutive chunks — they must give,
    element by element, what the call on the whole vector gives (positions that use a random draw excepted: those are
    checked for their range).  `large`: samples of more than 20000 values (size-gated shortcuts), where also
    p0 == #zeros/n and the round trip are demanded."""
    from ibicus.utils import _math_utils as M

    n = int(nrng.choice([20001, 25000, 60 * 365])) if large else int(nrng.integers(20, 120))
    data, shape, scale = gen_gamma_sample(nrng, n)
    thr = float(nrng.choice([0.1, 0.05, 0.5])) * (1.0 if scale >= 0.05 else scale)
    if not large and nrng.uniform() < 0.5:  # finite recording resolution: ties among the wet values
        data = np.where(data > 0, np.ceil(data / (scale / 4)) * (scale / 4), 0.0)
    info = {"n": n, "n_dry": int((data == 0).sum()), "gamma_shape": shape, "gamma_scale": scale, "threshold": thr, "numpy_seed_of_case": k,
            "generator": "vectors_large" if large else "vectors"}
    if not large:
        info["data"] = data.tolist()
    for kind, model in _models(M, thr):
        sig = {"model": kind, "sample": "large" if large else "small"}

        def bad(desc, law, **extra):
            problems.append((desc, {**info, **extra}, {**sig, "law": law}))

        np.random.seed(k)
        if kind.startswith("censored"):
            fit = (shape, 0, scale)
        else:
            fit = quiet(model.fit, data)
        if kind.startswith("hurdle") and abs(fit[0] - (data == 0).sum() / n) > 1e-15:
            bad(f"{kind}: fit on {n} values gives p0 = {fit[0]!r}, the observed fraction of zeros is {int((data == 0).sum())}/{n} = {(data == 0).sum() / n!r}", "p0")
        full = np.asarray(quiet(model.cdf, data, *fit), dtype=float)
        det = _deterministic(kind, data, thr)
        back = np.asarray(quiet(model.ppf, full, *fit), dtype=float)
        # round trip on the whole vector
        gf = fit[1] if kind.startswith("hurdle") else fit
        F = scipy.stats.gamma.cdf(data, *gf)
        wetm = (data > (thr * (1 + 1e-9) if kind.startswith("censored") else 0)) & (F >= 1e-4) & (F <= 1 - 1e-4)
        if np.any(np.abs(back[wetm] - data[wetm]) > 1e-9 * data[wetm]):
            i = np.where(wetm)[0][np.argmax(np.abs(back[wetm] - data[wetm]) / data[wetm])]
            bad(f"{kind}: ppf(cdf(x)) != x on a vector of {n} values: x = {data[i]!r} comes back as {back[i]!r}", "wet_roundtrip", index=int(i))
        if kind != "censored_nocensor" and np.any(back[data == 0] != 0):
            bad(f"{kind}: a dry value does not stay dry on a vector of {n} values", "dry")
        # sub-vectors: (name, index array)
        idx_all = np.arange(n)
        wet_idx, dry_idx = idx_all[data > 0], idx_all[data == 0]
        subs = [("only the wet values", wet_idx), ("only zeros", dry_idx), ("a single wet value", wet_idx[:1]), ("the smallest wet value alone", wet_idx[np.argsort(data[wet_idx])[:1]]),
                ("a single zero", dry_idx[:1]), ("a permutation", nrng.permutation(n)), ("sorted", np.argsort(data, kind="stable")),
                ("repeated values", np.concatenate([wet_idx[:5], wet_idx[:5], dry_idx[:2], wet_idx[:3]])),
                ("a run of wet values without the smallest", wet_idx[np.argsort(data[wet_idx])[1:]][:50])]
        if large:
            cuts = [0, 7000, 14000, n]
            subs += [(f"chunk {a}:{b}", idx_all[a:b]) for a, b in zip(cuts[:-1], cuts[1:])]
        for name, idx in subs:
            if idx.size == 0:
                continue
            xs = data[idx]
            np.random.seed(k + 1)
            sub = np.asarray(quiet(model.cdf, xs, *fit), dtype=float)
            d = det[idx]
            stats["subvector_checks"] += 1
            if sub.shape != xs.shape or not _eq(sub[d], full[idx][d]):
                j = int(np.argmax(~((sub == full[idx]) | ~d))) if sub.shape == xs.shape else 0
                bad(f"{kind}: cdf evaluated on {name} ({idx.size} values) gives {sub.ravel()[j]!r} for x = {xs[j]!r}; evaluated within the whole vector the same value gets {full[idx][j]!r}",
                    "cdf_elementwise", subvector=name, x=float(xs[j]))
                continue
            r = sub[~d]  # positions with a random draw: only their range is determined
            if r.size and kind == "hurdle" and not (np.all(r >= 0) and np.all(r <= fit[0])):
                bad(f"{kind}: randomised cdf value of a dry day outside [0, p0] on {name}", "randomisation_range", subvector=name)
            # ppf on the corresponding quantiles
            qs = full[idx]
            subp = np.asarray(quiet(model.ppf, qs, *fit), dtype=float)
            if not _eq(subp, back[idx]):
                j = int(np.argmax(subp != back[idx])) if subp.shape == back[idx].shape else 0
                bad(f"{kind}: ppf evaluated on {name} gives {subp.ravel()[j]!r} for q = {qs[j]!r}; within the whole vector {back[idx][j]!r}", "ppf_elementwise", subvector=name, q=float(qs[j]))
    stats["vector_cases_large" if large else "vector_cases"] += 1


def oracle_fit_kwds(nrng, problems, stats, k):
    """every model that takes fit_kwds, with scipy's gamma and fit_kwds in {None (free location), floc = 0, floc = c > 0
    below the data minimum}; wet amounts >= 1 (a wet-day reporting threshold), so that a location matters"""
    from ibicus.utils import _math_utils as M

    n = int(nrng.integers(40, 150))
    shape, scale = float(nrng.choice([1.0, 2.0, 4.0])), float(nrng.choice([1.0, 3.0, 8.0]))
    wet = 1.0 + nrng.gamma(shape, scale, size=n)
    z = nrng.uniform(size=n) < float(nrng.uniform(0.1, 0.8))
    z[0], z[1:8] = True, False
    data = np.where(z, 0.0, wet)
    c = float(nrng.choice([0.25, 0.5, 0.9]))
    for fk in (None, {"floc": 0}, {"floc": c}, {"floc": 0, "fscale": None}):
        for kind in ("ignore_zeros", "hurdle", "hurdle_norand"):
            if kind == "ignore_zeros":
                model = M.gen_PrecipitationIgnoreZeroValuesModel(fit_kwds=fk)
            else:
                model = M.gen_PrecipitationHurdleModel(fit_kwds=fk, cdf_randomization=(kind == "hurdle"))
            sig = {"model": kind, "fit_kwds": str(fk)}
            info = {"data": data.tolist(), "fit_kwds": str(fk), "gamma_shape": shape, "gamma_scale": scale, "numpy_seed_of_case": k, "generator": "fit_kwds"}
            np.random.seed(k)
            fit = quiet(model.fit, data)
            gfit = fit if kind == "ignore_zeros" else fit[1]
            if fk is not None and "floc" in fk and gfit[1] != fk["floc"]:
                problems.append((f"{kind}: fit_kwds {fk} not honoured, fitted location {gfit[1]}", info, {**sig, "law": "fit_kwds"}))
            if not all(np.isfinite(gfit)) or gfit[1] >= data[data > 0].min():
                stats["fit_kwds_degenerate_fit_skipped"] += 1
                continue
            cdf = np.asarray(quiet(model.cdf, data, *fit), dtype=float)
            back = np.asarray(quiet(model.ppf, cdf, *fit), dtype=float)
            dry, wetm = data == 0, data > 0
            if np.any(back[dry] != 0):
                problems.append((f"{kind} (fit_kwds={fk}): a dry value does not stay dry", info, {**sig, "law": "dry"}))
            fin = cdf[wetm]
            if not (np.all(fin >= 0) and np.all(fin <= 1)):
                problems.append((f"{kind} (fit_kwds={fk}): wet cdf outside [0,1]", info, {**sig, "law": "cdf_range"}))
            F = scipy.stats.gamma.cdf(data, *gfit)
            m = wetm & (F >= 1e-4) & (F <= 1 - 1e-4)
            stats["fit_kwds_roundtrip_values"] += int(m.sum())
            if np.any(np.abs(back[m] - data[m]) > 1e-9 * data[m]):
                i = np.where(m)[0][np.argmax(np.abs(back[m] - data[m]) / data[m])]
                problems.append((f"{kind} (scipy gamma, fit_kwds={fk}, fitted (shape, loc, scale) = {tuple(float(g) for g in gfit)}): ppf(cdf(x)) != x for a wet value: "
                                 f"x = {data[i]!r} comes back as {back[i]!r}", info, {**sig, "law": "wet_roundtrip"}))
            if kind != "ignore_zeros" and abs(fit[0] - dry.sum() / n) > 1e-15:
                problems.append((f"{kind} (fit_kwds={fk}): p0 = {fit[0]}, observed fraction of zeros {int(dry.sum())}/{n}", info, {**sig, "law": "p0"}))
            stats["fit_kwds_checks"] += 1


def gen_small_sample(nrng):
    """a short / mostly dry sample: 1..9 wet values (sometimes up to 30) among 10..400 values, in mm/day or flux units;
    the wet values are distinct gamma draws, all tied (one coarsely reported amount), or lie on a coarse reporting grid
    (few distinct amounts); sometimes with drizzle: strictly positive values below the censoring threshold"""
    n = int(nrng.integers(10, 61)) if nrng.uniform() < 0.6 else int(nrng.integers(61, 400))
    unit = float(nrng.choice([1.0, 1.0, 1.0, 4e-5, 1e-7]))
    shape, scale = float(nrng.choice([0.4, 0.7, 1.0, 2.0, 5.0])), float(nrng.choice([0.5, 2.0, 10.0, 40.0]))
    mode = str(nrng.choice(["distinct", "tied", "coarse"]))
    n_wet = int(nrng.integers(1, 10)) if nrng.uniform() < 0.8 else int(nrng.integers(10, 31))
    n_wet = min(n_wet, n - 2)
    thr = float(nrng.choice([0.1, 0.05, 0.5, 1.0]))
    if mode == "distinct":
        wet = nrng.gamma(shape, scale, size=n_wet)
    elif mode == "tied":
        wet = np.full(n_wet, float(np.ceil(nrng.gamma(shape, scale) * 4) / 4))
    else:
        wet = np.ceil(nrng.gamma(shape, scale, size=n_wet) / (scale / 2)) * (scale / 2)
    wet = np.maximum(wet, 2.0 ** -10)
    n_drizzle = int(nrng.integers(0, 4)) if nrng.uniform() < 0.3 else 0
    n_drizzle = min(n_drizzle, n - n_wet - 1)
    drizzle = thr * nrng.choice([0.25, 0.4, 0.5], size=n_drizzle)
    data = np.concatenate([wet, drizzle, np.zeros(n - n_wet - n_drizzle)]) * unit
    nrng.shuffle(data)
    return data, thr * unit, mode, unit


def _scipy_fit_raises_same(ex, rainy, fit_kwds):
    """is it scipy's own gamma MLE that is undefined on these rainy days (a single value, all values identical)? — then the
    same call made directly raises the same exception"""
    try:
        quiet(scipy.stats.gamma.fit, rainy, **(fit_kwds or {}))
        return False
    except Exception as ex2:  # noqa: BLE001
        return type(ex2) is type(ex) and str(ex2) == str(ex)


def oracle_small_fits(nrng, problems, stats, k):
    """Quantifier covered: "for ALL zero-inflated positive samples with ANY dry fraction in (0,1) … all three model types and
    their options", on the side the other generators leave out: the REAL fits (scipy's gamma MLE, the censored model's own
    Nelder-Mead likelihood fit — in every case, not one in 25) on samples with few wet values (1..9, a short or mostly dry
    window), with wet values that are all tied or lie on a coarse reporting grid (zero / tiny variance), with drizzle below the
    censoring threshold, in mm/day and flux units.  Judged with the parameters the model's own `fit` returns: p0 == #zeros/n,
    cdf in [0,1] (-inf for ignored zeros), wet cdf >= p0, non-decreasing over wet values, dry -> exactly 0, wet round trip.
    Guards (DESIGN §4 C17): the censored model needs at least one value above its threshold (with none the likelihood fit
    degenerates); where scipy's own `gamma.fit` raises on the rainy days (a single wet value, all wet values identical) the
    hurdle / ignore-zeros fit raising the same exception is accepted and counted; any other exception is a violation."""
    from ibicus.utils import _math_utils as M

    data, thr, mode, unit = gen_small_sample(nrng)
    n = data.size
    nz = int((data == 0).sum())
    rainy = data[data != 0]
    info = {"data": data.tolist(), "n": n, "n_dry": nz, "n_above_threshold": int((data > thr).sum()), "wet_values": mode, "threshold": thr, "unit": unit,
            "numpy_seed_of_case": k, "generator": "small_fits"}
    g = scipy.stats.gamma
    stats["small_fit_cases"] += 1

    def rt_bad(x, back, F):
        m = (F >= 1e-4) & (F <= 1 - 1e-4)  # the float guard of the round-trip oracle (see assumptions)
        stats["small_fit_roundtrip_values"] += int(m.sum())
        b = m & ~(np.abs(back - x) <= 1e-8 * np.abs(x))
        return (float(x[b][0]), float(back[b][0])) if b.any() else None

    for kind, model in _models(M, thr):
        sig = {"model": kind, "sample": "few / tied wet values"}

        def bad(desc, law, **extra):
            problems.append((f"{kind} ({n - nz} non-zero values of {n}, {info['n_above_threshold']} above the threshold, {mode}): " + desc, {**info, **extra}, {**sig, "law": law}))

        cens = kind.startswith("censored")
        if cens and not np.any(data > thr * (1 + 1e-9)):
            stats["small_fit_censored_nothing_above_threshold_skipped"] += 1
            continue
        np.random.seed(k)
        try:
            fit = quiet(model.fit, data)
            gf = fit[1] if kind.startswith("hurdle") else fit
            prm = [float(v) for v in gf]
            if kind.startswith("hurdle"):
                p0 = float(fit[0])
                if abs(p0 - nz / n) > 1e-15:
                    bad(f"fitted p0 = {p0!r} but the observed fraction of zeros is {nz}/{n} = {nz / n!r}", "p0", fitted=[p0] + prm)
                d32 = data.astype(np.float32)  # the flux units used here stay normal, non-zero float32 numbers
                try:
                    p0_32 = float(quiet(model.fit, d32)[0])
                except Exception as ex:  # noqa: BLE001
                    if not _scipy_fit_raises_same(ex, d32[d32 != 0], model.fit_kwds):
                        raise
                    stats["small_fit_scipy_mle_undefined_accepted"] += 1
                    p0_32 = nz / n
                if abs(p0_32 - nz / n) > 1e-15:
                    bad(f"fitted p0 = {p0_32!r} on the float32 copy but the observed fraction of zeros is {nz}/{n}", "p0", input_dtype="float32")
            if not cens and not (all(np.isfinite(prm)) and prm[0] > 0 and prm[2] > 0):
                stats["small_fit_scipy_mle_degenerate_skipped"] += 1  # scipy's MLE, outside the models
                continue
            cdf = np.asarray(quiet(model.cdf, data, *fit), dtype=float)
            back = np.asarray(quiet(model.ppf, cdf, *fit), dtype=float)
            dry = data == 0
            wetm = (data > thr * (1 + 1e-9)) if cens else (data > 0)
            judged = ~dry if kind == "ignore_zeros" else np.ones(n, dtype=bool)
            if not np.all((cdf[judged] >= 0) & (cdf[judged] <= 1)):
                v = cdf[judged][~((cdf[judged] >= 0) & (cdf[judged] <= 1))]
                bad(f"cdf values outside [0,1]: {v[:3].tolist()} (fitted parameters {prm})", "cdf_range", fitted=prm)
            if kind == "ignore_zeros" and np.any(cdf[dry] != -np.inf):
                bad("cdf(0) is not -inf", "cdf_zero", fitted=prm)
            if kind.startswith("hurdle") and np.any(cdf[wetm] < nz / n - 1e-15):
                bad(f"a wet value receives the cdf value {float(cdf[wetm].min())!r}, below the observed dry fraction {nz / n!r}", "wet_above_p0", fitted=[float(fit[0])] + prm)
            if kind != "censored_nocensor" and np.any(back[dry] != 0):
                bad(f"ppf(cdf(0)) = {back[dry][back[dry] != 0][:3].tolist()} - a dry value does not stay dry (fitted parameters {prm})", "dry", fitted=prm)
            if kind == "censored" and np.any(back[data < thr * (1 - 1e-9)] != 0):
                bad(f"a value below the threshold {thr} does not come back as 0 (fitted parameters {prm})", "dry", fitted=prm)
            if kind == "censored_nocensor" and not np.all((back[dry] >= 0) & (back[dry] < thr * (1 + 1e-9))):
                bad(f"censor_in_ppf=False: a dry value comes back as {back[dry][~((back[dry] >= 0) & (back[dry] < thr * (1 + 1e-9)))][:3].tolist()}, not inside [0, threshold) "
                    f"(fitted parameters {prm})", "dry_uncensored", fitted=prm)
            w = rt_bad(data[wetm], back[wetm], g.cdf(data[wetm], *gf))
            if w is not None:
                bad(f"ppf(cdf(x)) != x for a wet value: x = {w[0]!r} comes back as {w[1]!r} (fitted parameters {prm})", "wet_roundtrip", fitted=prm)
            srt = np.sort(data[wetm])
            if np.any(np.diff(np.asarray(quiet(model.cdf, srt, *fit), dtype=float)) < 0):
                bad("cdf decreasing over the sorted wet values", "cdf_monotone", fitted=prm)
            stats["small_fit_checks"] += 1
            stats[f"small_fit_checks_{mode}"] += 1
        except Exception as ex:  # noqa: BLE001
            if not cens and _scipy_fit_raises_same(ex, rainy, model.fit_kwds):
                stats["small_fit_scipy_mle_undefined_accepted"] += 1
                continue
            import traceback

            where = [f for f in traceback.extract_tb(ex.__traceback__) if "ibicus" in f.filename]
            bad(f"raises {type(ex).__name__}: {str(ex)[:150]} (in {where[-1].name if where else '?'})", "exception", exception=type(ex).__name__)


# ------------------------------------------------------------------ the check
def _run_corr_case(fn, rng, k, corr, res, problems):
    """one correspondence case; an exception that escapes it (the real code raising on a valid zero-inflated sample, or
    returning something that cannot even be passed on to its own cdf / ppf) is a violation carrying the case, and a broken tie"""
    try:
        fn(rng, k, corr, res)
        return True
    except Exception as ex:  # noqa: BLE001
        import traceback

        tb = traceback.extract_tb(ex.__traceback__)
        import os

        where = [f for f in tb if os.path.abspath(f.filename).startswith(os.path.abspath(C.REPO) + os.sep)]
        at = f"{where[-1].filename.split('/')[-1]}:{where[-1].lineno} in {where[-1].name}" if where else f"{tb[-1].filename.split('/')[-1]}:{tb[-1].lineno} in {tb[-1].name}"
        case = dict(_CASE)
        desc = (f"the real code raises {type(ex).__name__}: {str(ex)[:160]} (innermost frame of the code under test: {at}) in correspondence case {k} ({fn.__name__}): "
                f"{case.get('models', case.get('call', ''))}" + (f", {case.get('wet_values')} wet values of {len(case['data'])}" if "wet_values" in case else ""))
        problems.append((desc, {**case, "generator": fn.__name__, "corr_case": k, "exception": f"{type(ex).__name__}: {str(ex)[:300]}"},
                         {"law": "exception", "exception": type(ex).__name__, "in": fn.__name__}))
        corr.mismatches.append({"op": f"case {k} {fn.__name__}", "impl": f"raises {type(ex).__name__}: {str(ex)[:200]}", "model": "no exception"})
        return False


def run(tier, res, force_search=False):
    rng = random.Random(C.seed() * 15485863 + 17)
    res.rule = ("correspondence cases = (zero-inflated dyadic sample of size 2..14 with a dry fraction in (0,1), in mm/day or flux units (x 2^-20, 2^-34), float64 or float32, "
                "model type, options, family loc/scale, threshold) from one PRNG (VERIF_SEED); oracle cases = zero-inflated gamma samples (shape 0.4..5, scale 1e-9..40 "
                "(mm/day and kg m-2 s-1), dry fraction 0.05..0.95, n 20..120), each also as float32; plus long series (n 2000..10950) with a dry fraction < 0.1 % or > 99.9 %, and samples with wet amounts >= 1 "
                "run with fit_kwds None / floc=0 / floc=c>0; plus cdf/ppf on sub-vectors (only wet, only zeros, single values, permutations, repeats, chunks) "
                "of small samples and of samples with 20001 / 21900 / 25000 values, for all five model configurations; plus wet values in the far tails (tail probability 1e-9..3e-15) with a per-element conditioning tolerance; "
                "plus short / mostly dry samples (n 10..400) with 1..9 (sometimes up to 30) wet values that are distinct, all tied or on a coarse reporting grid, with drizzle below the threshold, mm/day and flux units, "
                "through the real fits of all five model configurations (the censored model's Nelder-Mead fit in every such case); an exception escaping a correspondence case is a violation carrying the case; "
                "distinct = distinct (model, n, #dry, options) classes; every case is non-trivial (both dry and wet values)")
    res.trusted = C.BASE_TRUSTED + [
        "the amounts distribution is a parameter: theorems hold for every family satisfying Lemmas.Precip.AmountLaws (proved for the rational test double, assumed for scipy's gamma and other rv_continuous families)",
        "scipy.stats.rv_continuous.cdf/ppf wrapper semantics (support handling, loc/scale, nan outside [0,1]) as modelled by Model.Precip.ratCdf / ratPpf?",
        "np.random.uniform(low, high) returns values in [low, high): the draws are captured in-process and handed to the model; theorems are for every draw in that range",
        "the maximum-likelihood / Nelder-Mead fits are outside the model (the model states which data they are given)",
        "tier A (translator/extract_precip.py, Lemmas/GenPrecip.lean): element-wise reading of the vectorised methods - np.where(c, a, b)[i] = a[i] if c[i] else b[i], "
        "distribution.cdf/ppf(v, *prm) and np.random.uniform(lo, hi, x.shape) act position by position (the draw is a function parameter of the requested range), "
        "-np.inf is the only non-finite value (Model.Precip.ERat), attrs fills omitted constructor arguments with the field defaults and runs gt/ge/lt/le validators (ValueError)",
    ]
    res.assumptions = ["element-wise structure (sub-vectors, chunks, large vectors): the array forms of the model (Model.Precip.hurdleCdfL … censPostL, used by the driver) are element-wise by theorem "
                       "(Props.C17.*_select, arrays_chunkwise, izCdfL_no_zero); that the real methods have no size-gated or content-dependent shortcut is decided by the oracle on the real code (sub-vector / chunk comparison)",
                       "result dtype for float32 input, exceptions raised by scipy's fits, and the float cancellation in (q - p0)/(1 - p0) are runtime effects outside the exact-arithmetic model: oracle only",
                       "precipitation values are >= 0; the dry fraction lies strictly between 0 and 1; oracle samples have >= 5 wet values (scipy's gamma MLE raises on a single wet value)",
                       "float guard of the round-trip oracle: demanded where 1e-4 <= F(x) <= 1 - 1e-4 (outside, float cancellation in (q - p0)/(1 - p0) and the flat tails of ppf dominate)",
                       "the real Nelder-Mead fit of the censored model is exercised only on samples with >= 10 values above the threshold (with none the optimiser silently degenerates: shape ~ 1e-15, cdf == 1, ppf nan)",
                       "censored model: at x == threshold exactly the float ppf(cdf(x)) may fall just below the threshold; either outcome is accepted and counted",
                       "few / tied wet values (oracle_small_fits): the censored model's real fit is judged whenever at least one value lies above the threshold; where scipy's own gamma.fit raises on the rainy days "
                       "(a single wet value, all wet values identical) the hurdle / ignore-zeros fit raising the very same exception is accepted and counted, a degenerate (non-finite) scipy MLE is skipped and counted"]

    lean_ok = C.lean_phase(res, PROP, GEN, TARGETS)

    n_corr = 40 if tier == "quick" else 400
    n_oracle = 40 if tier == "quick" else 600
    corr = Corr(res)
    problems, stats = [], collections.Counter()
    for k in range(n_corr):
        for fn in (corr_hurdle_iz, corr_censored, corr_factory):
            _run_corr_case(fn, rng, k, corr, res, problems)
    corr.run()
    if corr.mismatches:
        res.tie_broken.append(f"correspondence DrvPrecip: {len(corr.mismatches)} mismatches, first: {corr.mismatches[0]}")

    if force_search or not lean_ok or corr.mismatches:
        n_oracle *= 3
    for k in range(n_oracle):
        seed_k = C.seed() * 100003 + k
        oracle(np.random.default_rng(seed_k), problems, stats, seed_k)
        res.count(("oracle", k % 7), True)
    n_ext = (6 if tier == "quick" else 40) * (3 if (force_search or not lean_ok or corr.mismatches) else 1)
    import functools

    large = functools.partial(oracle_vectors, large=True)
    large.__name__ = "oracle_vectors_large"
    for k in range(n_ext):
        fns = [(oracle_extreme_fraction, 7000000), (oracle_fit_kwds, 9000000), (oracle_vectors, 11000000), (oracle_vectors, 12000000),
               (oracle_tails, 14000000), (oracle_tails, 15000000)]
        if k < (2 if tier == "quick" else 8):
            fns.append((large, 13000000))
        for fn, off in fns:
            seed_k = C.seed() * 100003 + off + k
            try:
                fn(np.random.default_rng(seed_k), problems, stats, seed_k)
            except Exception as ex:  # noqa: BLE001
                problems.append((f"a precipitation model raises {type(ex).__name__}: {str(ex)[:150]} ({fn.__name__}, case seed {seed_k})",
                                 {"numpy_seed_of_case": seed_k, "generator": fn.__name__}, {"law": "exception", "exception": type(ex).__name__, "in": fn.__name__}))
            res.count((fn.__name__, k % 5), True)
    # real fits on short / mostly dry samples with few, tied or coarsely reported wet values (own PRNG stream)
    n_small = (40 if tier == "quick" else 400) * (3 if (force_search or not lean_ok or corr.mismatches) else 1)
    for k in range(n_small):
        seed_k = C.seed() * 100003 + 16000000 + k
        try:
            oracle_small_fits(np.random.default_rng(seed_k), problems, stats, seed_k)
        except Exception as ex:  # noqa: BLE001
            problems.append((f"a precipitation model raises {type(ex).__name__}: {str(ex)[:150]} (oracle_small_fits, case seed {seed_k})",
                             {"numpy_seed_of_case": seed_k, "generator": "small_fits"}, {"law": "exception", "exception": type(ex).__name__, "in": "oracle_small_fits"}))
        res.count(("oracle_small_fits", k % 9), True)
    res.extra["oracle_stats"] = dict(stats)
    res.extra["ties_accepted"] = int(stats.get("ties_accepted_at_threshold", 0))

    seen = set()
    for desc, case, sig in problems:
        key = tuple(sorted((a, str(b)) for a, b in sig.items()))
        if key in seen:
            continue
        seen.add(key)
        res.violations.append((desc, {"property": PROP, "failing_input": case, "signature": sig}))
    unknown = [v for v in res.violations if C.match_known(PROP, v[1]) is None]
    if res.tie_broken and not unknown:
        res.violations.append(("proof obligation / correspondence no longer checks: " + "; ".join(res.tie_broken)[:600],
                               {"property": PROP, "failing_input": None, "broken": res.tie_broken, "mismatches": corr.mismatches[:5]}))
    return res


def replay(data):
    fi = data.get("failing_input")
    if not fi:
        print("replay without failing input:", data.get("broken"))
        return 1
    problems, stats = [], collections.Counter()
    if str(fi.get("generator", "")).startswith("corr_"):  # a correspondence case that raised: regenerate the case stream up to it
        import os

        os.environ["VERIF_SEED"] = str(data.get("seed", 0))
        rng = random.Random(C.seed() * 15485863 + 17)
        res = C.Result(PROP, data.get("tier", "quick"))
        corr = Corr(res)
        for k in range(int(fi["corr_case"]) + 1):
            for fn in (corr_hurdle_iz, corr_censored, corr_factory):
                _run_corr_case(fn, rng, k, corr, res, problems)
        hits = [p for p in problems if p[1].get("corr_case") == fi["corr_case"] and p[1].get("generator") == fi["generator"] and p[1].get("data") == fi.get("data")]
        for desc, _, sig in hits:
            print("REPRODUCED:", desc[:300], sig)
        return 1 if hits else 0
    k = int(fi["numpy_seed_of_case"])
    import functools

    gen = {"tails": oracle_tails, "oracle_tails": oracle_tails, "vectors": oracle_vectors, "oracle_vectors": oracle_vectors, "vectors_large": functools.partial(oracle_vectors, large=True),
           "oracle_vectors_large": functools.partial(oracle_vectors, large=True),
           "extreme_fraction": oracle_extreme_fraction, "oracle_extreme_fraction": oracle_extreme_fraction,
           "fit_kwds": oracle_fit_kwds, "oracle_fit_kwds": oracle_fit_kwds, "small_fits": oracle_small_fits}.get(fi.get("generator"), oracle)
    gen(np.random.default_rng(k), problems, stats, k)
    want = data.get("signature", {})
    hits = [p for p in problems if all(p[2].get(a) == b for a, b in want.items())]
    for desc, _, sig in hits:
        print("REPRODUCED:", desc[:300], sig)
    return 1 if hits else 0
