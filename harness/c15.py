"""C15 — configuration: from_variable follows the published support table, names are case-insensitive, Variable objects
are equivalent, kwargs override, a setting assigned before apply acts like the same setting at construction, invalid
settings are rejected, ISIMIP without bounds is unbounded.

tier A: Gen/Config.lean (all tables, field lists, post-init rules, ISIMIP defaults, has_*) regenerated from the AST.
tier B: the real code is run in-process and compared with the Lean model (`drivers/DrvConfig.lean`): the full
        8 x 14 matrix x {lower, UPPER, Mixed, Variable object} (outcome class), every (debiaser, field) override and
        rejection (stored value / exception class), post-init outcomes after assignment, has_* on random bounds.
oracle: the property statement on the same runs — real outcome vs the table parsed from the *current* docstring;
        constructor-configured vs attribute-assigned instances give bitwise equal `apply` output; ISIMIP without bounds runs.
"""
import logging
import random
import warnings
from fractions import Fraction

import numpy as np

from harness import common as C

PROP = "C15"
TARGETS = ["IbicusModel.Props.C15"]
GEN = ["Config"]
TARGETS += ["IbicusModel.Lemmas.GenIsimipStep6"]  # tier A of ISIMIP step 6 (`_step6_adjust_values_between_thresholds`: fixed fit arguments from the has_* flags, fallback structure; `step6`; `_apply_on_window`)
GEN += ["IsimipStep6"]  # Gen.IsimipStep6: symbolic reading by translator/extract_isimip_step6.py

DEBS = ["LinearScaling", "DeltaChange", "QuantileMapping", "ScaledDistributionMapping", "CDFt", "ECDFM", "QuantileDeltaMapping", "ISIMIP"]
WINDOW_FIELDS = {"running_window_mode", "running_window_length", "running_window_step_length", "running_window_mode_over_years_of_cm_future",
                 "running_window_over_years_of_cm_future_length", "running_window_over_years_of_cm_future_step_length", "cdf_threshold"}
TARGET_ATTRS = {"running_window": ("window_length_in_days", "window_step_length_in_days"),
                "running_window_over_years_of_cm_future": ("window_length_in_years", "window_step_length_in_years")}


def upper(s):
    return s.upper()


def mixed(s):
    return "".join(c.upper() if k % 3 == 0 else c for k, c in enumerate(s))


# ------------------------------------------------------------------ from_variable outcome on the real code
def outcome_from_variable(cls, arg, **kw):
    """-> ('silent' | 'experimental' | 'valueError' | other exception class, instance | None, n other warnings)"""
    with warnings.catch_warnings(record=True) as ws:
        warnings.simplefilter("always")
        try:
            inst = cls.from_variable(arg, **kw)
        except ValueError:
            return "valueError", None, 0
        except Exception as ex:  # noqa: BLE001
            return type(ex).__name__, None, 0
    exp = [w for w in ws if issubclass(w.category, UserWarning) and "experimental" in str(w.message)]
    other = len(ws) - len(exp)
    return ("experimental" if exp else "silent"), inst, other


# ------------------------------------------------------------------ values
def enc(v):
    """python setting value -> driver encoding"""
    import scipy.stats
    from ibicus.utils import StatisticalModel

    if v is None:
        return "none"
    if isinstance(v, (bool, np.bool_)):
        return "b:1" if v else "b:0"
    if isinstance(v, (int, np.integer)):
        return f"i:{int(v)}"
    if isinstance(v, float):
        if not np.isfinite(v):
            return "o:inf"
        return "q:" + C.rat(v)
    if isinstance(v, str):
        return "s:" + v if v and " " not in v and ";" not in v and "=" not in v else "o:str"
    if isinstance(v, dict):
        return "o:dict"
    if isinstance(v, (scipy.stats.rv_continuous, scipy.stats.rv_discrete, scipy.stats.rv_histogram, StatisticalModel)):
        return "o:distribution"
    return "o:" + type(v).__name__


def same_value(a, b):
    if isinstance(a, float) and isinstance(b, (int, float)):
        return float(a) == float(b)
    if isinstance(a, (dict, list, str, bool, int)) and not isinstance(a, float):
        return a == b and type(a) is type(b)
    return a is b or a == b


def norm_odd(n):
    return n + 1 if n % 2 == 0 else n


def parse_fields(line):
    out = []
    for part in line.split(";"):
        name, default, vals, conv = part.split("~")
        out.append({"name": name, "default": None if default == "<required>" else default, "validators": [v for v in vals.split(",") if v], "converter": conv})
    return out


def alt_value(name, f, current, var="tas"):
    """a valid value different from `current` for field f (None = no alternative generated)"""
    import scipy.stats

    vs = f["validators"]
    if "instBool" in vs:
        return not current
    if "instInt" in vs:
        table = {"running_window_length": 61, "running_window_step_length": 15, "running_window_over_years_of_cm_future_length": 5,
                 "running_window_over_years_of_cm_future_step_length": 3, "window_length_annual_cycle_of_upper_bounds": 15}
        v = table.get(f["name"], (current or 1) + 2)
        return v if v != current else v + 2
    if "instFloat" in vs:
        table = {"cdf_threshold": 1e-3, "pr_lower_threshold": 0.001, "censoring_threshold": 1e-5, "lower_bound": 200.0, "lower_threshold": 201.0,
                 "upper_bound": 400.0, "upper_threshold": 399.0}
        if var == "pr":
            table = {"cdf_threshold": 1e-3, "pr_lower_threshold": 2.0 ** -20, "censoring_threshold": 2.0 ** -20, "lower_bound": -1.0,
                     "lower_threshold": 2.0 ** -20, "upper_bound": 1.0, "upper_threshold": 0.5}
        v = table.get(f["name"], 0.125)
        return v if v != current else v * 2
    if "instFloatOrNone" in vs:
        return 0.02
    for v in vs:
        if v.startswith("oneOf("):
            opts = v[6:-1].split("|")
            return next(o for o in opts if o != current)
    if "instDistribution" in vs or "instDistributionOrNone" in vs:
        return scipy.stats.logistic if current is not scipy.stats.logistic else scipy.stats.norm
    if "instDict" in vs:
        return {"floc": 280.0} if var == "tas" else {"floc": 0, "fscale": 1e-4}
    if "instStr" in vs:
        return "custom_name"
    if "custom" in vs:
        return [0, 1000]
    return None


def spellings(f, current):
    """other spellings of valid values for a field: Python int / bool / numpy scalars where a float or an int is meant, …"""
    vs = f["validators"]
    out = []
    if "instFloat" in vs or "instFloatOrNone" in vs:
        base = {"lower_bound": 0.0, "lower_threshold": 1.0, "upper_bound": 400.0, "upper_threshold": 399.0}.get(f["name"], 0.25)
        out += [(int(base) if base == int(base) else 1, "python int for a float"), (np.float64(base), "np.float64"), (np.float32(base), "np.float32"),
                (np.int64(int(base) or 1), "np.int64 for a float"), (True, "bool for a float")]
    elif "instInt" in vs:
        v = {"running_window_length": 61, "running_window_step_length": 15, "running_window_over_years_of_cm_future_length": 7,
             "running_window_over_years_of_cm_future_step_length": 3, "window_length_annual_cycle_of_upper_bounds": 15}.get(f["name"], 3)
        out += [(np.int64(v), "np.int64 for an int"), (np.int32(v), "np.int32 for an int"), (float(v), "float for an int"), (True, "bool for an int")]
    elif "instBool" in vs:
        out += [(np.bool_(not current), "np.bool_ for a bool"), (int(not current), "python int for a bool")]
    elif any(v.startswith("oneOf(") for v in vs):
        opts = next(v for v in vs if v.startswith("oneOf("))[6:-1].split("|")
        out += [(np.str_(next(o for o in opts if o != current)), "np.str_ for a str")]
    return out


def enc_np(v):
    """driver encoding including numpy scalars that are not Python ints / floats (`n:`)"""
    if isinstance(v, (np.integer, np.floating, np.bool_)) and not isinstance(v, (int, float)):
        return "n:" + C.rat(float(v))
    if isinstance(v, np.str_):
        return enc(str(v))
    return enc_field(v)


def invalid_values(f):
    """(value, note) pairs that must be rejected, one or two per validator"""
    out = []
    for v in f["validators"]:
        if v == "instBool":
            out += [(1, "int for bool"), ("True", "str for bool")]
        elif v == "instInt" and f["converter"] == "int":
            out += [("abc", "str for int"), (None, "None for int")]  # int(2.5), int("3") are accepted by the converter
        elif v == "instInt":
            out += [(2.5, "float for int"), ("3", "str for int")]
        elif v == "gt0":
            out += [(0, "zero"), (-3, "negative")]
        elif v == "instFloat":
            out += [("abc", "str for float"), (None, "None for float")] + ([] if f["converter"] == "float" else [(1, "int for float")])
        elif v == "instFloatOrNone":
            out += [("x", "str for float|None"), (1, "int for float|None")]
        elif v == "instStr":
            out += [(5, "int for str")]
        elif v == "instDict":
            out += [([], "list for dict")]
        elif v == "instDistribution":
            out += [("norm", "str for distribution"), (None, "None for distribution")]
        elif v == "instDistributionOrNone":
            out += [("norm", "str for distribution")]
        elif v.startswith("oneOf("):
            out += [("nonsense", "not in the allowed list"), (3, "int for option")]
    return out


# ------------------------------------------------------------------ data for apply
def series(n, seed, loc):
    r = np.random.RandomState(seed)
    return np.round((loc + 8 * np.sin(2 * np.pi * np.arange(n) / 365.25)[:, None, None] + r.normal(0, 2.0, size=(n, 1, 2))) * 64) / 64


def series_pr(n, seed, scale):
    r = np.random.RandomState(seed)
    x = r.gamma(0.8, scale, size=(n, 1, 2)) * (r.uniform(size=(n, 1, 2)) > 0.4)
    return np.round(x * 2 ** 24) / 2 ** 24


def dates(n):
    return np.arange(np.datetime64("2000-01-01"), np.datetime64("2000-01-01") + np.timedelta64(n, "D"))


_DATA = {}


def data(var="tas"):
    if var not in _DATA:
        no, nh, nf = 730, 730, 1096
        if var == "tas_years":  # cm_future spans 12 years with a trend: windows over years (length 5) and their step matter
            nf = 12 * 365 + 3
        if var == "pr":
            x = (series_pr(no, 1, 5e-5), series_pr(nh, 2, 6e-5), series_pr(nf, 3, 7e-5))
        else:
            x = (series(no, 1, 280.0), series(nh, 2, 281.0), series(nf, 3, 283.0))
            if var == "tas_years":
                x = (x[0], x[1], x[2] + np.round(np.linspace(0.0, 6.0, nf) * 64)[:, None, None] / 64)
        _DATA[var] = (x, dict(time_obs=dates(no), time_cm_hist=dates(nh), time_cm_future=dates(nf)))
    return _DATA[var]


def run_apply(inst, var="tas"):
    """-> ('ok', output) | ('error', class name)"""
    (o, h, f), t = data(var)
    np.random.seed(12345)
    with warnings.catch_warnings():
        warnings.simplefilter("ignore")
        old = np.seterr(all="ignore")
        try:
            return "ok", inst.apply(o, h, f, progressbar=False, **t)
        except Exception as ex:  # noqa: BLE001
            return "error", type(ex).__name__
        finally:
            np.seterr(**old)


BOUND_FIELDS = {"lower_bound", "lower_threshold", "upper_bound", "upper_threshold"}


def touch(inst):
    """read every has_* property and every derived attribute (what an earlier look at the instance does)"""
    seen = []
    for n in ("has_lower_threshold", "has_lower_bound", "has_upper_threshold", "has_upper_bound", "has_bound", "has_threshold",
              "running_window", "running_window_over_years_of_cm_future", "cdf_threshold"):
        try:
            seen.append(getattr(inst, n))
        except AttributeError:
            pass
    return len(seen)


def same_result(ra, rb):
    return (ra[0] == rb[0]) and (np.array_equal(ra[1], rb[1], equal_nan=True) if ra[0] == "ok" else ra[1] == rb[1])


def sequence_case(make, assignments, var, first, ra=None):
    """ONE instance: `first` ('apply' = a full apply, 'read' = read has_* / derived attributes), THEN the assignments, then apply;
    compared with a freshly constructed instance carrying the settings. -> (equal?, constructed result, sequence result)"""
    if ra is None:
        A, errA = make(dict(assignments))
        ra = ("error", errA) if A is None else run_apply(A, var)
    S, errS = make({})
    if S is None:
        return True, ra, ("error", errS), None  # the base itself is invalid: nothing to compare
    touch(S)
    if first == "apply":
        run_apply(S, var)
    err = None
    try:
        with warnings.catch_warnings():
            warnings.simplefilter("ignore")
            for k, v in assignments:
                setattr(S, k, v)
    except Exception as ex:  # noqa: BLE001
        err = type(ex).__name__
    rs = ("error", err) if err else run_apply(S, var)
    return same_result(ra, rs), ra, rs, (S if err is None else None)


def observe(inst, name, r):
    """what the real instance shows after an apply: outcome class, the active derived attributes, QDM's cdf_threshold"""
    if r[0] == "error":
        return "error " + str(r[1])
    act = []
    for tgt, (la, sa) in TARGET_ATTRS.items():
        flag = {"running_window": "running_window_mode", "running_window_over_years_of_cm_future": "running_window_mode_over_years_of_cm_future"}[tgt]
        if getattr(inst, flag, False):
            o = getattr(inst, tgt, None)
            act.append((tgt, type(o).__name__, getattr(o, la, None), getattr(o, sa, None)))
    return ("ok", act, getattr(inst, "cdf_threshold", None) if name == "QuantileDeltaMapping" else None)


def enc_field(v):
    """like enc, but infinite floats stay floats (a finite stand-in: the model's validators only look at the type)"""
    if isinstance(v, float) and not np.isfinite(v):
        return "q:" + ("-" if v < 0 else "") + "1" + "0" * 30
    if isinstance(v, str):
        import re
        return "s:" + re.sub(r"[ ;=]", "_", v)
    return enc(v)


def assoc_line(d):
    return ";".join(f"{k}={enc_field(v)}" for k, v in d.items()) if d else "-"


def num_eq(a, b):
    """driver value encodings equal, int and float of the same value identified (converters)"""
    if a == b:
        return True
    try:
        fa = Fraction(a.split(":", 1)[1]) if a[:2] in ("i:", "q:") else (Fraction(int(a[2:])) if a[:2] == "b:" else None)
        fb = Fraction(b.split(":", 1)[1]) if b[:2] in ("i:", "q:") else (Fraction(int(b[2:])) if b[:2] == "b:" else None)
    except (ValueError, IndexError):
        return False
    return fa is not None and fa == fb


def settings_dicts(cls):
    """(default settings, experimental default settings, general settings) dictionaries the class's from_variable uses"""
    import sys

    if cls.__name__ == "ISIMIP":
        from ibicus.debias import _isimip_options as o

        return o.isimip3_variable_settings, {}, o.isimip3_general_settings
    m = sys.modules[cls.__module__]
    return m.default_settings, getattr(m, "experimental_default_settings", {}), {}


# ------------------------------------------------------------------ the support trichotomy UNDER keyword overrides
# Quantifier covered: "every (debiaser, variable) pair of the 8 x 14 matrix" x "every overridable setting" TOGETHER — the
# documented outcome (silent / 'experimental' warning / ValueError) of a pair is a function of the pair alone, whatever
# keyword overrides accompany the call (none, one, several, ALL of the variable's own defaults, settings outside the
# variable's defaults; with the default's own value or with another valid value), and the overrides / remaining defaults
# are what the instance carries.
def key_subsets(keys, rng):
    """subsets of the variable's own default keys: all of them for <= 4 keys, else empty / singletons / full / full minus one /
    four seeded random ones"""
    import itertools

    keys = list(keys)
    n = len(keys)
    if n <= 4:
        return [tuple(c) for r in range(n + 1) for c in itertools.combinations(keys, r)]
    out = [()] + [(k,) for k in keys] + [tuple(keys)] + [tuple(k for k in keys if k != d) for d in keys]
    for _ in range(4):
        out.append(tuple(k for k in keys if rng.random() < 0.5))
    seen, uniq = set(), []
    for s in out:
        if s not in seen:
            seen.add(s)
            uniq.append(s)
    return uniq


def tag_value(v, is_default):
    """replayable description of a keyword value: the variable's own default, a JSON value, or a scipy.stats distribution"""
    import scipy.stats

    if is_default:
        return ["default"]
    if v is None or type(v) in (bool, int, float, str, dict, list):
        return ["json", v]
    for n in ("logistic", "norm"):
        if v is getattr(scipy.stats, n):
            return ["scipy", n]
    return ["repr", repr(v)[:80]]


def untag_kwargs(tags, cls, defaults, inst0):
    """inverse of tag_value for a whole kwargs description (None = not reconstructible)"""
    import scipy.stats
    import ibicus.variables as V

    kw = {}
    for k, t in tags.items():
        if t[0] == "default_of":  # the default of ANOTHER variable of this class (offered to an unsupported pair)
            o = V.str_to_variable_class.get(t[1])
            d = next((s for oo, s in [p for x in settings_dicts(cls)[:2] for p in x.items()] if oo is o), None)
            if d is None or k not in d:
                return None
            kw[k] = d[k]
        elif t[0] == "default":
            if k in defaults:
                kw[k] = defaults[k]
            elif inst0 is not None:
                kw[k] = getattr(inst0, k)
            else:
                return None
        elif t[0] == "json":
            kw[k] = t[1]
        elif t[0] == "scipy":
            kw[k] = getattr(scipy.stats, t[1])
        else:
            return None
    return kw


def show_kwargs(kw):
    def one(v):
        if v is None or type(v) in (bool, int, float, str):
            return v
        if isinstance(getattr(v, "name", None), str) and type(v).__module__.startswith("scipy.stats"):
            return f"scipy.stats.{v.name}"
        return repr(v)[:60]

    return {k: one(v) for k, v in kw.items()}


def variable_defaults(cls, vobj, ident):
    """(the settings dict from_variable merges for this Variable — default or experimental —, the general settings); None = unsupported"""
    dflt, expd, general = settings_dicts(cls)
    for o, s in list(dflt.items()) + list(expd.items()):
        if o is vobj or ident(o) == ident(vobj):
            return s, general
    return None, general


def direct_construct_error(cls, vobj, general, vs, kw):
    """class name of the exception the plain constructor raises for the merged settings (None = it accepts them): tells an
    override set that is invalid in itself (an invalid COMBINATION of valid values) from a wrong from_variable outcome"""
    with warnings.catch_warnings():
        warnings.simplefilter("ignore")
        try:
            cls(**{"variable": vobj.name, "reasonable_physical_range": vobj.reasonable_physical_range, **general, **(vs or {}), **kw})
        except Exception as ex:  # noqa: BLE001
            return type(ex).__name__
    return None


def all_fields_line(inst, fields, override=None):
    parts = []
    for f in fields:
        v = override[f["name"]] if override and f["name"] in override else getattr(inst, f["name"])
        parts.append(f"{f['name']}={enc_field(v)}")
    return ";".join(parts)


def show(r):
    return "ok" if r[0] == "ok" else r


def diff_detail(ra, rb):
    if ra[0] == rb[0] == "ok" and ra[1].shape == rb[1].shape:
        return f"max |diff| = {float(np.nanmax(np.abs(ra[1] - rb[1]))):.3g}"
    return f"constructed: {show(ra)}, sequence: {show(rb)}"


def variables_for(name, tier):
    """tas always; pr too (QuantileDeltaMapping's censored-gamma fits are slow: thorough tier only)"""
    years = ["tas_years"] if name in ("CDFt", "QuantileDeltaMapping") else []  # only the year-window attributes are exercised on it
    if tier == "thorough" or name != "QuantileDeltaMapping":
        return ["tas", "pr"] + years
    return ["tas"] + years


def base_kwargs(name, var="tas"):
    """a fast configuration with the running window on (so that every window setting matters); QDM's derived default given"""
    import scipy.stats

    kw = dict(running_window_mode=True, running_window_step_length=31)
    if name == "ECDFM" and var == "tas":
        kw["distribution"] = scipy.stats.norm
    if var == "tas_years":
        kw.update(running_window_over_years_of_cm_future_length=5, running_window_over_years_of_cm_future_step_length=1)
    if name == "QuantileDeltaMapping":
        kw["cdf_threshold"] = 0.01
        if var == "pr":
            # second derived default of QDM: from_variable("pr", censoring_threshold=x) also builds the censored-gamma
            # *distribution* for x (for_precipitation); an assignment of censoring_threshold cannot do that (the class docstring
            # says the distribution must know the threshold). Given explicitly, like cdf_threshold.
            from ibicus.utils import gen_PrecipitationGammaLeftCensoredModel

            kw["distribution"] = gen_PrecipitationGammaLeftCensoredModel(censoring_threshold=0.05 / 86400, censor_in_ppf=False)
    return kw


def construct(cls, kw, var="tas"):
    with warnings.catch_warnings():
        warnings.simplefilter("ignore")
        try:
            return cls.from_variable("tas" if var == "tas_years" else var, **kw), None
        except Exception as ex:  # noqa: BLE001
            return None, type(ex).__name__


def fields_line(inst, names):
    parts = []
    for n in names:
        e = enc(getattr(inst, n))
        if e != "o:inf":
            parts.append(f"{n}={e}")
    return ";".join(parts) if parts else "-"


# ------------------------------------------------------------------ ISIMIP with bounds on ONE side only (or on none)
# Clause covered: "an ISIMIP debiaser built without bounds treats the variable as unbounded as documented", read PER SIDE
# (quantifier "configurations"): the documented defaults -inf / +inf mean "this side has no bound / no threshold". A debiaser
# built with the lower side only (precipitation-like: the library's own pr, sfcWind, tasrange), the upper side only, a bound
# without a threshold, or nothing must treat every side that was NOT given as unbounded in every step — in particular in step 6,
# whose documented default is the PARAMETRIC quantile mapping with `distribution` ("if nonparametric_qm = True or
# ks_test_for_goodness_of_cdf_fit = True and a Kolmogorov Smirnov statistic indicates a bigger misfit a nonparametric quantile
# mapping is used instead"): the infinite stand-in of a missing threshold must never enter the distribution fit as a number
# (fscale = upper_threshold - lower_threshold = inf makes scipy's fit raise or return scale = inf, and step 6 then silently maps
# nonparametrically / returns garbage), a parameter may be fixed only from thresholds that exist, the parametric fit must be
# attempted, and step 6 may fall back only when a fit really failed. Observed through the object the USER passes in: `distribution`
# is a fresh instance of the scipy distribution class whose public `fit` records its calls (no patching of the library), and through
# the library logger. Dimensions generated: side given x distribution (gamma, norm, weibull_min, rice, lognorm) x construction path
# (side given and the rest left at the default / the rest given explicitly as -inf, +inf / built two-sided and the other side removed
# by assignment / from_variable with keyword overrides / the library's own one-sided variables) x trend preservation x KS test on, off
# x share of values beyond the threshold x call form (the public step4 -> step5 -> step6 on one window; the full apply month-wise
# and with the running window). Every path must give bitwise the same output as the plain "rest left at the default" construction.
ONESIDE = {"lower": {"lower_bound": 0.0, "lower_threshold": 0.25}, "upper": {"upper_bound": 100.0, "upper_threshold": 99.75},
           "lower_bound_only": {"lower_bound": 0.0}, "upper_bound_only": {"upper_bound": 100.0}, "none": {}}
ONESIDE_INF = {"lower_bound": -np.inf, "lower_threshold": -np.inf, "upper_bound": np.inf, "upper_threshold": np.inf}
ONESIDE_TWO = {"lower_bound": 0.0, "lower_threshold": 0.25, "upper_bound": 100.0, "upper_threshold": 99.75}
ONESIDE_LIBVARS = {"pr": ("gamma", 2.0 ** -17), "sfcwind": ("weibull_min", 1.0), "tasrange": ("weibull_min", 1.0)}  # variable -> (its distribution, data scale)
ONESIDE_DISTS = ["gamma", "norm", "weibull_min", "rice", "lognorm"]
ONESIDE_PATHS = ["explicit_inf", "assigned_inf", "from_variable"]


def spy_distribution(dname, rec):
    """a FRESH instance of scipy.stats.<dname>'s class (same type, so the library's per-distribution branches see the real thing) whose
    public `fit` records every call: sample size, fixed parameters, outcome; for a call with a non-finite fixed parameter also
    whether the same fit is feasible with that parameter left free"""
    import scipy.stats

    base = getattr(scipy.stats, dname)
    kw = {"name": dname}
    if np.isfinite(base.a):
        kw["a"] = base.a
    if np.isfinite(base.b):
        kw["b"] = base.b
    d = type(base)(**kw)
    orig = d.fit

    def fit(data, *args, **kwds):
        fixed = {k: (None if v is None else float(v)) for k, v in kwds.items() if k.startswith("f") and (v is None or isinstance(v, (int, float, np.integer, np.floating)))}
        e = {"n": int(np.size(data)), "fixed": fixed, "nonfinite": sorted(k for k, v in fixed.items() if v is not None and not np.isfinite(v))}
        rec.append(e)
        if e["nonfinite"]:
            try:
                r0 = orig(np.array(data, dtype=float), *args, **{k: v for k, v in kwds.items() if k not in e["nonfinite"]})
                e["feasible_with_that_parameter_free"] = bool(np.all(np.isfinite(np.asarray(r0, dtype=float))))
            except Exception:  # noqa: BLE001
                e["feasible_with_that_parameter_free"] = False
        try:
            r = orig(data, *args, **kwds)
        except Exception as ex:
            e["raised"] = f"{type(ex).__name__}: {str(ex)[:70]}"
            raise
        e["returned"] = [float(x) for x in r]
        return r

    d.fit = fit
    return d


def oneside_series(spec, n, seed, factor):
    """positive, gamma-like values (so that every trend preservation method is defined); a share `frac` sits ON the bound of a side
    that was given with a threshold; mirrored below 100 for the upper side"""
    r = np.random.RandomState(seed)
    v = r.gamma(2.0, 3.0 * factor, n) + 0.5
    u = r.uniform(size=n)
    side = spec["side"]
    if side == "lower":
        v[u < spec["frac"]] = 0.0
    elif side in ("upper", "upper_bound_only"):
        v = np.maximum(100.0 - v, 1.0)
        if side == "upper":
            v[u < spec["frac"]] = 100.0
    return np.round(v * 64) / 64 * spec.get("scale", 1.0)


def oneside_build(spec, path, rec):
    """the debiaser of `spec` built along `path`; every path describes the SAME configuration"""
    import ibicus.debias as D

    dist = spy_distribution(spec["dist"], rec)
    core = dict(distribution=dist, trend_preservation_method=spec["trend"], detrending=False, nonparametric_qm=False,
                ks_test_for_goodness_of_cdf_fit=spec["ks"])
    if spec["call"] == "apply":
        core.update(running_window_mode=spec["window"] == "running", running_window_step_length=31)
    side = ONESIDE[spec["side"]]
    if spec.get("var"):  # one of the library's own one-sided variables (its table gives the upper side explicitly as inf)
        core.pop("trend_preservation_method")
        if path == "default":
            return D.ISIMIP.from_variable(spec["var"], **core)
        if path == "explicit_inf":
            return D.ISIMIP.from_variable(spec["var"].upper(), upper_bound=float("inf"), upper_threshold=float("inf"), **core)
        inst = D.ISIMIP.from_variable(spec["var"], upper_bound=100.0, upper_threshold=99.75, **core)
        inst.upper_threshold = np.inf
        inst.upper_bound = np.inf
        return inst
    if path == "default" and spec["path"] == "from_variable":
        # from_variable puts the ISIMIP3 general settings under the variable's; the plain twin is given them explicitly
        from ibicus.debias._isimip_options import isimip3_general_settings

        return D.ISIMIP(**{**isimip3_general_settings, **core, **side})
    if path == "default":
        return D.ISIMIP(**core, **side)
    if path == "explicit_inf":
        return D.ISIMIP(**core, **{**ONESIDE_INF, **side})
    if path == "from_variable":
        return D.ISIMIP.from_variable("tas", **core, **side)
    inst = D.ISIMIP(**core, **ONESIDE_TWO)  # "assigned_inf": built two-sided, every side not in `side` removed by assignment
    for k, v in ONESIDE_INF.items():
        if k not in side:
            setattr(inst, k, v)
    for k, v in side.items():
        setattr(inst, k, v)
    return inst


def oneside_run(spec, path):
    """-> dict(result = ('ok', output) | ('error', text), fits = recorded fit calls, failed = number of 'fit failed' log messages,
    between = (values of cm_future, of the pseudo future observations strictly between the thresholds; step6 call only))"""
    from ibicus.utils import get_library_logger

    rec, msgs, between = [], [], None

    class Collect(logging.Handler):
        def emit(self, record):
            msgs.append(record.getMessage())

    lg = get_library_logger()
    h = Collect(level=logging.DEBUG)
    old_level, old_prop = lg.level, lg.propagate
    lg.addHandler(h)
    lg.setLevel(logging.DEBUG)
    lg.propagate = False
    old_err = np.seterr(all="ignore")
    try:
        with warnings.catch_warnings():
            warnings.simplefilter("ignore")
            inst = oneside_build(spec, path, rec)
            np.random.seed(12345)
            ds = spec["data_seed"]
            if spec["call"] == "step6":
                no, nh, nf = spec["n"]
                oh, ch, cf = oneside_series(spec, no, ds, 1.0), oneside_series(spec, nh, ds + 1, 1.3), oneside_series(spec, nf, ds + 2, 1.6)
                oh, ch, cf = inst.step4(oh, ch, cf)
                of = inst.step5(oh, ch, cf)
                lt, ut = inst.lower_threshold, inst.upper_threshold
                between = (int(((cf > lt) & (cf < ut)).sum()), int(((of > lt) & (of < ut)).sum()))
                del rec[:]
                del msgs[:]
                out = inst.step6(oh, of, ch, cf)
            else:
                no, nh, nf = 730, 730, 1096
                o, hh, f = (oneside_series(spec, n, ds + k, fac).reshape(n, 1, 1) for k, (n, fac) in enumerate(((no, 1.0), (nh, 1.3), (nf, 1.6))))
                out = inst.apply(o, hh, f, progressbar=False, time_obs=dates(no), time_cm_hist=dates(nh), time_cm_future=dates(nf))
        result = ("ok", np.asarray(out))
    except Exception as ex:  # noqa: BLE001
        result = ("error", f"{type(ex).__name__}: {str(ex)[:120]}")
    finally:
        np.seterr(**old_err)
        lg.removeHandler(h)
        lg.setLevel(old_level)
        lg.propagate = old_prop
    failed = sum(1 for m in msgs if "Parametric CDF fit" in m and "failed" in m)
    return {"result": result, "fits": rec, "failed": failed, "between": between}


def oneside_judge(spec):
    """-> (problems [(what, message, extra)], info) for one configuration: the plain construction judged on its own, then the
    other construction path of the spec compared with it bitwise"""
    problems, info = [], {}
    side = spec["side"]
    has_lt = side == "lower" or bool(spec.get("var"))
    has_ut = side == "upper"
    runs = {p: oneside_run(spec, p) for p in ("default", spec["path"])}
    for p, r in runs.items():
        where = "rest left at the default" if p == "default" else {"explicit_inf": "rest given explicitly as -inf / +inf", "assigned_inf": "built two-sided, the other side removed by assignment",
                                                                  "from_variable": "from_variable('tas', **settings)"}[p]
        if r["result"][0] != "ok":
            problems.append(("isimip_oneside_error", f"ISIMIP with {side_text(spec)} ({where}): {'step4 -> step5 -> step6 on one window' if spec['call'] == 'step6' else 'apply'} raises {r['result'][1]}", {"path": p}))
            continue
        fits = r["fits"]
        genuine = [e for e in fits if not e["nonfinite"] and ("raised" in e or not np.all(np.isfinite(e.get("returned", [0.0]))))]
        for e in fits:
            bad = []
            for k in e["nonfinite"]:
                bad.append(f"{k}={e['fixed'][k]} (the infinite stand-in of a threshold that was not given is used as a number)")
            if e["fixed"].get("fscale") is not None and not (has_lt and has_ut) and "fscale" not in e["nonfinite"]:
                bad.append(f"fscale={e['fixed']['fscale']} fixed although the variable has no threshold on {'either' if not (has_lt or has_ut) else 'the ' + ('upper' if has_lt else 'lower')} side")
            if e["fixed"].get("floc") is not None and not has_lt and "floc" not in e["nonfinite"]:
                bad.append(f"floc={e['fixed']['floc']} fixed although the variable has no lower threshold")
            if bad:
                then = (f"the fit raises ({e['raised']}) and step 6 silently maps nonparametrically" if "raised" in e
                        else f"the fit returns {e.get('returned')}")
                feas = ("" if "feasible_with_that_parameter_free" not in e else
                        f"; the same fit with that parameter left free is {'feasible' if e['feasible_with_that_parameter_free'] else 'not feasible either'}")
                problems.append(("isimip_oneside_fit_args",
                                 f"ISIMIP with {side_text(spec)} ({where}): step 6 fits {spec['dist']} to {e['n']} values with {'; '.join(bad)} — {then}{feas}; "
                                 f"{r['failed']} 'parametric CDF fit failed' fallbacks in this {spec['call']}", {"path": p, "fit_call": os_json(e)}))
                break
        if r["failed"] > sum(1 for e in fits if "raised" in e or not np.all(np.isfinite(e.get("returned", [0.0])))):
            problems.append(("isimip_oneside_fallback", f"ISIMIP with {side_text(spec)} ({where}): step 6 reports {r['failed']} failed parametric fits and maps nonparametrically, "
                             f"but only {len([e for e in fits if 'raised' in e])} of the {len(fits)} fits it ran failed", {"path": p}))
        if not np.all(np.isfinite(r["result"][1])) and all(np.all(np.isfinite(e.get("returned", [0.0]))) for e in fits) and not any(e["nonfinite"] for e in fits):
            problems.append(("isimip_oneside_nonfinite", f"ISIMIP with {side_text(spec)} ({where}): {spec['call']} returns "
                             f"{int((~np.isfinite(r['result'][1])).sum())} non-finite values for finite input although every distribution fit it ran returned finite "
                             f"parameters — a side that was not given is not treated as unbounded", {"path": p}))
        enough = r["between"] is None or min(r["between"]) >= 2
        if enough and not fits:
            problems.append(("isimip_oneside_no_parametric", f"ISIMIP with {side_text(spec)} ({where}), nonparametric_qm=False: {spec['call']} never fits the distribution "
                             f"(values between the thresholds: {r['between']}) — the documented parametric quantile mapping is not what runs", {"path": p}))
        if p == "default":
            info = {"fits": len(fits), "fit_failures_with_finite_or_no_fixed_parameters": len(genuine), "fallbacks": r["failed"],
                    "first_fit": os_json(fits[0]) if fits else None}
    a, b = runs["default"]["result"], runs[spec["path"]]["result"]
    if a[0] == b[0] == "ok" and not (a[1].shape == b[1].shape and np.array_equal(a[1], b[1], equal_nan=True)):
        d = float(np.nanmax(np.abs(a[1] - b[1]))) if a[1].shape == b[1].shape else None
        problems.append(("isimip_oneside_default_vs_inf", f"ISIMIP with {side_text(spec)}: the construction path '{spec['path']}' gives another {spec['call']} output than leaving the "
                         f"other settings at their default (max |diff| = {d}) although both describe the same configuration", {"path": spec["path"]}))
    return problems, info


def os_json(o):
    """recorded fit call -> strict JSON (non-finite floats as text)"""
    if isinstance(o, dict):
        return {k: os_json(v) for k, v in o.items()}
    if isinstance(o, (list, tuple)):
        return [os_json(v) for v in o]
    if isinstance(o, float) and not np.isfinite(o):
        return repr(o)
    return o


def side_text(spec):
    if spec.get("var"):
        return f"the library's settings for {spec['var']} (lower bound and threshold only), distribution {spec['dist']}"
    given = ONESIDE[spec["side"]]
    return (", ".join(f"{k}={v}" for k, v in given.items()) if given else "no bound and no threshold") + f" and nothing else, distribution {spec['dist']}"


def oneside_specs(tier, rng):
    """systematic: every side x every distribution on one step-6 window (the other dimensions rotate / are drawn), the library's
    one-sided variables, the full apply; then seeded random configurations"""
    specs = []

    def draw(**fixed):
        s = {"side": rng.choice(list(ONESIDE)), "dist": rng.choice(ONESIDE_DISTS), "trend": rng.choice(["mixed", "additive", "multiplicative"]),
             "ks": rng.random() < 0.5, "path": rng.choice(ONESIDE_PATHS), "frac": rng.choice([0.0, 0.1, 0.25, 0.4]), "call": "step6",
             "n": [rng.randrange(60, 400), rng.randrange(60, 400), rng.randrange(60, 400)], "data_seed": rng.randrange(10 ** 6)}
        s.update(fixed)
        return s

    k = 0
    for side in ONESIDE:
        for dist in ONESIDE_DISTS:
            specs.append(draw(side=side, dist=dist, path=ONESIDE_PATHS[k % 3], ks=bool(k % 2)))
            k += 1
    for var, (dist, scale) in ONESIDE_LIBVARS.items():
        for path in ("explicit_inf", "assigned_inf"):
            specs.append(draw(side="lower", dist=dist, var=var, scale=scale, path=path, trend="mixed"))
    for side, dist, window, path in (("lower", "gamma", "month", "explicit_inf"), ("lower", "norm", "running", "assigned_inf"),
                                     ("upper", "norm", "month", "from_variable"), ("lower", "weibull_min", "running", "explicit_inf")):
        specs.append(draw(side=side, dist=dist, call="apply", window=window, path=path, frac=0.25, n=None))
    specs.append(draw(side="lower", dist="gamma", var="pr", scale=2.0 ** -17, call="apply", window="month", path="explicit_inf", frac=0.25, n=None, trend="mixed"))
    for _ in range(30 if tier == "quick" else 300):
        specs.append(draw())
    return specs


# ------------------------------------------------------------------ the check
def run(tier, res, force_search=False):
    import attrs
    import ibicus.debias as D
    import ibicus.variables as V
    import extract_config

    logging.getLogger("ibicus").setLevel(logging.CRITICAL)
    logging.getLogger().setLevel(logging.ERROR)  # QDM.for_precipitation logs through the root logger
    rng = random.Random(C.seed() * 7919 + 15)
    res.rule = ("exhaustive: 8 debiasers x 14 variable names x {lower, UPPER, MiXed, Variable object} (+ QDM with a censoring_threshold keyword, "
                "unknown names, for_precipitation); every pair x subsets of the variable's own default keys (all subsets up to 4 keys, else empty / singletons / "
                "full / full minus one / 4 seeded) +- a setting outside them, given the default's own or another valid value, x 4 spellings: outcome as "
                "documented, overrides and remaining defaults on the instance; every (debiaser, attrs field): one valid override (kwarg visible; constructor- vs "
                "attribute-configured apply output compared bitwise on a fixed 730/730/1096-day 1x2 data set) and one or two invalid values per validator; "
                "seeded: has_* on random bound quadruples; ISIMIP with bounds on one side only / a bound without threshold / nothing: 5 sides x 5 distributions "
                "systematically + the library's one-sided variables + the full apply + seeded random configurations (construction path, trend preservation, KS test, "
                "share of values on the bound, sizes), fit calls observed through the distribution object passed in. Non-trivial = the cell is supported-with-warning or unsupported / the spelling differs "
                "from the key / the override changes the apply output / the value is invalid; distinct = distinct tuples")
    res.trusted = C.BASE_TRUSTED + [
        "translator/extract_config.py (AST -> tables); attrs semantics (validators and converters run on __init__ and on attribute assignment) "
        "are modelled in Model.Config.checkField and validated by the correspondence only",
        "str.lower() is modelled on ASCII letters (Model.Config.lowerC)",
    ]
    res.assumptions = ["RUNTIME-ONLY clauses (decided by the oracle on the real code, no theorem): bitwise equality of the numeric apply outputs of "
                       "two instances (the model proves equality of everything a run can read — fields and active derived attributes — for any "
                       "history; that a run reads nothing else, e.g. no cache keyed on stale state such as a cached_property, is what the sequence "
                       "oracle and the tier-A requirement that has_* are plain properties tie), the warning machinery of from_variable, the "
                       "contents of distribution objects (QDM's censored-gamma threshold), that ISIMIP without bounds *runs*",
                       "QuantileDeltaMapping: cdf_threshold is given explicitly when window lengths are assigned (the property's own guard; "
                       "theorem qdm_cdf_threshold_guard_needed shows it is necessary)",
                       "QuantileDeltaMapping for pr: the distribution is given explicitly too — from_variable('pr', censoring_threshold=x) derives the "
                       "censored-gamma distribution from x (for_precipitation) whereas assigning censoring_threshold leaves the distribution alone, as the "
                       "class docstring warns; read as a derived default under the property's guard (measured: see qdm_pr_unguarded_censoring_threshold)",
                       "the attrs field `variable` cannot be passed as a from_variable keyword (it is from_variable's own first parameter); not an override",
                       "randomised steps (SSR, hurdle randomisation, ISIMIP step 4) are compared under the same numpy seed",
                       "'built without bounds ... unbounded as documented' is read per side: a side left at its documented default (-inf / +inf) is unbounded in "
                       "every step whatever the other side is; in step 6 the infinite stand-in must not enter the distribution fit, a parameter is fixed only "
                       "from thresholds that exist, the parametric fit is attempted and step 6 falls back only when a fit really failed (RUNTIME-ONLY, no "
                       "theorem). A fit that raises although every fixed parameter it got is finite or None is tolerated and counted "
                       "(isimip_one_sided.fit_failures_with_finite_or_no_fixed_parameters: with the installed scipy, gamma / rice / weibull_min reject an "
                       "explicit floc=None, so ISIMIP with these distributions and no lower threshold always maps nonparametrically)"]

    lean_ok = C.lean_phase(res, PROP, GEN, TARGETS)
    problems, lines, expect = [], [], []

    def q(line, what, case, exp):
        lines.append(line)
        expect.append((what, case, exp))

    # the table as documented *now* (the oracle reads the current docstring, not the model's copy)
    try:
        cols, rows = extract_config.doc_table(C.REPO)
        var_keys = dict(extract_config.var_keys(C.REPO))
    except Exception as ex:  # noqa: BLE001
        cols, rows, var_keys = [], [], {}
        res.tie_broken.append(f"support table unreadable: {type(ex).__name__} {ex}")
    def ident(v):
        """what a Variable *is* (name, unit, physical range): two accepted names whose objects agree in all three are aliases of
        one variable, whether or not they share the Python object"""
        r = v.reasonable_physical_range
        return (v.name, v.unit, tuple(r) if r is not None else None)

    doc = {}
    for label, marks in rows:
        vo = V.str_to_variable_class.get(label.lower())
        if vo is None:
            res.tie_broken.append(f"row label {label!r} of the support table is not an accepted variable name")
            continue
        for c, m in zip(cols, marks):
            doc[(c, ident(vo))] = {"x": "silent", "(x)": "experimental", "": "valueError"}[m]

    names = list(V.str_to_variable_class.keys())
    q("names", "names", {}, ",".join(names))

    # ---- (a)+(b) the matrix
    for name in DEBS:
        cls = getattr(D, name)
        for key in names:
            vobj = V.str_to_variable_class[key]
            vid = next(k for k, o in vars(V).items() if o is vobj and isinstance(o, V.Variable))
            want = doc.get((name, ident(vobj)), "valueError")
            for spell, arg in (("lower", key), ("UPPER", upper(key)), ("MiXed", mixed(key)), ("object", vobj)):
                got, inst, other = outcome_from_variable(cls, arg)
                case = {"debiaser": name, "variable": key, "spelling": spell, "argument": arg if isinstance(arg, str) else f"ibicus.variables.{vid}"}
                res.count((name, key, spell), want != "silent" or spell != "lower", sample={**case, "outcome": got} if want != "silent" else None)
                if spell == "object":
                    q(f"support {name} obj {vid} 0", "support", case, got)
                else:
                    q(f"support {name} name {arg} 0", "support", case, got)
                if got != want:
                    problems.append((f"from_variable({arg!r}) is '{got}' but the published table says '{want}'", case,
                                     {"what": "support_table" if spell == "lower" else ("name_case" if spell != "object" else "variable_object")}))
                if other:
                    problems.append((f"from_variable({arg!r}) emitted {other} warnings other than the experimental one", case, {"what": "spurious_warning"}))
                if inst is not None and inst.variable != vobj.name:
                    problems.append((f"from_variable({arg!r}).variable = {inst.variable!r}, expected {vobj.name!r}", case, {"what": "variable_name"}))
            q(f"doc {name} {key}", "doc", {"debiaser": name, "variable": key}, want)
        # every accepted name / alias of one variable behaves like its canonical name (the one with a table row, else the first)
        groups = {}
        for key in names:
            groups.setdefault(ident(V.str_to_variable_class[key]), []).append(key)
        row_keys = {label.lower() for label, _ in rows}
        for keys in groups.values():
            canon = next((k for k in keys if k in row_keys), keys[0])
            ref_out = outcome_from_variable(cls, canon)[0]
            for k in keys:
                for spell, arg in (("lower", k), ("UPPER", upper(k)), ("MiXed", mixed(k))):
                    if k == canon and spell == "lower":
                        continue
                    got = outcome_from_variable(cls, arg)[0]
                    res.count((name, "alias", k, spell), len(keys) > 1)
                    if got != ref_out:
                        problems.append((f"from_variable({arg!r}) is '{got}' but from_variable({canon!r}) — the same variable — is '{ref_out}'",
                                         {"debiaser": name, "variable": k, "spelling": spell, "argument": arg, "canonical": canon}, {"what": "alias_outcome"}))
        for bad in ("temperature", "", "t as"):
            got, _, _ = outcome_from_variable(cls, bad)
            res.count((name, "unknown", bad), True)
            if bad and " " not in bad:
                q(f"support {name} name {bad} 0", "support", {"debiaser": name, "variable": bad}, got)
            if got != "valueError":
                problems.append((f"unknown variable name {bad!r} gives '{got}', not ValueError", {"debiaser": name, "variable": bad}, {"what": "unknown_name"}))
        # for_precipitation
        if hasattr(cls, "for_precipitation"):
            with warnings.catch_warnings(record=True) as ws:
                warnings.simplefilter("always")
                try:
                    cls.for_precipitation()
                    got = "experimental" if any("experimental" in str(w.message) for w in ws) else "silent"
                except Exception as ex:  # noqa: BLE001
                    got = "valueError" if isinstance(ex, ValueError) else type(ex).__name__
            q(f"forprecip {name}", "forprecip", {"debiaser": name}, got)
            res.count((name, "for_precipitation"), True)
            if got != "silent":
                problems.append((f"{name}.for_precipitation() is '{got}'", {"debiaser": name}, {"what": "for_precipitation"}))
        else:
            q(f"forprecip {name}", "forprecip", {"debiaser": name}, "none")

    # ---- the variable's defaults (and the general defaults under them) are what an instance gets; a keyword argument on top wins
    for name in DEBS:
        cls = getattr(D, name)
        dflt, expd, general = settings_dicts(cls)
        for vobj, vs in list(dflt.items()) + list(expd.items()):
            key = next(k for k, o in V.str_to_variable_class.items() if o is vobj)
            for kwargs in ({}, {"running_window_mode": False}, {"running_window_mode": True, "running_window_length": 45}):
                with warnings.catch_warnings():
                    warnings.simplefilter("ignore")
                    try:
                        inst = cls.from_variable(key, **kwargs)
                    except Exception as ex:  # noqa: BLE001
                        problems.append((f"from_variable({key!r}, **{kwargs}) raised {type(ex).__name__}: {str(ex)[:80]}",
                                         {"debiaser": name, "variable": key, "kwargs": kwargs}, {"what": "defaults_rejected"}))
                        continue
                merged = {"variable": vobj.name, "reasonable_physical_range": vobj.reasonable_physical_range, **general, **vs, **kwargs}
                res.count((name, key, "defaults", repr(kwargs)), True)
                for k, v in merged.items():
                    got = getattr(inst, k)
                    case = {"debiaser": name, "variable": key, "kwargs": kwargs, "setting": k, "expected": repr(v)[:60], "on_instance": repr(got)[:60]}
                    if not (same_value(got, v) or (isinstance(got, float) and isinstance(v, (int, float)) and float(v) == got)):
                        src = "keyword argument" if k in kwargs else "variable default" if k in vs else "general default" if k in general else "Variable attribute"
                        problems.append((f"from_variable({key!r}, **{kwargs}).{k} = {got!r}, but the {src} is {v!r}", case,
                                         {"what": "kwarg_ignored" if k in kwargs else "default_not_applied"}))
                    if enc_field(v) != "o:str":
                        q(f"params {enc_field(vobj.name)} {enc_field(vobj.reasonable_physical_range)} {assoc_line(general)} {assoc_line(vs)} {assoc_line(kwargs)} {k}",
                          "params", case, enc_field(got))

    # QDM detour: censoring_threshold keyword for every variable / spelling; the distribution must know the threshold for every spelling of pr
    qdm = D.QuantileDeltaMapping
    for key in names:
        vobj = V.str_to_variable_class[key]
        vid = next(k for k, o in vars(V).items() if o is vobj and isinstance(o, V.Variable))
        for spell, arg in (("lower", key), ("UPPER", upper(key)), ("MiXed", mixed(key)), ("object", vobj)):
            got, inst, _ = outcome_from_variable(qdm, arg, censoring_threshold=2.0 ** -17)
            case = {"debiaser": "QuantileDeltaMapping", "variable": key, "spelling": spell, "kwargs": {"censoring_threshold": 2.0 ** -17}}
            res.count(("QDM-kw", key, spell), True)
            q(f"support QuantileDeltaMapping {'obj ' + vid if spell == 'object' else 'name ' + arg} 1", "support", case, got)
            if inst is not None:
                if inst.censoring_threshold != 2.0 ** -17:
                    problems.append((f"censoring_threshold keyword ignored: {inst.censoring_threshold}", case, {"what": "qdm_pr_detour_falsy_kwarg"}))
                thr = getattr(inst.distribution, "censoring_threshold", None)
                if var_keys.get(key) == "pr" and thr != 2.0 ** -17:
                    problems.append((f"spelling {arg!r} of pr: the precipitation distribution has censoring threshold {thr}, not the one given", case,
                                     {"what": "qdm_pr_detour_case"}))
    for falsy in (0.0,):
        with warnings.catch_warnings():
            warnings.simplefilter("ignore")
            try:
                inst = qdm.from_variable("pr", censoring_threshold=falsy)
                if inst.censoring_threshold != falsy:
                    problems.append((f"censoring_threshold={falsy} silently replaced by {inst.censoring_threshold}",
                                     {"debiaser": "QuantileDeltaMapping", "variable": "pr", "kwargs": {"censoring_threshold": falsy}}, {"what": "qdm_pr_detour_falsy_kwarg"}))
            except Exception:  # noqa: BLE001  rejected = not silently ignored
                pass

    # ---- (c)-(e) every field: override, assignment vs construction, rejection
    field_tables = {}
    try:
        fl = C.run_driver("DrvConfig", [f"fields {n}" for n in DEBS])
        field_tables = {n: parse_fields(l) for n, l in zip(DEBS, fl)}
    except (C.DriverError, Exception) as ex:  # noqa: BLE001
        res.tie_broken.append(f"driver DrvConfig: {type(ex).__name__}: {str(ex)[:200]}")

    # ---- (a) x (c): the support trichotomy under keyword overrides. Every pair of the matrix x subsets of the variable's own
    # default keys (incl. ALL of them) and a setting outside them, given the default's own value or another valid value, every
    # spelling of the variable: the outcome is the table's (an unsupported pair stays a ValueError whatever settings are
    # supplied), the overrides are on the instance and the defaults not overridden still are.
    n_kw_cases = n_kw_invalid = 0
    import time as _time
    t_kw = _time.time()
    rng_kw = random.Random(C.seed() * 7919 + 1515)
    for name in DEBS:
        cls = getattr(D, name)
        mfields = {f["name"]: f for f in field_tables.get(name, [])}
        dflt_all, expd_all, _ = settings_dicts(cls)
        donors = []  # (variable name, its complete default dict) of this class, distinct ones: settings to offer an unsupported pair
        for o, s in list(dflt_all.items()) + list(expd_all.items()):
            dn = next((k for k, oo in V.str_to_variable_class.items() if oo is o), None)
            if dn is not None and len(donors) < 3 and all(set(s) != set(d) or any(s[k] is not d[k] and s[k] != d[k] for k in s) for _, d in donors):
                donors.append((dn, s))
        for key in names:
            vobj = V.str_to_variable_class[key]
            vid = next(k for k, o in vars(V).items() if o is vobj and isinstance(o, V.Variable))
            want = doc.get((name, ident(vobj)), "valueError")
            vs, general = variable_defaults(cls, vobj, ident)
            inst0 = construct(cls, {}, key)[0] if vs is not None else None
            avar = "pr" if var_keys.get(key) == "pr" else "tas"
            plans = []  # (override keys, mode)
            if vs is not None and inst0 is not None:
                extra = [k for k in ("running_window_mode",) if k not in vs and hasattr(inst0, k)]
                for sub in key_subsets(vs.keys(), rng_kw):
                    for keys_ in ([sub] if sub else []) + ([sub + tuple(extra)] if extra and len(sub) in (0, len(vs)) else []):
                        plans += [(keys_, "same"), (keys_, "alt")]
            else:
                plans += [(tuple(d.keys()), ("donor", kd)) for kd, (_, d) in enumerate(donors)] + [(("running_window_mode",), "alt")]
            for keys_, mode in plans:
                kw, tags = {}, {}
                for k in keys_:
                    if isinstance(mode, tuple):
                        kw[k], tags[k] = donors[mode[1]][1][k], ["default_of", donors[mode[1]][0]]
                        continue
                    cur = vs[k] if vs is not None and k in vs else (getattr(inst0, k) if inst0 is not None else False)
                    if mode == "same":
                        kw[k], tags[k] = cur, tag_value(cur, True)
                    elif k in mfields:
                        x = alt_value(name, mfields[k], cur, avar)
                        if x is not None:
                            kw[k], tags[k] = x, tag_value(x, False)
                if len(kw) != len(keys_) or any(t[0] == "repr" for t in tags.values()):
                    continue  # no alternative value known for some key (or the field table is unavailable): the 'same' plan covers the key set
                for spell, arg in (("lower", key), ("UPPER", upper(key)), ("MiXed", mixed(key)), ("object", vobj)):
                    got, inst, other = outcome_from_variable(cls, arg, **kw)
                    n_kw_cases += 1
                    covers = vs is not None and set(vs) <= set(kw)
                    case = {"debiaser": name, "variable": key, "spelling": spell, "argument": arg if isinstance(arg, str) else f"ibicus.variables.{vid}",
                            "kwargs": tags, "kwargs_shown": show_kwargs(kw), "overrides_all_variable_defaults": bool(covers), "expected_outcome": want}
                    res.count((name, key, "kwargs", keys_, str(mode), spell), True,
                              sample={**case, "outcome": got} if covers and want == "experimental" and spell == "lower" and mode == "same" else None)
                    if got != want:
                        if got not in ("silent", "experimental") and want != "valueError" and direct_construct_error(cls, vobj, general, vs, kw) == (
                                "ValueError" if got == "valueError" else got):
                            n_kw_invalid += 1  # the override set is invalid in itself (the plain constructor rejects it the same way): not judged
                            continue
                        problems.append((f"from_variable({arg!r}, **{show_kwargs(kw)}) is '{got}' but the published table says '{want}' for this pair "
                                         f"(keyword overrides do not change the documented support)", case, {"what": "kwargs_outcome"}))
                        continue
                    if spell in ("lower", "object") and mode == "same" and (covers or vs is None):
                        flag = int(name == "QuantileDeltaMapping" and kw.get("censoring_threshold") is not None)
                        q(f"support {name} {'obj ' + vid if spell == 'object' else 'name ' + arg} {flag}", "support", case, got)
                    if other and mode == "same":
                        problems.append((f"from_variable({arg!r}, **{show_kwargs(kw)}) emitted {other} warnings other than the experimental one", case,
                                         {"what": "kwargs_spurious_warning"}))
                    if inst is None:
                        continue
                    detour = name == "QuantileDeltaMapping" and avar == "pr" and kw.get("censoring_threshold") is not None
                    for k, v in {**vs, **kw}.items():
                        if k not in kw and detour and k == "distribution":
                            continue  # QDM/pr: the distribution is derived from the censoring_threshold keyword (for_precipitation), guard of §4
                        have = getattr(inst, k)
                        if not (same_value(have, v) or (isinstance(have, float) and isinstance(v, (int, float)) and float(v) == have)):
                            src = "keyword argument" if k in kw else "variable default"
                            problems.append((f"from_variable({arg!r}, **{show_kwargs(kw)}).{k} = {have!r}, but the {src} is {v!r}",
                                             {**case, "setting": k, "expected": repr(v)[:60], "on_instance": repr(have)[:60]},
                                             {"what": "kwargs_not_visible" if k in kw else "kwargs_default_lost"}))
    res.extra["from_variable_with_keyword_overrides"] = n_kw_cases
    res.extra["override_sets_invalid_in_themselves"] = n_kw_invalid
    res.extra["from_variable_with_keyword_overrides_wall_s"] = round(_time.time() - t_kw, 2)
    n_effect = 0
    for name in DEBS:
        cls = getattr(D, name)
        real_fields = [a for a in attrs.fields(cls)]
        model_fields = field_tables.get(name, [])
        if model_fields and [a.name for a in real_fields] != [f["name"] for f in model_fields]:
            # order differs for redefined fields only in attrs' own bookkeeping; compare as sets + defaults
            if sorted(a.name for a in real_fields) != sorted(f["name"] for f in model_fields):
                res.tie_broken.append(f"field list of {name}: model {[f['name'] for f in model_fields]} vs attrs {[a.name for a in real_fields]}")
        for a in real_fields:
            mf = next((f for f in model_fields if f["name"] == a.name), None)
            if mf is not None and (mf["default"] is None) != (a.default is attrs.NOTHING):
                res.tie_broken.append(f"{name}.{a.name}: required-ness differs between model and attrs")
        all_model_fields = list(model_fields)
        model_fields = [f for f in model_fields if f["name"] != "variable"]
        # (`variable` is also the name of from_variable's own first parameter, so it cannot be passed as a keyword override —
        #  TypeError: multiple values; it is the Variable's name, not a setting; excluded here and below)
        rule_fields = [f["name"] for f in model_fields if f["name"] != "reasonable_physical_range"]
        for var in variables_for(name, tier):
            base_kw = base_kwargs(name, var)
            base, err = construct(cls, base_kw, var)
            if base is None:
                problems.append((f"base configuration {base_kw} rejected: {err}", {"debiaser": name, "variable": var}, {"what": "base_config"}))
                continue
            ref = run_apply(base, var)
            for f in model_fields:
                fname = f["name"]
                if var == "tas_years" and "over_years" not in fname:
                    continue
                cur = getattr(base, fname)
                x = alt_value(name, f, cur, var)
                if x is None:
                    continue
                case = {"debiaser": name, "variable": var, "base_kwargs": {k: (v if isinstance(v, (bool, int, float, str)) else repr(v)) for k, v in base_kw.items()},
                        "setting": fname, "value": x if isinstance(x, (bool, int, float, str, list, dict)) else repr(x)}
                # (c) keyword override is visible
                A, errA = construct(cls, {**base_kw, fname: x}, var)
                if A is not None:  # (a construction that fails in __attrs_post_init__ is compared through the `apply` line below)
                    q(f"field {name} {fname} {enc(x)}", "field", case, "ok " + enc(float(x) if f["converter"] == "float" else x))
                if A is not None and not same_value(getattr(A, fname), float(x) if f["converter"] == "float" else x):
                    problems.append((f"keyword argument {fname}={x!r} not visible on the instance: {getattr(A, fname)!r}", case, {"what": "kwarg_ignored"}))
                # (d) assignment then apply = construction then apply
                B, _ = construct(cls, base_kw, var)
                errB = None
                try:
                    with warnings.catch_warnings():
                        warnings.simplefilter("ignore")
                        setattr(B, fname, x)
                except Exception as ex:  # noqa: BLE001
                    errB = type(ex).__name__
                ra = ("error", errA) if A is None else run_apply(A, var)
                rb = ("error", errB) if errB else run_apply(B, var)
                same = (ra[0] == rb[0]) and (np.array_equal(ra[1], rb[1], equal_nan=True) if ra[0] == "ok" else ra[1] == rb[1])
                effect = not (ra[0] == ref[0] == "ok" and np.array_equal(ra[1], ref[1], equal_nan=True))
                n_effect += effect
                res.count((name, var, fname, "assign"), effect, sample={**case, "constructed": ra[0] if ra[0] == "ok" else ra, "assigned": rb[0] if rb[0] == "ok" else rb,
                                                                     "changes_output": bool(effect)} if effect else None)
                if A is not None and errB is None and ra[0] == rb[0] == "ok" and observe(A, name, ra) != observe(B, name, rb):
                    problems.append((f"after {fname}={x!r} was assigned and apply ran, the derived attributes are {observe(B, name, rb)[1:]} — an instance "
                                     f"constructed with {fname}={x!r} has {observe(A, name, ra)[1:]}", case, {"what": "derived_attribute_stale"}))
                if not same:
                    detail = (f"max |diff| = {float(np.nanmax(np.abs(ra[1] - rb[1]))):.3g}" if ra[0] == rb[0] == "ok" and ra[1].shape == rb[1].shape
                              else f"constructed: {ra if ra[0] != 'ok' else 'ok'}, assigned: {rb if rb[0] != 'ok' else 'ok'}")
                    problems.append((f"{fname}={x!r} assigned before apply differs from {fname}={x!r} at construction ({detail})", case, {"what": "assign_ne_construct"}))
                # (d) as a SEQUENCE on one instance: apply (or inspect) first, then assign, then apply — state cached by an
                # earlier run / an earlier look must not survive the assignment
                if fname in WINDOW_FIELDS or fname in BOUND_FIELDS:
                    for first in ("apply", "read"):
                        ok_seq, _, rs, S = sequence_case(lambda extra: construct(cls, {**base_kw, **extra}, var), [(fname, x)], var, first, ra=ra)
                        res.count((name, var, fname, "sequence", first), True)
                        if A is not None and S is not None and ra[0] == rs[0] == "ok" and observe(A, name, ra) != observe(S, name, rs):
                            problems.append((f"{first} first, then {fname}={x!r} assigned, then apply: the derived attributes are {observe(S, name, rs)[1:]} — an "
                                             f"instance constructed with {fname}={x!r} has {observe(A, name, ra)[1:]}",
                                             {**case, "sequence": [first, f"assign {fname}", "apply"]}, {"what": "derived_attribute_stale"}))
                        if (first == "apply" and fname in WINDOW_FIELDS and S is not None
                                and (rs[0] == "ok" or rs[1] in ("ValueError", "TypeError", "AttributeError"))):
                            # model: the same history (apply, assignment, apply) through `runOps`
                            q(f"ops {name} {fields_line(base, rule_fields)} A;{fname}={enc(x)}", "apply",
                              {**case, "sequence": ["apply", f"assign {fname}", "apply"]}, observe(S, name, rs))
                        if not ok_seq:
                            problems.append((f"{first} first, then {fname}={x!r} assigned, then apply differs from {fname}={x!r} at construction "
                                             f"({diff_detail(ra, rs)})", {**case, "sequence": [first, f"assign {fname}", "apply"]},
                                             {"what": "sequence_assign_ne_construct"}))
                # model: post-init outcome and derived attributes after the assignment
                if fname in WINDOW_FIELDS and errB is None and (rb[0] == "ok" or rb[1] in ("ValueError", "TypeError", "AttributeError")):
                    line = f"apply {name} 1 {fields_line(base, rule_fields)} {fname}={enc(x)}"
                    if rb[0] == "error":
                        obs = "error " + str(rb[1])
                    else:
                        act = []
                        for tgt, (la, sa) in TARGET_ATTRS.items():
                            flag = {"running_window": "running_window_mode", "running_window_over_years_of_cm_future": "running_window_mode_over_years_of_cm_future"}[tgt]
                            if getattr(B, flag, False):
                                o = getattr(B, tgt, None)
                                act.append((tgt, type(o).__name__, getattr(o, la, None), getattr(o, sa, None)))
                        obs = ("ok", act, getattr(B, "cdf_threshold", None) if name == "QuantileDeltaMapping" else None)
                    q(line, "apply", case, obs)
            # running window switched on by assignment on a *default* instance (what DeltaChange.apply used to miss)
            kw0 = {k: v for k, v in base_kw.items() if k not in ("running_window_mode", "running_window_step_length")}
            A, _ = construct(cls, {**kw0, "running_window_mode": True, "running_window_step_length": 31}, var)
            B, _ = construct(cls, {**kw0, "running_window_mode": False}, var)
            if A is not None and B is not None:
                B.running_window_step_length = 31
                B.running_window_mode = True
                ra, rb = run_apply(A, var), run_apply(B, var)
                same = (ra[0] == rb[0]) and (np.array_equal(ra[1], rb[1], equal_nan=True) if ra[0] == "ok" else ra[1] == rb[1])
                res.count((name, var, "window on by assignment"), True)
                if not same:
                    problems.append((f"running_window_mode=True assigned on a default instance: constructed {ra if ra[0] != 'ok' else 'ok'}, assigned {rb if rb[0] != 'ok' else 'ok'}",
                                     {"debiaser": name, "variable": var, "setting": "running_window_mode", "value": True, "base_kwargs": "default"},
                                     {"what": "assign_ne_construct"}))

        # (d') every value SPELLING: assignment accepts exactly what construction accepts, stores the same value (and type), same output
        base_kw = base_kwargs(name, "tas")
        for f in model_fields:
            base_i, _ = construct(cls, base_kw)
            for x, note in spellings(f, getattr(base_i, f["name"])):
                case = {"debiaser": name, "variable": "tas", "base_kwargs": {k: (v if isinstance(v, (bool, int, float, str)) else repr(v)) for k, v in base_kw.items()},
                        "setting": f["name"], "value": repr(x), "value_type": type(x).__name__, "why": note}
                A, errA = construct(cls, {**base_kw, f["name"]: x})
                B, _ = construct(cls, base_kw)
                errB = None
                try:
                    with warnings.catch_warnings():
                        warnings.simplefilter("ignore")
                        setattr(B, f["name"], x)
                except Exception as ex:  # noqa: BLE001
                    errB = type(ex).__name__
                res.count((name, f["name"], "spelling", note), True, sample=case if f["converter"] and len(res.distinct) % 7 == 0 else None)
                stored = None if errB else getattr(B, f["name"])
                q(f"setattr {name} {f['name']} {enc_np(x)}", "setattr", case, "error " + errB if errB else "ok " + enc_np(stored))
                if (A is None) != (errB is not None):
                    if A is not None:
                        problems.append((f"{f['name']}={x!r} ({type(x).__name__}) is accepted at construction (stored {getattr(A, f['name'])!r}) but the "
                                         f"assignment raises {errB}", case, {"what": "assign_rejects_construct_accepts"}))
                    elif not (errA in ("ValueError",) and f["name"].startswith("running_window")):  # (a combination caught only by post-init, later at apply)
                        problems.append((f"{f['name']}={x!r} ({type(x).__name__}) is rejected at construction ({errA}) but accepted by assignment", case,
                                         {"what": "assign_accepts_construct_rejects"}))
                    continue
                if A is None:
                    continue
                va, vb = getattr(A, f["name"]), stored
                if type(va) is not type(vb) or not same_value(va, vb):
                    problems.append((f"{f['name']}={x!r} ({type(x).__name__}): construction stores {va!r} ({type(va).__name__}), assignment stores {vb!r} "
                                     f"({type(vb).__name__})", case, {"what": "assign_stores_differently"}))
                elif f["converter"]:
                    ra, rb = run_apply(A), run_apply(B)
                    if not same_result(ra, rb):
                        problems.append((f"{f['name']}={x!r} ({type(x).__name__}) assigned before apply differs from the same value at construction "
                                         f"({diff_detail(ra, rb)})", case, {"what": "assign_ne_construct"}))
        # (e) invalid values: rejected at construction (and the model's class) — whatever the *other* settings are
        base_kw = base_kwargs(name, "tas")
        base, _ = construct(cls, base_kw)
        contexts = [("tas", base_kw), ("tas", {**base_kw, "running_window_mode": False}),
                    ("pr", {}), ("pr", {"running_window_mode": not getattr(base, "running_window_mode")})]
        for f in model_fields:
            for bad, note in invalid_values(f):
                for kc, (cvar, ckw) in enumerate(contexts):
                    case = {"debiaser": name, "variable": cvar, "other_settings": {k: (v if isinstance(v, (bool, int, float, str)) else repr(v)) for k, v in ckw.items()},
                            "setting": f["name"], "value": bad, "why": note}
                    if name == "QuantileDeltaMapping" and cvar == "pr" and f["name"] == "censoring_threshold" and bad is None:
                        continue  # from_variable("pr", censoring_threshold=None) means "not given" (the pr detour pops it): not an invalid value
                    inst, err = construct(cls, {**ckw, f["name"]: bad}, cvar)
                    res.count((name, f["name"], "invalid", repr(bad), kc), True)
                    if kc == 0:
                        q(f"field {name} {f['name']} {enc(bad)}", "field", case, "error " + str(err) if inst is None else "ok " + enc(getattr(inst, f["name"])))
                    if cvar == "tas":
                        ctx_inst, _ = construct(cls, ckw, cvar)
                        if ctx_inst is not None:  # model: attrs validation of every field + post-init, with the bad value among valid ones
                            q(f"construct {name} {all_fields_line(ctx_inst, all_model_fields, {f['name']: bad})}", "construct", case,
                              "ok" if inst is not None else "error " + str(err))
                    if inst is not None:
                        problems.append((f"invalid setting {f['name']}={bad!r} ({note}) accepted at construction", case, {"what": "invalid_accepted"}))
        # invalid COMBINATIONS of settings: rejected at construction and by the re-run of __attrs_post_init__ in apply, in every
        # surrounding configuration (running window on / off, several variables)
        combos = []
        win_bad = {"running_window_length": 31, "running_window_step_length": 33}
        if name not in ("DeltaChange", "ISIMIP"):
            combos.append(("step length > window length", win_bad, [{"running_window_mode": False}, {"running_window_mode": True}]))
        else:
            combos.append(("step length > window length with the running window on", win_bad, [{"running_window_mode": True}]))
        if name == "ISIMIP":
            combos.append(("no distribution and no nonparametric quantile mapping", {"distribution": None, "nonparametric_qm": False},
                           [{"running_window_mode": False}, {"running_window_mode": True}, {"running_window_mode": False, "detrending": False}]))
        if name in ("CDFt", "QuantileDeltaMapping"):
            yr_bad = {"running_window_over_years_of_cm_future_length": 5, "running_window_over_years_of_cm_future_step_length": 9}
            combos.append(("year-window step > length with the year windows on", yr_bad,
                           [{"running_window_mode_over_years_of_cm_future": True, "running_window_mode": m} for m in (False, True)]))
        supported = [k for k in ("tas", "pr", "psl", "hurs", "tasmin") if doc.get((name, ident(V.str_to_variable_class[k])), "valueError") != "valueError"]
        for why, bad_kw, ctxs in combos:
            for ctx in ctxs:
                for cvar in supported:
                    fast = {k: v for k, v in base_kwargs(name, cvar if cvar in ("tas", "pr") else "pr").items() if k not in ("running_window_mode",)}
                    case = {"debiaser": name, "variable": cvar, "other_settings": ctx, "setting": "+".join(bad_kw), "value": {k: repr(v) for k, v in bad_kw.items()}, "why": why}
                    inst, err = construct(cls, {**fast, **ctx, **bad_kw}, cvar)
                    res.count((name, why, repr(ctx), cvar, "construct"), True)
                    if inst is not None:
                        problems.append((f"invalid combination ({why}: {bad_kw}) accepted at construction with {ctx}", {**case, "stage": "construction"},
                                         {"what": "invalid_combination_accepted"}))
                    if cvar not in ("tas", "pr"):
                        continue
                    # the same combination reached by attribute assignment: the re-run in apply must reject it
                    good, gerr = construct(cls, {**fast, **ctx}, cvar)
                    if good is None:
                        continue
                    aerr = None
                    try:
                        for k, v in bad_kw.items():
                            setattr(good, k, v)
                    except Exception as ex:  # noqa: BLE001  (rejected already by the validators on assignment)
                        aerr = type(ex).__name__
                    r = ("error", aerr) if aerr else run_apply(good, cvar)
                    res.count((name, why, repr(ctx), cvar, "apply"), True)
                    if cvar == "tas" and aerr is None:
                        q(f"apply {name} 1 {fields_line(construct(cls, {**fast, **ctx}, cvar)[0], rule_fields)} "
                          + ";".join(f"{k}={enc(v)}" for k, v in bad_kw.items()), "apply", {**case, "stage": "apply after assignment"},
                          "error " + str(r[1]) if r[0] == "error" else ("ok", None, None))
                    if r[0] == "ok":
                        problems.append((f"invalid combination ({why}: {bad_kw}) assigned on a valid instance ({ctx}) is not rejected by apply", {**case, "stage": "apply after assignment"},
                                         {"what": "invalid_combination_accepted"}))
    res.extra["settings_changing_the_output"] = n_effect
    if tier == "thorough":  # information only: the unguarded QDM/pr case described in the assumptions
        with warnings.catch_warnings():
            warnings.simplefilter("ignore")
            kw = dict(running_window_mode=True, running_window_step_length=31, cdf_threshold=0.01)
            A = D.QuantileDeltaMapping.from_variable("pr", censoring_threshold=2.0 ** -20, **kw)
            B = D.QuantileDeltaMapping.from_variable("pr", **kw)
            B.censoring_threshold = 2.0 ** -20
        ra, rb = run_apply(A, "pr"), run_apply(B, "pr")
        res.extra["qdm_pr_unguarded_censoring_threshold"] = {
            "distribution_threshold_constructed": A.distribution.censoring_threshold, "distribution_threshold_assigned": B.distribution.censoring_threshold,
            "outputs_equal": bool(ra[0] == rb[0] == "ok" and np.array_equal(ra[1], rb[1], equal_nan=True))}

    # ---- (f) ISIMIP without bounds
    import scipy.stats

    case = {"debiaser": "ISIMIP", "constructor": "ISIMIP(trend_preservation_method='additive', distribution=norm, nonparametric_qm=False, detrending=False, running_window_step_length=31)"}
    try:
        iso = D.ISIMIP(trend_preservation_method="additive", distribution=scipy.stats.norm, nonparametric_qm=False, detrending=False, running_window_step_length=31)
        flags = [iso.has_lower_threshold, iso.has_lower_bound, iso.has_upper_threshold, iso.has_upper_bound, iso.has_bound, iso.has_threshold]
        res.count(("ISIMIP", "no bounds"), True, sample={**case, "has_*": flags})
        if any(flags):
            problems.append((f"ISIMIP built without bounds: has_lower_threshold, has_lower_bound, has_upper_threshold, has_upper_bound, has_bound, has_threshold = {flags}",
                             case, {"what": "isimip_unbounded"}))
        r = run_apply(iso)
        if r[0] != "ok" or not np.isfinite(r[1]).all():
            problems.append((f"ISIMIP built without bounds does not run: {r if r[0] != 'ok' else 'non-finite output'}", case, {"what": "isimip_unbounded"}))
        q("isimipdefaults", "isimipdefaults", case, ";".join(f"{b}={str(getattr(iso, b)).replace('inf', 'inf')}" for b in ("lower_bound", "lower_threshold", "upper_bound", "upper_threshold")))
    except Exception as ex:  # noqa: BLE001
        problems.append((f"ISIMIP cannot be built without bounds: {type(ex).__name__}: {str(ex)[:100]}", case, {"what": "isimip_unbounded"}))
    # ISIMIP bounds as a sequence: built without bounds -> used -> bounds assigned; built with bounds (pr) -> used -> bounds removed
    pr_like = dict(distribution=scipy.stats.gamma, trend_preservation_method="mixed", detrending=False, nonparametric_qm=False, running_window_mode=False)

    def make_direct(extra):
        with warnings.catch_warnings():
            warnings.simplefilter("ignore")
            try:
                return D.ISIMIP(**{**pr_like, **extra}), None
            except Exception as ex:  # noqa: BLE001
                return None, type(ex).__name__

    def make_pr(extra):
        return construct(D.ISIMIP, {"running_window_step_length": 31, **extra}, "pr")

    seqs = [("ISIMIP(distribution=gamma, trend_preservation_method='mixed', detrending=False, nonparametric_qm=False, running_window_mode=False)",
             make_direct, [("lower_bound", 0.0), ("lower_threshold", 2.0 ** -20)]),
            ("ISIMIP.from_variable('pr', running_window_step_length=31)", make_pr, [("lower_bound", -np.inf), ("lower_threshold", -np.inf)]),
            ("ISIMIP.from_variable('pr', running_window_step_length=31)", make_pr, [("upper_bound", 2.0 ** -10), ("upper_threshold", 2.0 ** -11)])]
    for ctor, make, asg in seqs:
        for first in ("apply", "read"):
            ok_seq, ra, rs, _ = sequence_case(make, asg, "pr", first)
            scase = {"debiaser": "ISIMIP", "constructor": ctor, "variable": "pr", "sequence": [first] + [f"assign {k}={v}" for k, v in asg] + ["apply"],
                     "setting": asg[0][0], "value": asg[0][1]}
            res.count(("ISIMIP", "bound sequence", ctor[:20], asg[0][0], first), True, sample={**scase, "constructed": show(ra), "sequence_result": show(rs)})
            if not ok_seq:
                problems.append((f"{ctor}: {first} first, then {', '.join(f'{k}={v}' for k, v in asg)} assigned, then apply differs from an instance constructed "
                                 f"with these settings ({diff_detail(ra, rs)})", scase, {"what": "sequence_assign_ne_construct"}))
    # ---- (f') ISIMIP with bounds on ONE side only / a bound without threshold / nothing: every side not given is unbounded in
    # every step (see the comment above ONESIDE); own PRNG stream so that the other case streams do not shift
    t_os = _time.time()
    rng_os = random.Random(C.seed() * 7919 + 151515)
    os_stats = {"configurations": 0, "fit_calls_seen": 0, "fit_failures_with_finite_or_no_fixed_parameters": 0, "fallbacks_after_such_failures": 0}
    for spec in oneside_specs(tier, rng_os):
        try:
            probs, info = oneside_judge(spec)
        except Exception as ex:  # noqa: BLE001  (the judge itself must never crash the check)
            probs, info = [("isimip_oneside_error", f"ISIMIP one-sided configuration could not be judged: {type(ex).__name__}: {str(ex)[:120]}", {})], {}
        os_stats["configurations"] += 1
        os_stats["fit_calls_seen"] += info.get("fits", 0)
        os_stats["fit_failures_with_finite_or_no_fixed_parameters"] += info.get("fit_failures_with_finite_or_no_fixed_parameters", 0)
        os_stats["fallbacks_after_such_failures"] += info.get("fallbacks", 0) if not probs else 0
        res.count(("ISIMIP", "one side", spec["side"], spec["dist"], spec["path"], spec["call"], spec.get("var"), spec["trend"], spec["ks"], spec["frac"], spec["data_seed"]),
                  spec["side"] != "none", sample={"debiaser": "ISIMIP", **spec, **info} if os_stats["configurations"] % 9 == 1 else None)
        for what, msg, extra in probs:
            problems.append((msg, {"debiaser": "ISIMIP", "setting": spec["call"], "spec": spec, **extra}, {"what": what}))
    os_stats["wall_s"] = round(_time.time() - t_os, 2)
    res.extra["isimip_one_sided"] = os_stats

    # has_* correspondence on random bound quadruples
    n_has = 40 if tier == "quick" else 600
    pool = [-np.inf, np.inf, 0.0, 1.0, -3.5, 100.0, 0.0001]
    for _ in range(n_has):
        b4 = [rng.choice(pool) for _ in range(4)]
        try:
            iso = D.ISIMIP(trend_preservation_method="additive", distribution=scipy.stats.norm, nonparametric_qm=False, detrending=False,
                           lower_bound=b4[0], lower_threshold=b4[1], upper_bound=b4[2], upper_threshold=b4[3])
            got = "".join("1" if x else "0" for x in (iso.has_lower_threshold, iso.has_lower_bound, iso.has_upper_threshold, iso.has_upper_bound, iso.has_bound, iso.has_threshold))
        except Exception as ex:  # noqa: BLE001
            got = "error " + type(ex).__name__
        res.count(("has",) + tuple(b4), True)
        q("has " + " ".join("-inf" if v == -np.inf else "inf" if v == np.inf else C.rat(v) for v in b4), "has", {"bounds": [str(v) for v in b4]}, got)

    # ---- compare with the model
    mismatches = []
    try:
        out = C.run_driver("DrvConfig", lines)
        for (what, case, exp), got in zip(expect, out):
            res.cov["traces_validated_against_impl"] += 1
            if what == "apply":
                ok = compare_apply(exp, got)
            elif what == "params":
                ok = num_eq(exp, got)
            else:
                ok = exp == got
            if not ok:
                mismatches.append({"op": what, "case": case, "impl": str(exp)[:300], "model": got[:300]})
    except (C.DriverError, Exception) as ex:  # noqa: BLE001
        mismatches.append({"op": "driver", "case": {}, "impl": "", "model": f"{type(ex).__name__}: {str(ex)[:400]}"})
    if mismatches:
        res.tie_broken.append(f"correspondence DrvConfig: {len(mismatches)} mismatches, first: {mismatches[0]}")
    res.extra["correspondence_mismatches"] = len(mismatches)
    res.extra["exhaustive_matrix"] = True

    seen = set()
    for p, case, sig in problems:
        key = (sig.get("what"), case.get("debiaser"), case.get("setting"))
        if key in seen:
            continue
        seen.add(key)
        res.violations.append((f"{case.get('debiaser')}: {p}", {"property": PROP, "failing_input": case, "problem": p, "signature": sig}))
    if res.tie_broken and not problems:
        res.violations.append(("proof obligation / correspondence no longer checks: " + "; ".join(res.tie_broken)[:600],
                               {"property": PROP, "failing_input": None, "broken": res.tie_broken, "mismatches": mismatches[:5]}))
    return res


def compare_apply(exp, got):
    """real observation after assignment+apply vs the model's `apply` line"""
    if isinstance(exp, str):
        return exp == got
    _, act, cdf = exp
    if not got.startswith("ok "):
        return False
    if act is None:
        return True
    body, _, fields = got[3:].partition(" | ")
    model_act = []
    if body != "-":
        for part in body.split(";"):
            tgt, _, rest = part.partition("=")
            cls, _, args = rest.partition("(")
            vals = [a.split(":")[1] for a in args.rstrip(")").split(",")]
            model_act.append((tgt, cls, norm_odd(int(vals[0])), norm_odd(int(vals[1]))))
    if sorted(model_act) != sorted(act):
        return False
    if cdf is not None:
        m = next((kv.split("=")[1] for kv in fields.split(";") if kv.startswith("cdf_threshold=")), None)
        if m is None or not m.startswith("q:"):
            return False
        mv = float(Fraction(m[2:]))
        return abs(mv - cdf) <= 1e-12 * max(1.0, abs(cdf))
    return True


def replay(data):
    import ibicus.debias as D

    logging.getLogger("ibicus").setLevel(logging.CRITICAL)
    fi = data.get("failing_input")
    if not fi:
        print("replay without failing input:", data.get("broken"))
        return 1
    cls = getattr(D, fi["debiaser"])
    what = data.get("signature", {}).get("what")
    print("replaying", what, fi)
    if what and what.startswith("isimip_oneside") and isinstance(fi.get("spec"), dict):
        probs, info = oneside_judge(fi["spec"])
        for w, msg, _ in probs:
            print(f"  [{w}] {msg}")
        print("  measured:", info)
        return 1 if any(w == what for w, _, _ in probs) else 0
    if what in ("assign_rejects_construct_accepts", "assign_accepts_construct_rejects", "assign_stores_differently") and "value_type" in fi:
        x = eval(fi["value"], {"np": np})  # noqa: S307  repr of a Python / numpy scalar written by this check
        base_kw = base_kwargs(fi["debiaser"], "tas")
        A, errA = construct(cls, {**base_kw, fi["setting"]: x})
        B, _ = construct(cls, base_kw)
        try:
            setattr(B, fi["setting"], x)
            rb = ("stored", repr(getattr(B, fi["setting"])), type(getattr(B, fi["setting"])).__name__)
        except Exception as ex:  # noqa: BLE001
            rb = ("raised", type(ex).__name__)
        ra = ("raised", errA) if A is None else ("stored", repr(getattr(A, fi["setting"])), type(getattr(A, fi["setting"])).__name__)
        print("construction:", ra, "assignment:", rb)
        return 0 if ra == rb else 1
    if what in ("kwargs_outcome", "kwargs_spurious_warning", "kwargs_not_visible", "kwargs_default_lost"):
        import ibicus.variables as V

        logging.getLogger().setLevel(logging.ERROR)
        arg = fi["argument"]
        vobj = V.str_to_variable_class.get(fi["variable"])
        if arg.startswith("ibicus.variables."):
            arg = getattr(V, arg.split(".")[-1])

        def ident(v):
            r = v.reasonable_physical_range
            return (v.name, v.unit, tuple(r) if r is not None else None)

        vs, _ = variable_defaults(cls, vobj, ident)
        kw = untag_kwargs(fi["kwargs"], cls, vs or {}, construct(cls, {}, fi["variable"])[0] if vs is not None else None)
        if kw is None:
            print("keyword arguments not reconstructible:", fi["kwargs"])
            return 1
        got, inst, other = outcome_from_variable(cls, arg, **kw)
        print(f"from_variable({arg!r}, **{show_kwargs(kw)}): outcome {got}, documented {fi['expected_outcome']}, other warnings {other}")
        if got != fi["expected_outcome"] or (what == "kwargs_spurious_warning" and other):
            return 1
        if inst is not None and "setting" in fi:
            have, v = getattr(inst, fi["setting"]), {**(vs or {}), **kw}.get(fi["setting"])
            print(f"  .{fi['setting']} = {have!r}, expected {v!r}")
            return 0 if same_value(have, v) or (isinstance(have, float) and isinstance(v, (int, float)) and float(v) == have) else 1
        return 0
    if what == "alias_outcome":
        a, b = outcome_from_variable(cls, fi["argument"])[0], outcome_from_variable(cls, fi["canonical"])[0]
        print(f"from_variable({fi['argument']!r}): {a}; from_variable({fi['canonical']!r}): {b}")
        return 0 if a == b else 1
    if what == "invalid_combination_accepted" and fi.get("stage") == "construction":
        bad_kw = {k: eval(v, {"None": None}) for k, v in fi["value"].items()}  # noqa: S307  reprs of None / bool / int written by this check
        var = fi["variable"]
        fast = {k: v for k, v in base_kwargs(fi["debiaser"], var if var in ("tas", "pr") else "pr").items() if k != "running_window_mode"}
        inst, err = construct(cls, {**fast, **fi["other_settings"], **bad_kw}, var)
        print("construction:", "accepted" if inst is not None else f"rejected ({err})")
        return 1 if inst is not None else 0
    if "argument" in fi and isinstance(fi["argument"], str) and not fi["argument"].startswith("ibicus.variables."):
        print("from_variable outcome:", outcome_from_variable(cls, fi["argument"])[0])
    elif what == "sequence_assign_ne_construct" and isinstance(fi.get("base_kwargs"), dict):
        var = fi.get("variable", "tas")
        base_kw = base_kwargs(fi["debiaser"], var)
        ok_seq, ra, rs, _ = sequence_case(lambda extra: construct(cls, {**base_kw, **extra}, var), [(fi["setting"], fi["value"])], var, fi["sequence"][0])
        print("constructed:", show(ra), "sequence:", show(rs), "equal:", ok_seq)
        return 0 if ok_seq else 1
    elif "setting" in fi and what == "assign_ne_construct":
        base_kw = base_kwargs(fi["debiaser"])
        f = {"name": fi["setting"]}
        A, errA = construct(cls, {**base_kw, fi["setting"]: fi["value"]})
        B, _ = construct(cls, base_kw)
        setattr(B, fi["setting"], fi["value"])
        ra = ("error", errA) if A is None else run_apply(A)
        rb = run_apply(B)
        same = (ra[0] == rb[0]) and (np.array_equal(ra[1], rb[1], equal_nan=True) if ra[0] == "ok" else ra[1] == rb[1])
        print("constructed:", ra[0] if ra[0] == "ok" else ra, "assigned:", rb[0] if rb[0] == "ok" else rb, "equal:", same)
        return 0 if same else 1
    return 1
