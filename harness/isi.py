"""`./check ISI` resolves the module name from the id; the check itself lives in harness/cisi.py."""
from harness.cisi import GEN, PROP, TARGETS, run  # noqa: F401
