"""C11 — ISIMIP adjusts the frequency of beyond-threshold events as specified.

Lean phase (tier A): `Gen.IsimipFreq` regenerated from /repo = `Model.IsimipFreq`; property theorems `Props.C11`.
Tier B: the real static helpers and the real `ISIMIP.step6` against the model driver `DrvIsimipFreq`.
Property oracle on the real code: P in [0,1]; P = Po when Pf = Ph (outside np.isclose's tolerance of Ph ~ Po, where
P = Ph); P = Pf when Ph = Po; rescaled counts sum to n and are >= 0; realised number of step6 outputs equal to the
lower / upper bound = round(n * P) (guard: the mapped middle values are strictly inside the bounds); when the two counts
over-claim, the realised counts are the PROPORTIONALLY rescaled ones (`rescaled_ok`, `Props.C11.scale_proportional`);
in running-window mode the window of every `_apply_on_window` call is recomputed by the harness from each series' own
time axis (`own_window_indices`; twin calendars: equal length and first day of year, leap years placed differently);
calls WITHOUT (or with partial) time information are judged on the documented inferred calendar — each undated series
on consecutive days from 1950-01-01 (`timeless_cases`, `INFERRED_START`; Model/InferredDates.lean).
"""
import contextlib
import math
import random
import warnings

import numpy as np

from harness import common as C

PROP = "C11"
TARGETS = ["IbicusModel.Props.C11"]
GEN = ["IsimipFreq"]
TARGETS += ["IbicusModel.Lemmas.GenIsimipStep6"]  # tier A of ISIMIP step 6 (`_step6_adjust_values_between_thresholds`: fixed fit arguments from the has_* flags, fallback structure; `step6`; `_apply_on_window`)
GEN += ["IsimipStep6"]  # Gen.IsimipStep6: symbolic reading by translator/extract_isimip_step6.py

FTOL = 1e-9  # float tolerance of the correspondence (|impl - model| <= FTOL * (1 + scale), scale <= 1 for frequencies)


# ------------------------------------------------------------------ small helpers
def _isimip():
    from ibicus.debias import ISIMIP

    return ISIMIP


def _deb(var, adjust=None):
    ISIMIP = _isimip()
    with warnings.catch_warnings():
        warnings.simplefilter("ignore")
        if adjust is None:
            return ISIMIP.from_variable(var)
        return ISIMIP.from_variable(var, bias_correct_frequencies_of_values_beyond_thresholds=bool(adjust))


def has_lt(deb):
    """the property's own reading of 'has a lower threshold' (not the instance's flag, which a run may have frozen)"""
    t = deb.lower_threshold
    return t is not None and t > -np.inf


def has_ut(deb):
    t = deb.upper_threshold
    return t is not None and t < np.inf


SEQ_NOTE = "constructed without bounds/thresholds, used once (flags read, one _apply_on_window), then bounds and thresholds assigned by attribute"


def seq_deb(var, adjust, **kw):
    """instance SEQUENCE: construct the variable's debiaser without bounds / thresholds -> use it once -> assign the
    variable's bounds and thresholds by attribute (`debiaser.<setting> = value`, the pattern of the ISIMIP docstring).
    Must behave like a freshly constructed `_deb(var, adjust)`."""
    ISIMIP = _isimip()
    fresh = _deb(var, adjust) if not kw else None
    with warnings.catch_warnings(), np.errstate(all="ignore"):
        warnings.simplefilter("ignore")
        target = fresh if fresh is not None else ISIMIP.from_variable(var, bias_correct_frequencies_of_values_beyond_thresholds=bool(adjust), **kw)
        d = ISIMIP.from_variable(var, lower_bound=-np.inf, lower_threshold=-np.inf, upper_bound=np.inf, upper_threshold=np.inf,
                                 bias_correct_frequencies_of_values_beyond_thresholds=bool(adjust),
                                 **{k: v for k, v in kw.items() if k not in ("lower_bound", "lower_threshold", "upper_bound", "upper_threshold")})
        _ = (d.has_lower_threshold, d.has_upper_threshold, d.has_lower_bound, d.has_upper_bound, d.has_threshold, d.has_bound)
        x = np.linspace(0.2, 0.8, 12) if var != "hurs" else np.linspace(20.0, 80.0, 12)
        try:  # first use: plain quantile mapping, result irrelevant
            d._apply_on_window(x.copy(), x[::-1].copy() * 0.9, x.copy() * 1.1)
        except Exception:  # noqa: BLE001
            pass
        try:
            d.step6(x.copy(), x.copy(), x[::-1].copy() * 0.9, x.copy() * 1.1)
        except Exception:  # noqa: BLE001
            pass
        d.lower_bound, d.lower_threshold = target.lower_bound, target.lower_threshold
        d.upper_bound, d.upper_threshold = target.upper_bound, target.upper_threshold
    return d


def raised_in_real_code(ex):
    """the exception left a frame of the ibicus package (the real code raised on the input; anything else is a defect
    of this harness and must surface as an infrastructure error)"""
    import traceback

    return any("/ibicus/" in fr.filename.replace("\\", "/") for fr in traceback.extract_tb(ex.__traceback__))


def tok(x):
    """exact token of a float for the driver (values are opaque to the assignment model)"""
    x = float(x)
    if math.isnan(x):
        return "nan"
    if math.isinf(x):
        return "inf" if x > 0 else "-inf"
    return C.rat(x)


def tlist(xs):
    xs = list(xs)
    return ",".join(tok(x) for x in xs) if xs else "-"


def mstr(m):
    m = np.asarray(m, dtype=bool)
    return "".join("1" if b else "0" for b in m) if m.size else "-"


def ratf(s):
    """driver rational text -> float"""
    if "/" in s:
        a, b = s.split("/")
        return int(a) / int(b)
    return float(int(s))


class Cases:
    """driver lines + what the real code produced + how to compare"""

    def __init__(self):
        self.lines, self.expect = [], []

    def add(self, line, op, case, cmp):
        """cmp(got: str) -> None (equal) | 'tie' (accepted tie) | str (mismatch description)"""
        self.lines.append(line)
        self.expect.append((op, case, cmp))


def exact(exp):
    exp = str(exp)
    return lambda got: None if got == exp else f"impl {exp[:200]} model {got[:200]}"


# ------------------------------------------------------------------ 1. P_obs_future on rational grids
def check_P(Po, Ph, Pf, P, problems, case):
    """the property's statements about P, on one evaluation of the real function (floats)"""
    if not (-1e-12 <= P <= 1 + 1e-12):
        problems.append(("P_obs_future outside [0,1]", {"kind": "P", **case, "P": float(P)}))
    if Ph == Po and P != Pf:
        problems.append(("P_obs_future != P_cm_future although P_cm_hist = P_obs_hist", {"kind": "P", **case, "P": float(P)}))
    if Pf == Ph:
        tol = 1e-8 + 1e-5 * abs(Po)  # inside np.isclose's tolerance the code returns Ph (= Po up to the tolerance)
        inside = abs(Ph - Po) <= tol
        if abs(P - Po) > (tol if inside else 0) + 1e-12:
            problems.append(("P_obs_future != P_obs_hist although P_cm_future = P_cm_hist", {"kind": "P", **case, "P": float(P)}))


def p_grids(N, cs, problems, res):
    f = _isimip()._step6_get_P_obs_future
    classes = res.distinct
    for n in range(1, N + 1):
        vals = [np.float64(k) / n for k in range(n + 1)]
        impl = []
        app = impl.append
        for a, Po in enumerate(vals):
            ea = 0 if a == 0 else (2 if a == n else 1)
            for b, Ph in enumerate(vals):
                eb = 0 if b == 0 else (2 if b == n else 1)
                sba = (b > a) - (b < a)
                for c, Pf in enumerate(vals):
                    try:
                        P = float(f(Po, Ph, Pf))
                    except Exception:  # noqa: BLE001
                        P = float("nan")
                    app(P)
                    if not (0.0 <= P <= 1.0) or (b == a and P != Pf) or (c == b and abs(P - Po) > 1e-12):
                        check_P(float(Po), float(Ph), float(Pf), P, problems, {"Po": f"{a}/{n}", "Ph": f"{b}/{n}", "Pf": f"{c}/{n}"})
                    classes.add(("P", n, ea, eb, 0 if c == 0 else (2 if c == n else 1), sba, (c > b) - (c < b)))
        res.cov["evaluations"] += len(impl)

        def cmp(got, impl=impl, n=n):
            parts = got.split(" ")
            if len(parts) != 6:
                return f"malformed driver answer {got[:80]}"
            model = parts[0].split(",")
            if len(model) != len(impl):
                return f"grid size {len(model)} != {len(impl)}"
            for i, (m, p) in enumerate(zip(model, impl)):
                if abs(ratf(m) - p) > FTOL * 2:
                    k = n + 1
                    return f"(Po,Ph,Pf)=({i // (k * k)}/{n},{(i // k) % k}/{n},{i % k}/{n}) impl {p!r} model {m}"
            hist = res.extra.setdefault("P_branch_histogram", {"isclose": 0, "decrease": 0, "increase": 0, "additive": 0})
            for key, v in zip(["isclose", "decrease", "increase", "additive"], parts[1:5]):
                hist[key] += int(v)
            if int(parts[5]):
                res.extra["ties_accepted"] += int(parts[5])
            return None

        cs.add(f"pgrid {n}", "P-grid", {"n": n}, cmp)
    if len(res.cov["samples"]) < 6:
        res.cov["samples"].append({"what": "_step6_get_P_obs_future on all (a/n, b/n, c/n)", "n_max": N})


def p_near_isclose(rng, count, cs, problems, res):
    """dyadic triples with |Ph - Po| around np.isclose's tolerance (the branch the small grids cannot reach)"""
    f = _isimip()._step6_get_P_obs_future
    for _ in range(count):
        Po = rng.randint(0, 2**20) / 2**20
        tol = 1e-8 + 1e-5 * Po
        d = round(tol * rng.choice([0.0, 0.3, 0.9, 0.999, 1.001, 1.1, 3.0]) * 2**44) / 2**44
        Ph = Po + rng.choice([-1, 1]) * d
        if not 0 <= Ph <= 1:
            Ph = Po
        Pf = rng.choice([Ph, Po, rng.randint(0, 2**20) / 2**20, 0.0, 1.0])
        case = {"Po": C.rat(Po), "Ph": C.rat(Ph), "Pf": C.rat(Pf)}
        try:
            P = float(f(np.float64(Po), np.float64(Ph), np.float64(Pf)))
        except Exception:  # noqa: BLE001
            P = float("nan")
        check_P(Po, Ph, Pf, P, problems, case)
        res.count(("P-near", Ph > Po, Pf == Ph, d > tol), True)

        def cmp(got, P=P):
            parts = got.split(" ")
            if len(parts) != 3:
                return f"malformed driver answer {got[:80]}"
            if parts[2] == "1":  # |Ph - Po| exactly on the tolerance: float evaluation may fall on either side
                res.extra["ties_accepted"] += 1
                return "tie"
            return None if abs(ratf(parts[0]) - P) <= FTOL * 2 else f"impl {P!r} model {parts[0]} (branch {parts[1]})"

        cs.add(f"pobs {C.rat(Po)} {C.rat(Ph)} {C.rat(Pf)}", "P-near-isclose", case, cmp)


# ------------------------------------------------------------------ 2. rescaling of the two counts
def check_scale(l, u, n, out, problems):
    try:
        lo, up = int(out[0]), int(out[1])
        bad = lo + up != n or lo < 0 or up < 0
    except Exception:  # noqa: BLE001
        bad, lo, up = True, repr(out), None
    if bad:
        problems.append(("rescaled counts do not sum to n / are negative",
                         {"kind": "scale", "l": l, "u": u, "n": n, "lower": lo, "upper": up}))


def scale_cases(rng, N, extra, cs, problems, res):
    f = _isimip()._step6_scale_nr_of_entries_to_set_to_bounds
    impl = []
    for l in range(N + 1):
        for u in range(N + 1):
            for n in range(N + 1):
                if l + u > n:
                    try:
                        out = f(l, u, n)
                    except Exception as ex:  # noqa: BLE001
                        impl.append("error:" + type(ex).__name__)
                        if l <= n and u <= n:  # the situation step6 can be in
                            problems.append(("rescaling raises " + type(ex).__name__, {"kind": "scale", "l": l, "u": u, "n": n}))
                        continue
                    impl.append(f"{out[0]}:{out[1]}")
                    if out[0] + out[1] != n or out[0] < 0 or out[1] < 0:
                        check_scale(l, u, n, out, problems)
                    if l <= n and u <= n:
                        res.distinct.add(("scale", l, u, n))
    res.cov["evaluations"] += len(impl)
    cs.add(f"scalegrid {N}", "scale-grid", {"N": N}, exact(",".join(impl)))
    for _ in range(extra):
        n = rng.randint(1, 5000)
        l = rng.randint(0, n)
        u = rng.randint(max(0, n - l + 1), n) if n - l + 1 <= n else n
        if l + u <= n:
            continue
        try:
            out = f(l, u, n)
        except Exception as ex:  # noqa: BLE001
            problems.append(("rescaling raises " + type(ex).__name__, {"kind": "scale", "l": l, "u": u, "n": n}))
            continue
        check_scale(l, u, n, out, problems)
        res.count(("scale-large", l * 7 // (n + 1), u * 7 // (n + 1)), True)
        cs.add(f"scale {l} {u} {n}", "scale", {"l": l, "u": u, "n": n}, exact(f"{out[0]} {out[1]}"))


# ------------------------------------------------------------------ 3. round(n * P) from masks
def nr_cases(rng, small, count, big, cs, problems, res):
    ISIMIP = _isimip()
    debs = {1: _deb("pr", True), 0: _deb("pr", False)}
    pct = ISIMIP._step6_calculate_percent_values_beyond_threshold
    fP = ISIMIP._step6_get_P_obs_future

    def one(adj, ko, no, kh, nh, kf, nf, shuffle):
        ms = []
        for k, n in ((ko, no), (kh, nh), (kf, nf)):
            m = np.zeros(n, dtype=bool)
            m[:k] = True
            if shuffle:
                m = m[np.random.RandomState(rng.randint(0, 2**31 - 1)).permutation(n)]
            ms.append(m)
        case = {"adjust": adj, "obs": f"{ko}/{no}", "cm_hist": f"{kh}/{nh}", "cm_future": f"{kf}/{nf}"}
        try:
            with warnings.catch_warnings():
                warnings.simplefilter("ignore")
                got = debs[adj]._step6_get_nr_of_entries_to_set_to_bound(*ms)
                Po, Ph, Pf = pct(ms[0]), pct(ms[1]), pct(ms[2])
                P = fP(Po, Ph, Pf) if adj else Po
            want = round(nf * P)
        except Exception as ex:  # noqa: BLE001
            problems.append(("number of entries to set to the bound: raises " + type(ex).__name__, {"kind": "nr", **case}))
            return
        if isinstance(got, bool) or not isinstance(got, (int, np.integer)) or got != want or not 0 <= got <= nf:
            problems.append(("number of entries to set to the bound != round(n * P) or outside 0..n",
                             {"kind": "nr", **case, "P": float(P), "round(n*P)": int(want), "got": repr(got)}))
        res.count(("nr", adj, (kh * no > ko * nh) - (kh * no < ko * nh), (kf * nh > kh * nf) - (kf * nh < kh * nf),
                   ko in (0, no), kh in (0, nh), kf in (0, nf), min(nf, 8)), True)

        def cmp(g, got=got):
            parts = g.split(" ")
            if len(parts) != 2:
                return f"malformed driver answer {g[:80]}"
            try:
                if int(parts[0]) == int(got):
                    return None
                if parts[1] == "1" and abs(int(parts[0]) - int(got)) == 1:  # n*P exactly a half
                    res.extra["ties_accepted"] += 1
                    return "tie"
            except (TypeError, ValueError):
                pass
            return f"impl {got!r} model {g}"

        cs.add(f"nr {adj} {mstr(ms[0])} {mstr(ms[1])} {mstr(ms[2])}", "nr", case, cmp)

    for no in range(1, small + 1):  # exhaustive on small sizes
        for ko in range(no + 1):
            for nh in range(1, small + 1):
                for kh in range(nh + 1):
                    for nf in range(1, small + 1):
                        for kf in range(nf + 1):
                            one(1, ko, no, kh, nh, kf, nf, False)
    for _ in range(count):
        no, nh, nf = (rng.randint(1, big) for _ in range(3))
        pick = lambda n: rng.choice([0, n, rng.randint(0, n), rng.randint(0, n), n // 2, max(0, n - 1), min(1, n)])  # noqa: E731
        one(rng.choice([1, 1, 0]), pick(no), no, pick(nh), nh, pick(nf), nf, True)


# ------------------------------------------------------------------ 4. the two masks
def mask_cases(nmax, cs, problems, res):
    """the two rank masks on sorted arrays without and WITH ties (coarse-resolution data): for 0 <= nr <= n exactly the
    first / last nr entries are selected, whatever the values are"""
    ISIMIP = _isimip()
    fns = (("lower", "lmask", ISIMIP._step6_get_mask_for_entries_to_set_to_lower_bound),
           ("upper", "umask", ISIMIP._step6_get_mask_for_entries_to_set_to_upper_bound))
    for n in range(0, nmax + 1):
        arrays = [("distinct", np.arange(n, dtype=float)), ("tied", np.floor(np.arange(n, dtype=float) / 3)),
                  ("constant", np.full(n, 2.0))]
        for label, x in arrays if n else arrays[:1]:
            for nr in range(-n - 2, n + 3) if label == "distinct" else range(0, n + 1):
                well_formed = 0 <= nr <= n
                for side, op, f in fns:
                    case = {"kind": "mask", "side": side, "nr": nr, "cm_future_sorted": x.tolist()}
                    try:
                        m = np.asarray(f(nr, x.copy()))
                    except Exception as ex:  # noqa: BLE001
                        if well_formed:
                            problems.append((f"mask of the entries to set to the {side} bound raises {type(ex).__name__} on a sorted array "
                                             "and a count 0 <= nr <= n", case))
                        cs.add(f"{op} {nr} {n}", f"{side}-mask", case, exact("error:" + type(ex).__name__))
                        continue
                    want = np.zeros(n, dtype=bool)
                    if side == "lower":
                        want[: max(nr, 0)] = True
                    else:
                        want[n - min(max(nr, 0), n):] = True
                    if well_formed and (m.dtype != bool or m.shape != (n,) or not np.array_equal(m, want)):
                        problems.append((f"mask of the entries to set to the {side} bound does not select exactly the "
                                         f"{'first' if side == 'lower' else 'last'} nr entries", {**case, "mask": mstr(m) if m.dtype == bool else repr(m)[:80]}))
                    cs.add(f"{op} {nr} {n}", f"{side}-mask", case, exact(mstr(m) if m.dtype == bool and m.ndim == 1 else repr(m)[:80]))
                res.count(("mask", label, n, nr), well_formed)


# ------------------------------------------------------------------ 5. the real step6
VARS = ("pr", "hurs", "prsnratio")


def gen_series(rng, var, deb, n, frac_lo, frac_hi, wet_scale=1.0, ties=False, near=None, coarse=False):
    """n values: round(frac_lo*n) beyond the lower threshold, round(frac_hi*n) beyond the upper one, rest strictly
    between the thresholds (moderate, exactly representable values)"""
    k_lo = min(n, int(round(frac_lo * n)))
    k_hi = min(n - k_lo, int(round(frac_hi * n))) if has_ut(deb) else 0
    lt, lb = deb.lower_threshold, deb.lower_bound
    vals = []
    for _ in range(k_lo):
        # `ties`: every beyond-threshold value lies exactly ON the threshold (x <= threshold counts as beyond)
        vals.append(lt if ties else rng.choice([lb, lb, lt, lt, lt / 2 if var == "pr" else (2.0**-8 if var == "hurs" else 2.0**-14)]))
    for _ in range(k_hi):
        ub, ut = deb.upper_bound, deb.upper_threshold
        vals.append(ut if ties else rng.choice([ub, ub, ut, ut, ub - (2.0**-8 if var == "hurs" else 2.0**-14)]))
    for _ in range(n - k_lo - k_hi):
        if near:  # between-threshold values close to the lower / upper threshold (a strong signal can push them across)
            lt_, ut_ = deb.lower_threshold, deb.upper_threshold
            if var == "pr":
                v = max(lt_ * 1.05, lt_ * (1.3 + 16 * rng.random()) * wet_scale)
            else:
                span = (0.2 if var == "hurs" else 2e-3)
                d = min((ut_ - lt_) / 2, (0.015 * span + span * rng.random()) * wet_scale)
                v = lt_ + d if near == "lower" else ut_ - d
        elif coarse:  # coarse-resolution data: many equal values strictly between the thresholds
            v = (float(rng.randint(1, 5)) if var == "pr" else (float(rng.choice([10, 20, 30, 50, 80])) if var == "hurs" else rng.randint(1, 6) / 8))
        elif var == "pr":
            v = rng.randint(1, 3200) / 64 * wet_scale
        elif var == "hurs":
            v = min(99.0, max(1.0, rng.randint(64, 99 * 64) / 64 * wet_scale))
        else:
            v = min(0.99, max(0.01, rng.randint(11, 1013) / 1024 * wet_scale))
        vals.append(v)
    rng.shuffle(vals)
    return np.array(vals, dtype=float)


FRACS = [0.0, 0.0, 0.05, 0.1, 0.25, 1 / 3, 0.5, 0.5, 0.6, 0.75, 0.9, 1.0]


@contextlib.contextmanager
def recording(rec):
    """in-process instrumentation of ISIMIP (no source change): records the counts step6 hands to the two mask
    functions, the masks, and what `_step6_adjust_values_between_thresholds` returned"""
    ISIMIP = _isimip()
    names = ["_step6_get_mask_for_entries_to_set_to_lower_bound", "_step6_get_mask_for_entries_to_set_to_upper_bound",
             "_step6_adjust_values_between_thresholds"]
    saved = {k: ISIMIP.__dict__[k] for k in names}
    f_lo, f_up = saved[names[0]].__func__, saved[names[1]].__func__
    f_mid = saved[names[2]]

    def lo(nr, x):
        m = f_lo(nr, x)
        rec["nl"], rec["mask_l"] = nr, np.array(m, dtype=bool)
        return m

    def up(nr, x):
        m = f_up(nr, x)
        rec["nu"], rec["mask_u"] = nr, np.array(m, dtype=bool)
        return m

    def mid(self, *a, **k):
        out = f_mid(self, *a, **k)
        rec["mid"] = np.array(out, dtype=float)
        if "all_mid" in rec:
            rec["all_mid"].append(rec["mid"])
        return out

    try:
        ISIMIP._step6_get_mask_for_entries_to_set_to_lower_bound = staticmethod(lo)
        ISIMIP._step6_get_mask_for_entries_to_set_to_upper_bound = staticmethod(up)
        ISIMIP._step6_adjust_values_between_thresholds = mid
        yield
    finally:
        for k, v in saved.items():
            setattr(ISIMIP, k, v)


def expected_counts(deb, obs, cmh, cmf, n=None):
    """round(n * P) per bound: the property's right-hand side, computed from its own definitions — a value is
    beyond the lower (upper) threshold iff x <= lower_threshold (x >= upper_threshold), the variable has a threshold
    iff the attribute is finite *now*; only the four-branch formula is the real `_step6_get_P_obs_future` (checked
    separately on the grids)."""
    ISIMIP = _isimip()
    n = cmf.size if n is None else n
    out = {}
    for side, has in (("lower", has_lt(deb)), ("upper", has_ut(deb))):
        if not has:
            out[side] = (0, None)
            continue
        if side == "lower":
            fr = [np.float64((x <= deb.lower_threshold).sum()) / x.size for x in (obs, cmh, cmf)]
        else:
            fr = [np.float64((x >= deb.upper_threshold).sum()) / x.size for x in (obs, cmh, cmf)]
        P = ISIMIP._step6_get_P_obs_future(*fr) if deb.bias_correct_frequencies_of_values_beyond_thresholds else fr[0]
        out[side] = (round(n * P), float(P))
    return out


def run_step6(deb, obs, obsf, cmh, cmf):
    rec = {}
    with warnings.catch_warnings(), np.errstate(all="ignore"):
        warnings.simplefilter("ignore")
        with recording(rec):
            out = deb.step6(obs.copy(), obsf.copy(), cmh.copy(), cmf.copy())
        raw = None
        if all(k in rec for k in ("nl", "nu")):
            raw = []
            for has, mk in ((deb.has_lower_threshold, deb._get_mask_for_values_beyond_lower_threshold),
                            (deb.has_upper_threshold, deb._get_mask_for_values_beyond_upper_threshold)):
                raw.append(int(deb._step6_get_nr_of_entries_to_set_to_bound(mk(obs), mk(cmh), mk(cmf))) if has else 0)
        exp = expected_counts(deb, obs, cmh, cmf)
    return np.asarray(out, dtype=float), rec, raw, exp


def rescaled_ok(el, eu, n, cnt_lo, cnt_hi):
    """The property's last clause — 'if both bounds would claim more values than exist [round(n*P_lower) +
    round(n*P_upper) > n] the counts are RESCALED to sum to n' — on realised counts: they sum to n AND each is a nearest
    integer of its proportional share l*n/(l+u) resp. u*n/(l+u) (with cnt_lo + cnt_hi = n the two distances are
    equal, so whichever of the two the code rounds is accepted, and either side of an exact half).  Integer
    arithmetic.  Quantifier covered: all frequency triples whose two adjusted counts over-claim, in particular the
    ASYMMETRIC ones (a sum-to-n test alone accepts 'lower keeps its count, upper gets the remainder')."""
    return cnt_lo + cnt_hi == n and cnt_lo >= 0 and cnt_hi >= 0 and 2 * abs(cnt_lo * (el + eu) - el * n) <= el + eu


def step6_oracle(var, adj, deb, obs, obsf, cmh, cmf, out, rec, exp, problems, res, extra=None):
    """count of outputs equal to the bounds against round(n * P)"""
    n = cmf.size
    lo, hi = float(deb.lower_bound), float(deb.upper_bound)
    cnt_lo, cnt_hi = int((out == lo).sum()), int((out == hi).sum())
    (el, Pl), (eu, Pu) = exp["lower"], exp["upper"]
    case = {"kind": "step6", "variable": var, "adjust": adj, "obs_hist": obs.tolist(), "obs_future": obsf.tolist(),
            "cm_hist": cmh.tolist(), "cm_future": cmf.tolist(), **(extra or {})}
    info = {"n": n, "P_lower": Pl, "P_upper": Pu, "round(n*P_lower)": el, "round(n*P_upper)": eu,
            "outputs_at_lower_bound": cnt_lo, "outputs_at_upper_bound": cnt_hi}
    for P in (Pl, Pu):
        if P is not None and not (-1e-12 <= P <= 1 + 1e-12):
            problems.append(("step6: adjusted frequency outside [0,1]", {**case, **info}))
            return
    if out.shape != cmf.shape:
        problems.append(("step6: output shape differs from cm_future", {**case, **info}))
        return
    if el + eu > n:
        res.extra["step6_rescaled"] += 1
        if cnt_lo + cnt_hi != n:
            problems.append(("step6: both bounds claim more values than exist but the realised counts do not sum to n", {**case, **info}))
        elif not rescaled_ok(el, eu, n, cnt_lo, cnt_hi):
            problems.append(("step6: both bounds claim more values than exist but the realised counts are not the proportionally "
                             "rescaled ones (nearest integers of l*n/(l+u), u*n/(l+u))",
                             {**case, **info, "proportional_share_lower": el * n / (el + eu), "proportional_share_upper": eu * n / (el + eu)}))
        return
    n_mid = n - el - eu
    mid = rec.get("mid")
    if n_mid > 0 and mid is None:
        res.extra["step6_guard_excluded"] += 1  # no pseudo-future observation between the thresholds: values left unadjusted
        return
    if mid is not None and not all(lo < v < hi for v in mid.tolist()):
        res.extra["step6_guard_excluded"] += 1  # a mapped value fell on a bound: outside the property's guard
        return
    if cnt_lo != el or cnt_hi != eu:
        problems.append(("step6: number of outputs at the lower/upper bound != round(n * P)", {**case, **info}))


def step6_cases(rng, count, nmax, cs, problems, res):
    for key in ("step6_runs", "step6_exceptions", "step6_rescaled", "step6_guard_excluded", "step6_unadjusted_path"):
        res.extra.setdefault(key, 0)
    debs = {(v, a): _deb(v, a) for v in VARS for a in (0, 1)}
    for i in range(count):
        var = VARS[i % 3]
        adj = 0 if rng.random() < 0.25 else 1
        deb = debs[(var, adj)]
        # instance sequences: a third of the runs use a debiaser that was used before its thresholds were assigned;
        # every eighth one whose (dyadic) thresholds differ from the variable's defaults
        seq, custom = rng.random() < 0.34, None
        if i % 8 == 5:
            custom = ({"lower_threshold": 0.125} if var == "pr" else
                      {"lower_threshold": 2.0, "upper_threshold": 98.0} if var == "hurs" else {"lower_threshold": 2.0**-5, "upper_threshold": 1 - 2.0**-5})
        if seq or custom:
            try:
                deb_fresh = deb if not custom else _isimip().from_variable(var, bias_correct_frequencies_of_values_beyond_thresholds=bool(adj), **custom)
                deb = seq_deb(var, adj, **(custom or {})) if seq else deb_fresh
            except Exception as ex:  # noqa: BLE001
                problems.append(("assigning bounds/thresholds to a used debiaser raises " + type(ex).__name__,
                                 {"kind": "sequence", "variable": var, "adjust": adj, "custom": custom}))
                continue
        ties = rng.random() < 0.25
        coarse = rng.random() < 0.3
        kind = rng.choice(["free", "free", "free", "overlap", "same-hist-future", "same-hist-obs", "tiny"])
        n_o, n_h, n_f = (rng.randint(1, 6) for _ in range(3)) if kind == "tiny" else (rng.randint(6, nmax) for _ in range(3))
        two = has_ut(deb)

        def fr():
            a = rng.choice(FRACS)
            b = rng.choice(FRACS) * (1 - a) if two else 0.0
            return a, b

        f_o, f_h, f_f = fr(), fr(), fr()
        if kind == "overlap" and two:  # both adjusted frequencies large: the counts must be rescaled
            f_o, f_h, f_f = (0.5, 0.5), rng.choice([(0.1, 0.1), (0.0, 0.1), (0.2, 0.05)]), (0.5, 0.5)
        if kind == "same-hist-future":
            f_f, n_f = f_h, n_h
        if kind == "same-hist-obs":
            f_h, n_h = f_o, n_o
        obs = gen_series(rng, var, deb, n_o, *f_o, ties=ties, coarse=coarse and rng.random() < 0.5)
        cmh = gen_series(rng, var, deb, n_h, *f_h, wet_scale=rng.choice([1.0, 0.7, 1.3]), ties=ties, coarse=coarse and rng.random() < 0.5)
        cmf = gen_series(rng, var, deb, n_f, *f_f, wet_scale=rng.choice([1.0, 0.8, 1.5]), ties=ties, coarse=coarse)
        if rng.random() < 0.08:
            obsf = gen_series(rng, var, deb, n_o, 1.0, 0.0)  # nothing between the thresholds to map to
        else:
            a, b = fr()
            obsf = gen_series(rng, var, deb, max(n_o, 4), min(a, 0.7), min(b, 0.2))
        case = {"variable": var, "adjust": adj, "kind": kind, "n": [n_o, n_h, n_f], "values_on_threshold_only": ties, "coarse_resolution": coarse,
                "frac_beyond": [list(map(float, f_o)), list(map(float, f_h)), list(map(float, f_f))]}
        if seq:
            case["sequence"] = SEQ_NOTE
            res.extra["step6_sequence_runs"] = res.extra.get("step6_sequence_runs", 0) + 1
        if custom:
            case["custom"] = custom
        if ties:
            res.extra["step6_threshold_tie_runs"] = res.extra.get("step6_threshold_tie_runs", 0) + 1
        try:
            out, rec, raw, exp = run_step6(deb, obs, obsf, cmh, cmf)
        except Exception as ex:  # noqa: BLE001
            if not raised_in_real_code(ex):
                raise
            res.extra["step6_exceptions"] += 1
            problems.append((f"step6 raises {type(ex).__name__} on well-formed series ({str(ex)[:100]})",
                             {"kind": "step6", "variable": var, "adjust": adj, **{k: case[k] for k in ("sequence", "custom") if k in case},
                              "obs_hist": obs.tolist(), "obs_future": obsf.tolist(), "cm_hist": cmh.tolist(), "cm_future": cmf.tolist(),
                              "exception": type(ex).__name__}))
            continue
        res.extra["step6_runs"] += 1
        step6_oracle(var, adj, deb, obs, obsf, cmh, cmf, out, rec, exp, problems, res,
                     extra={k: case[k] for k in ("sequence", "custom") if k in case})
        if seq:  # the reconfigured instance must give what a freshly constructed one gives
            try:
                with warnings.catch_warnings(), np.errstate(all="ignore"):
                    warnings.simplefilter("ignore")
                    out_f = np.asarray(deb_fresh.step6(obs.copy(), obsf.copy(), cmh.copy(), cmf.copy()), dtype=float)
                same = out_f.shape == out.shape and np.array_equal(out_f, out, equal_nan=True)
            except Exception:  # noqa: BLE001
                same = True
            if not same:
                lo_ = float(deb_fresh.lower_bound)
                problems.append(("step6: a used debiaser with bounds/thresholds assigned afterwards differs from a freshly constructed one",
                                 {"kind": "step6", "variable": var, "adjust": adj, "sequence": SEQ_NOTE, **({"custom": custom} if custom else {}),
                                  "obs_hist": obs.tolist(), "obs_future": obsf.tolist(), "cm_hist": cmh.tolist(), "cm_future": cmf.tolist(),
                                  "outputs_at_lower_bound": int((out == lo_).sum()), "fresh_instance_outputs_at_lower_bound": int((out_f == lo_).sum())}))
        if not all(k in rec for k in ("nl", "nu", "mask_l", "mask_u")):
            cs.add("nmid 0 0 0", "step6-instrumentation", case, lambda g: "step6 did not call the two mask functions")
            continue
        n = cmf.size
        order = np.argsort(cmf)
        xs, out_sorted = cmf[order], out[order]
        nl, nu = rec["nl"], rec["nu"]
        res.count((var, adj, kind, min(n, 12), int(nl) * 5 // (n + 1), int(nu) * 5 // (n + 1), raw[0] + raw[1] > n),
                  0 < nl + nu, sample={**case, "n_lower": int(nl), "n_upper": int(nu), "raw": raw})
        lthr = tok(deb.lower_threshold) if has_lt(deb) else "none"
        uthr = tok(deb.upper_threshold) if has_ut(deb) else "none"

        def cmp_counts(g, nl=nl, nu=nu, raw=raw):
            parts = g.split(" ")
            if len(parts) != 5:
                return f"malformed driver answer {g[:80]}"
            want = [str(int(nl)), str(int(nu)), str(raw[0]), str(raw[1])]
            if parts[:4] == want:
                return None
            if parts[4] == "1" and all(abs(int(a) - int(b)) <= 1 for a, b in zip(parts[:4], want)):
                res.extra["ties_accepted"] += 1  # size * P exactly a half for one of the bounds
                return "tie"
            return f"impl (n_lower n_upper raw_lower raw_upper) {' '.join(want)} model {g}"

        cs.add(f"counts {adj} {lthr} {uthr} {tlist(obs)} {tlist(cmh)} {tlist(cmf)}", "step6-counts", case, cmp_counts)
        if seq:  # tie of the state model (`Props.C11.counts_after_reconfiguration`): the same event sequence in the model
            ev = f"L:none,U:none,use,use,L:{lthr},U:{uthr},use"
            cs.add(f"seqcounts {adj} {ev} {tlist(obs)} {tlist(cmh)} {tlist(cmf)}", "sequence-counts", case, counts_cmp(nl, nu, res))
        cs.add(f"lmask {int(nl)} {n}", "step6-lower-mask", case, exact(mstr(rec["mask_l"])))
        cs.add(f"umask {int(nu)} {n}", "step6-upper-mask", case, exact(mstr(rec["mask_u"])))
        mid = rec.get("mid")
        if mid is None:  # nothing to map or nothing to map to: the remaining entries stay as they are
            mid = xs[~rec["mask_l"] & ~rec["mask_u"]]
            if mid.size:
                res.extra["step6_unadjusted_path"] += 1
        cs.add(f"assign {tok(deb.lower_bound)} {tok(deb.upper_bound)} {int(nl)} {int(nu)} {tlist(xs)} {tlist(mid)}",
               "step6-assignment", case, exact(tlist(out_sorted)))


# ------------------------------------------------------------------ 6. whole pipeline, every dispatch path
@contextlib.contextmanager
def recording_windows(calls):
    """in-process instrumentation: every `_apply_on_window` call with copies of its inputs (taken on entry), its
    output and the mapped middle values of its step 6"""
    ISIMIP = _isimip()
    saved = {k: ISIMIP.__dict__[k] for k in ("_apply_on_window", "_step6_adjust_values_between_thresholds",
                                             "_step6_get_mask_for_entries_to_set_to_lower_bound",
                                             "_step6_get_mask_for_entries_to_set_to_upper_bound")}
    f_win, f_mid = saved["_apply_on_window"], saved["_step6_adjust_values_between_thresholds"]
    f_lo = saved["_step6_get_mask_for_entries_to_set_to_lower_bound"].__func__
    f_up = saved["_step6_get_mask_for_entries_to_set_to_upper_bound"].__func__
    cur = {"mids": None, "nl": None, "nu": None}

    def lo(nr, x):
        cur["nl"] = nr
        return f_lo(nr, x)

    def up(nr, x):
        cur["nu"] = nr
        return f_up(nr, x)

    def mid(self, *a, **k):
        out = f_mid(self, *a, **k)
        if cur["mids"] is not None:
            cur["mids"].append(np.array(out, dtype=float))
        return out

    def win(self, obs_hist, cm_hist, cm_future, *a, **k):
        snap = [np.array(x, dtype=float, copy=True) for x in (obs_hist, cm_hist, cm_future)]
        cur["mids"], cur["nl"], cur["nu"] = [], None, None
        out = f_win(self, obs_hist, cm_hist, cm_future, *a, **k)
        calls.append({"in": snap, "out": np.array(out, dtype=float, copy=True), "mids": cur["mids"], "nl": cur["nl"], "nu": cur["nu"]})
        cur["mids"] = None
        return out

    try:
        ISIMIP._apply_on_window = win
        ISIMIP._step6_adjust_values_between_thresholds = mid
        ISIMIP._step6_get_mask_for_entries_to_set_to_lower_bound = staticmethod(lo)
        ISIMIP._step6_get_mask_for_entries_to_set_to_upper_bound = staticmethod(up)
        yield
    finally:
        for k, v in saved.items():
            setattr(ISIMIP, k, v)


def _count_ok(deb, a, b, c, o):
    """the count clause on one window: inputs a, b, c (obs, cm_hist, cm_future of the window, as the caller gave
    them) and the window's outputs o -> (ok, info)"""
    lo, hi = float(deb.lower_bound), float(deb.upper_bound)
    with warnings.catch_warnings(), np.errstate(all="ignore"):
        warnings.simplefilter("ignore")
        exp = expected_counts(deb, a, b, c)
    (el, Pl), (eu, Pu) = exp["lower"], exp["upper"]
    got = (int((o == lo).sum()), int((o == hi).sum()))
    ok = rescaled_ok(el, eu, int(c.size), got[0], got[1]) if el + eu > c.size else (got == (el, eu))
    if o.size != c.size:  # one output per cm_future value of the window
        ok = False
    return ok, {"n": int(c.size), "n_outputs": int(o.size), "P_lower": Pl, "P_upper": Pu, "round(n*P_lower)": el, "round(n*P_upper)": eu,
                "outputs_at_lower_bound": got[0], "outputs_at_upper_bound": got[1]}


def _pipeline_times(fi):
    import datetime

    out = []
    for start, n in zip(fi["start"], fi["n_days"]):
        d0 = datetime.date.fromisoformat(start)
        t = [d0 + datetime.timedelta(days=k) for k in range(n)]
        if fi.get("doy_range"):
            a, b = fi["doy_range"]
            t = [d for d in t if a <= d.timetuple().tm_yday <= b]
        out.append(np.array(t, dtype=object))
    return out


def own_days_of_year(t):
    """day of year (1..366) of every time step, from the dates themselves (not ibicus.utils.day_of_year)"""
    return np.array([d.timetuple().tm_yday for d in t], dtype=int)


def own_window_indices(doy, center, length):
    """The property's 'window' in running-window mode, computed by the harness from the time axis that was passed in
    (NOT with the debiaser's RunningWindowOverDaysOfYear, whose answers — and any state it keeps between calls — are
    what is being judged): all time steps whose day of year lies in [center - length//2, center + length//2],
    wrapping at the year boundary over the days 1..366."""
    wanted = set()
    for d in range(int(center) - length // 2, int(center) + length // 2 + 1):
        d %= 366
        wanted.add(366 if d == 0 else d)
    return np.where(np.isin(doy, sorted(wanted)))[0]


def _shift_year(iso, k):
    import datetime

    d = datetime.date.fromisoformat(iso)
    return d.replace(year=d.year + k, day=min(d.day, 28) if d.month == 2 else d.day).isoformat()


def counts_cmp(nl, nu, res):
    """compare the driver's `counts` answer with the counts the real step 6 used (ties: size * P exactly a half)"""
    def cmp(g):
        parts = g.split(" ")
        if len(parts) != 5:
            return f"malformed driver answer {g[:80]}"
        want = [str(int(nl)), str(int(nu))]
        if parts[:2] == want:
            return None
        if parts[4] == "1" and all(abs(int(a) - int(b)) <= 1 for a, b in zip(parts[:2], want)):
            res.extra["ties_accepted"] += 1
            return "tie"
        return f"impl (n_lower n_upper used inside the window) {' '.join(want)} model (counts of the window's original inputs) {g}"
    return cmp


def _pipeline_run(fi, problems, res, cs=None):
    """One end-to-end case.  The count clause is demanded (1) of every `_apply_on_window` call, with P from copies of
    the call's inputs taken on entry (state shared between the steps), and (2) of the outputs of `apply_location` /
    serial `apply` / parallel `apply`, with the windows (calendar months, or running windows with length = step on
    data without year wrap) computed by the harness from the time axes that were passed in and P from the ORIGINAL
    series.  Guard as everywhere: the mapped middle values (recorded in the serial run) are strictly inside the bounds."""
    var, adj, mode = fi["variable"], fi["adjust"], fi["mode"]
    kw = {"running_window_mode": False} if mode == "month" else {
        "running_window_mode": True, "running_window_length": fi["window"], "running_window_step_length": fi.get("step", fi["window"])}
    with warnings.catch_warnings():
        warnings.simplefilter("ignore")
        deb = (seq_deb(var, adj, **kw) if fi.get("sequence") else
               _isimip().from_variable(var, bias_correct_frequencies_of_values_beyond_thresholds=bool(adj), **kw))
    t_o, t_h, t_f = _pipeline_times(fi)
    obs, cmh, cmf = (np.array(fi[k], dtype=float) for k in ("obs", "cm_hist", "cm_future"))
    lo, hi = float(deb.lower_bound), float(deb.upper_bound)
    short = {k: v for k, v in fi.items()}
    # call form WITHOUT time information (`timeless_cases`): `time_given[k]` false -> that time argument is not passed
    # (omitted / None) and the library infers it.  The harness keeps judging on t_o / t_h / t_f, which for such a series
    # is the DOCUMENTED inferred calendar (`INFERRED_START` + k days, a function of the series' length only).
    given = fi.get("time_given") or [True, True, True]
    a_o, a_h, a_f = (t if g else None for t, g in zip((t_o, t_h, t_f), given))
    omit = bool(fi.get("time_omitted"))  # arguments left out altogether rather than passed as None
    tnote = "" if all(given) else ("; series given WITHOUT time information [" + ", ".join(
        n for n, g in zip(("obs", "cm_hist", "cm_future"), given) if not g) + f"]: the documented inferred calendar, consecutive days from {INFERRED_START}")

    def call(path):
        np.random.seed(fi["numpy_seed"])  # step 4 randomises the values beyond the thresholds
        with warnings.catch_warnings(), np.errstate(all="ignore"):
            warnings.simplefilter("ignore")
            kw_t = {k: v for k, v in (("time_obs", a_o), ("time_cm_hist", a_h), ("time_cm_future", a_f)) if not (omit and v is None)}
            if path == "apply_location":
                if all(given):
                    o = deb.apply_location(obs.copy(), cmh.copy(), cmf.copy(), t_o, t_h, t_f)
                else:
                    o = deb.apply_location(obs.copy(), cmh.copy(), cmf.copy(), **kw_t)
            else:
                o = deb.apply(obs.copy()[:, None, None], cmh.copy()[:, None, None], cmf.copy()[:, None, None],
                              progressbar=False, parallel=(path == "apply-parallel"), nr_processes=2, **kw_t)[:, 0, 0]
        return np.asarray(o, dtype=float)

    serial_path = "apply_location" if fi["path"] == "apply_location" else "apply"
    if fi.get("prior_call"):
        # call SEQUENCE on one instance: before the judged call the same debiaser is applied to series of the same
        # lengths on OTHER calendars (start years shifted: same first day of year, other placement of the leap years).
        # Nothing the instance remembers about the earlier time axes may enter the windows of the judged call.
        fp = {**fi, "start": [_shift_year(s, k) for s, k in zip(fi["start"], fi["prior_call"]["year_shift"])]}
        tp = _pipeline_times(fp)
        if [t.size for t in tp] == [t_o.size, t_h.size, t_f.size]:
            with warnings.catch_warnings(), np.errstate(all="ignore"):
                warnings.simplefilter("ignore")
                np.random.seed(fi["numpy_seed"])
                deb.apply_location(obs.copy(), cmh.copy(), cmf.copy(), *tp)
    calls = []
    with recording_windows(calls):
        out = call(serial_path)
    # (1) every window the real code formed
    guard = True
    lthr = tok(deb.lower_threshold) if has_lt(deb) else "none"
    uthr = tok(deb.upper_threshold) if has_ut(deb) else "none"
    for k, c in enumerate(calls):
        res.extra["pipeline_window_calls"] = res.extra.get("pipeline_window_calls", 0) + 1
        if cs is not None and c["nl"] is not None and c["nu"] is not None and k % 3 == 0:
            # tie of `Props.C11.window_counts_original`: the model's counts of the window's ORIGINAL inputs against the
            # counts the real step 6 used after the real steps 2-5
            cs.add(f"counts {adj} {lthr} {uthr} {tlist(c['in'][0])} {tlist(c['in'][1])} {tlist(c['in'][2])}", "window-counts",
                   {"variable": var, "adjust": adj, "mode": mode, "window_call": k, "near": fi.get("near")}, counts_cmp(c["nl"], c["nu"], res))
        if not all(lo < v < hi for m in c["mids"] for v in m.tolist()):
            guard = False
            continue
        ok, info = _count_ok(deb, c["in"][0], c["in"][1], c["in"][2], c["out"])
        if not ok:
            problems.append(("_apply_on_window: outputs at the lower/upper bound != round(n * P) of the window's inputs",
                             {**short, "window_call": k, "window_obs_hist": c["in"][0].tolist(), "window_cm_hist": c["in"][1].tolist(),
                              "window_cm_future": c["in"][2].tolist(), **info}))
            return
    if mode != "month":
        # (1b) running-window mode, ANY step length: the k-th `_apply_on_window` call is the window around the k-th
        # centre.  Its outputs must carry round(n * P) values at the bounds with P from the ORIGINAL series restricted
        # to the window the HARNESS computes from each series' own time axis (`own_window_indices`) — the clause 'P is
        # computed from the obs, cm_hist and cm_future frequencies [of that window]' for all calendars, in particular
        # time axes of equal length and equal first day of year whose leap years are placed differently.  The centres
        # come from a fresh RunningWindowOverDaysOfYear (their choice is C08's subject), never from the debiaser's own.
        L = int(fi["window"])
        doy = [own_days_of_year(t) for t in (t_o, t_h, t_f)]
        with warnings.catch_warnings():
            warnings.simplefilter("ignore")
            rw = type(deb.running_window)(window_length_in_days=L, window_step_length_in_days=int(fi.get("step", L)))
            centres = [(int(c), np.asarray(idx)) for c, idx in rw.use(doy[2])]
        if len(centres) != len(calls):
            res.extra["pipeline_centre_mismatch"] = res.extra.get("pipeline_centre_mismatch", 0) + 1
        else:
            for k, ((c, _), call_k) in enumerate(zip(centres, calls)):
                if not all(lo < v < hi for m in call_k["mids"] for v in m.tolist()):
                    continue  # outside the guard of the realised-count clause
                io, ih, iff = (own_window_indices(d, c, L) for d in doy)
                if min(len(io), len(ih), len(iff)) == 0:
                    continue
                res.extra["pipeline_own_windows"] = res.extra.get("pipeline_own_windows", 0) + 1
                ok, info = _count_ok(deb, obs[io], cmh[ih], cmf[iff], call_k["out"])
                if not ok:
                    problems.append((f"{serial_path} (running-window mode): outputs of the window around day {c} at the lower/upper bound != "
                                     "round(n * P) of the original series in that window (window = the time steps of each series whose "
                                     "day of year lies within length//2 of the centre, from the time axes passed in" + tnote + ")",
                                     {**short, "dispatch": serial_path, "window_call": k, "window_name": f"window centre {c}", **info}))
                    return
    if not guard or not calls:
        res.extra["pipeline_guard_excluded"] = res.extra.get("pipeline_guard_excluded", 0) + 1
        return
    # (2) windows computed by the harness from the time axes that were passed in
    if mode == "month":
        mon = [np.array([d.month for d in t]) for t in (t_o, t_h, t_f)]
        windows = [(f"month {m}", np.where(mon[0] == m)[0], np.where(mon[1] == m)[0], np.where(mon[2] == m)[0]) for m in range(1, 13)]
    else:
        windows = []
        for c, idx in centres:
            wf = own_window_indices(doy[2], c, L)
            if set(map(int, idx)) != set(map(int, wf)):
                continue  # a window that is larger than what it adjusts: its count is not observable in the output
            windows.append((f"window centre {c}", own_window_indices(doy[0], c, L), own_window_indices(doy[1], c, L), idx))
    outs = [(serial_path, out)]
    if fi["path"] == "apply-parallel":
        outs.append(("apply-parallel", call("apply-parallel")))
    for path, o_all in outs:
        for name, io, ih, iff in windows:
            if min(len(io), len(ih), len(iff)) == 0:
                continue
            res.extra["pipeline_windows"] = res.extra.get("pipeline_windows", 0) + 1
            ok, info = _count_ok(deb, obs[io], cmh[ih], cmf[iff], o_all[iff])
            res.count(("pipeline", var, adj, mode, path, bool(fi.get("near")), info["round(n*P_lower)"] * 5 // (info["n"] + 1)), True)
            if not ok:
                problems.append((f"{path} ({mode} mode): outputs at the lower/upper bound in a window != round(n * P) of the "
                                 "original series in that window (windows from the time axes passed in" + tnote + ")",
                                 {**short, "dispatch": path, "window_name": name, **info}))
                return


def pipeline_cases(rng, count, problems, res, cs=None):
    """daily series of 2-3 years with a seasonal cycle in the beyond-threshold frequencies, records starting on
    1 Jan / 1 Apr / 1 Oct / any day, moderate values or values close to a threshold with a strong climate signal in
    either direction; month mode and running-window mode; apply_location, serial apply, parallel apply."""
    import datetime

    for key in ("pipeline_runs", "pipeline_skipped"):
        res.extra.setdefault(key, 0)
    paths = ["apply_location", "apply", "apply-parallel"]
    for i in range(count):
        var = VARS[i % 3]
        adj = 0 if rng.random() < 0.3 else 1
        mode = "window" if i % 4 == 3 else "month"
        path = paths[(i // 3 + i) % 3]
        near = rng.choice([None, "lower", "lower", "upper" if var != "pr" else "lower"])
        ties = near is None and rng.random() < 0.34
        coarse = near is None and rng.random() < 0.4
        fi = {"kind": "pipeline", "coarse_resolution": coarse, "variable": var, "adjust": adj, "sequence": i % 2 == 1, "mode": mode, "path": path,
              "near": near, "numpy_seed": rng.randint(0, 2**31 - 1)}
        starts = []
        for y0 in (1980, 1981, 2050):
            md = rng.choice([(1, 1), (10, 1), (4, 1), (rng.randint(1, 12), rng.randint(1, 28))])
            starts.append(datetime.date(y0, *md).isoformat())
        fi["start"] = starts
        fi["n_days"] = [rng.randint(730, 1100) for _ in range(3)]
        if mode == "window":
            fi["window"] = rng.choice([31, 45, 61])
            a = rng.randint(35, 80)
            fi["doy_range"] = [a, rng.randint(250, 335)]
        times = _pipeline_times(fi)
        with warnings.catch_warnings():
            warnings.simplefilter("ignore")
            deb = _deb(var, adj)  # bounds / thresholds for the generator
        two = has_ut(deb)
        phase = rng.random() * 12
        season = [0.5 - 0.35 * math.cos(2 * math.pi * (m - phase) / 12) for m in range(12)]
        sig = rng.choice([0.3, 3.0]) if near else rng.choice([0.8, 1.5])
        sc_h = rng.choice([1.0, 3.0]) if near else rng.choice([0.7, 1.0, 1.3])
        scales = [1.0, sc_h, sc_h * sig]
        for name, t, sc in zip(("obs", "cm_hist", "cm_future"), times, scales):
            base_lo = min(rng.choice(FRACS), 0.6)
            base_hi = rng.choice([0.0, 0.05, 0.2, 0.3]) if two else 0.0
            mon = np.array([d.month for d in t])
            x = np.zeros(t.size)
            for m in range(1, 13):
                idx = np.where(mon == m)[0]
                if idx.size:
                    x[idx] = gen_series(rng, var, deb, idx.size, min(0.9, base_lo * 2 * season[m - 1]), base_hi,
                                        wet_scale=sc, ties=ties, near=near, coarse=coarse and (name == "cm_future" or rng.random() < 0.5))
            fi[name] = x.tolist()
        try:
            _pipeline_run(fi, problems, res, cs)
            res.extra["pipeline_runs"] += 1
        except Exception as ex:  # noqa: BLE001
            if not raised_in_real_code(ex):
                raise
            res.extra["pipeline_skipped"] += 1
            problems.append((f"{path} ({mode} mode) raises {type(ex).__name__} on well-formed series ({str(ex)[:100]})",
                             {**fi, "exception": type(ex).__name__}))


def twin_calendar_cases(rng, count, problems, res):
    """Quantifier: 'all series … and lengths' on ALL calendars — here the ones the free generator (independent random
    lengths) practically never draws: two or all three of obs / cm_hist / cm_future have the SAME number of time steps
    and start on the same day of the year in different years, so their leap years — hence their days of year — are
    placed differently (1980-01-01 + 3 years against 1981-01-01 + 3 years; a 30-year reference against a 30-year
    scenario period).  Full years (windows wrap over the year boundary), running-window mode with step < length (the
    library's default shape 31 / 1 included) and month mode; optionally the same instance has served other calendars
    of the same lengths before.  Judged by `_pipeline_run` (1b)/(2) with windows computed by the harness."""
    import datetime

    for key in ("pipeline_runs", "pipeline_skipped", "twin_calendar_runs"):
        res.extra.setdefault(key, 0)
    for i in range(count):
        var = VARS[i % 3]
        adj = 0 if rng.random() < 0.2 else 1
        mode = "month" if i % 5 == 4 else "window"
        path = "apply" if i % 3 == 2 else "apply_location"
        coarse = rng.random() < 0.25
        fi = {"kind": "pipeline", "coarse_resolution": coarse, "variable": var, "adjust": adj, "sequence": False, "mode": mode, "path": path,
              "near": None, "numpy_seed": rng.randint(0, 2**31 - 1)}
        twins = rng.choice([(0, 1), (0, 2), (1, 2), (0, 1, 2), (0, 1, 2)])
        md = rng.choice([(1, 1), (1, 1), (1, 1), (3, 1), (7, 1), (rng.randint(1, 12), rng.randint(1, 28))])
        n_twin = rng.choice([730, 731, 1095, 1096, 1461, rng.randint(740, 1090)])
        y0 = [rng.choice([1979, 1980]), rng.choice([1981, 1982, 1983]), rng.choice([2049, 2050, 2051])]
        fi["start"] = [datetime.date(y, *(md if k in twins else rng.choice([(1, 1), (10, 1), (rng.randint(1, 12), rng.randint(1, 28))]))).isoformat()
                       for k, y in enumerate(y0)]
        fi["n_days"] = [n_twin if k in twins else rng.randint(730, 1100) for k in range(3)]
        if mode == "window":
            fi["window"], fi["step"] = rng.choice([(31, 1), (31, 5), (31, 9), (15, 3), (45, 15), (61, 7), (31, 31)])
        if rng.random() < 0.35:
            fi["prior_call"] = {"year_shift": [rng.choice([1, 2, 3]) for _ in range(3)]}
        times = _pipeline_times(fi)
        with warnings.catch_warnings():
            warnings.simplefilter("ignore")
            deb = _deb(var, adj)
        two = has_ut(deb)
        # beyond-threshold frequency varying from week to week (a window that is off by a day sees other values)
        for name, t, sc in zip(("obs", "cm_hist", "cm_future"), times, [1.0, rng.choice([0.7, 1.0, 1.3]), rng.choice([0.8, 1.2, 1.5])]):
            base_lo = rng.choice([0.15, 0.3, 0.45])
            amp = rng.choice([0.1, 0.3, 0.5])
            block = rng.choice([5, 7, 16, 30, 45])
            base_hi = rng.choice([0.0, 0.05, 0.2]) if two else 0.0
            doy = own_days_of_year(t)
            x = np.zeros(t.size)
            for b in range(0, 366 // block + 1):
                idx = np.where(doy // block == b)[0]
                if idx.size:
                    x[idx] = gen_series(rng, var, deb, idx.size, min(0.95, max(0.0, base_lo + amp * (1 if b % 2 else -1) * base_lo / 0.45)), base_hi,
                                        wet_scale=sc, coarse=coarse and (name == "cm_future" or rng.random() < 0.5))
            fi[name] = x.tolist()
        try:
            _pipeline_run(fi, problems, res)
            res.extra["pipeline_runs"] += 1
            res.extra["twin_calendar_runs"] += 1
            res.count(("twin-calendar", var, adj, mode, fi.get("step"), len(twins), bool(fi.get("prior_call"))), True,
                      sample={k: v for k, v in fi.items() if not isinstance(v, list) or k in ("start", "n_days")})
        except Exception as ex:  # noqa: BLE001
            if not raised_in_real_code(ex):
                raise
            res.extra["pipeline_skipped"] += 1
            problems.append((f"{path} ({mode} mode, twin calendars) raises {type(ex).__name__} on well-formed series ({str(ex)[:100]})",
                             {**fi, "exception": type(ex).__name__}))


# ------------------------------------------------------------------ 6a. the call form without time information
# The calendar a series gets when its time argument is not given: `n` consecutive days from 1 January 1950 (ISIMIP
# docstring: 'inferred, assuming the first value in obs, cm_hist and cm_future always corresponds to a January 1st';
# `create_array_of_consecutive_dates(n, start_date=1950-01-01)`; Model/InferredDates.lean `dateOf`, Model/Contract.lean
# `inferTime`: only the MISSING arrays are inferred, each from the length of its own series, a given one is untouched).
INFERRED_START = "1950-01-01"


def timeless_cases(rng, count, problems, res):
    """Quantifier: 'all series … and lengths' (`observe_at`: apply_location with running_window_mode=False) for the
    CALL FORM the other generators never use — obs / cm_hist / cm_future handed over WITHOUT time information (all three
    time arguments, or any subset of them, omitted or None) through apply_location, serial and parallel apply.  The
    'window' of the count clause is then a calendar month (or running window) of the documented inferred calendar:
    every series whose time argument is missing lies on consecutive days from 1950-01-01, whatever the other series
    are.  Series of 2-11 years (the leap days of 1952, 1956, 1960 fall inside), lengths equal or unequal, whole years
    or not; the beyond-threshold frequency varies from block to block, so a window that is off by one day holds other
    values.  Judged by `_pipeline_run` (1b)/(2): windows computed by the harness with Python's `datetime`, P from the
    original series."""
    import datetime

    for key in ("pipeline_runs", "pipeline_skipped", "timeless_runs"):
        res.extra.setdefault(key, 0)
    for i in range(count):
        var = VARS[i % 3]
        adj = 0 if rng.random() < 0.2 else 1
        mode = "window" if i % 3 == 2 else "month"
        path = ["apply_location", "apply_location", "apply", "apply_location", "apply-parallel", "apply"][i % 6]
        coarse = rng.random() < 0.25
        given = list(rng.choice([(False, False, False)] * 5 + [(True, True, False), (False, False, True), (True, False, False), (False, True, False)]))
        fi = {"kind": "pipeline", "coarse_resolution": coarse, "variable": var, "adjust": adj, "sequence": rng.random() < 0.3, "mode": mode, "path": path,
              "near": None, "numpy_seed": rng.randint(0, 2**31 - 1), "time_given": given, "time_omitted": rng.random() < 0.5}
        same_len = rng.random() < 0.4  # all three series of one length (the usual shape of a call without dates)
        years = rng.randint(2, 10)
        starts, n_days = [], []
        for k, y0 in enumerate((1980, 1981, 2050)):
            if not same_len:
                years = rng.randint(2, 10)
            if given[k]:
                starts.append(datetime.date(y0 + rng.randint(0, 3), *rng.choice([(1, 1), (1, 1), (10, 1), (rng.randint(1, 12), rng.randint(1, 28))])).isoformat())
            else:
                starts.append(INFERRED_START)
            n_days.append(rng.choice([365 * years, 365 * years, 365 * years + (years + 1) // 4, 365 * years + rng.randint(-150, 200)]))
        if same_len:
            n_days = [n_days[0]] * 3
        fi["start"], fi["n_days"] = starts, n_days
        if mode == "window":
            fi["window"], fi["step"] = rng.choice([(31, 31), (31, 31), (45, 45), (31, 9), (61, 21)])
        if rng.random() < 0.2:  # the same instance has served explicitly dated series of the same lengths before
            fi["prior_call"] = {"year_shift": [rng.choice([31, 33, 101]) for _ in range(3)]}
        times = _pipeline_times(fi)
        with warnings.catch_warnings():
            warnings.simplefilter("ignore")
            deb = _deb(var, adj)
        two = has_ut(deb)
        for name, t, sc in zip(("obs", "cm_hist", "cm_future"), times, [1.0, rng.choice([0.7, 1.0, 1.3]), rng.choice([0.8, 1.2, 1.5])]):
            base_lo = rng.choice([0.15, 0.3, 0.45])
            amp = rng.choice([0.1, 0.3, 0.5])
            block = rng.choice([5, 7, 16, 30, 45])
            base_hi = rng.choice([0.0, 0.05, 0.2]) if two else 0.0
            doy = own_days_of_year(t)
            x = np.zeros(t.size)
            for b in range(0, 366 // block + 1):
                idx = np.where(doy // block == b)[0]
                if idx.size:
                    x[idx] = gen_series(rng, var, deb, idx.size, min(0.95, max(0.0, base_lo + amp * (1 if b % 2 else -1) * base_lo / 0.45)), base_hi,
                                        wet_scale=sc, coarse=coarse and (name == "cm_future" or rng.random() < 0.5))
            fi[name] = x.tolist()
        try:
            _pipeline_run(fi, problems, res)
            res.extra["pipeline_runs"] += 1
            res.extra["timeless_runs"] += 1
            res.count(("timeless", var, adj, mode, path, tuple(given), same_len, fi["time_omitted"], tuple(min(n // 365, 6) for n in n_days)), True,
                      sample={k: v for k, v in fi.items() if not isinstance(v, list) or k in ("start", "n_days", "time_given")})
        except Exception as ex:  # noqa: BLE001
            if not raised_in_real_code(ex):
                raise
            res.extra["pipeline_skipped"] += 1
            problems.append((f"{path} ({mode} mode, called without time information for {[n for n, g in zip(('obs', 'cm_hist', 'cm_future'), given) if not g]}) "
                             f"raises {type(ex).__name__} on well-formed series ({str(ex)[:100]})", {**fi, "exception": type(ex).__name__}))


# ------------------------------------------------------------------ 6b. over-claiming frequencies on double-bounded variables
TWO_SIDED = ("hurs", "prsnratio", "tasskew")


def _window_run(fi, problems, res):
    """one `_apply_on_window` call (steps 3-7 of one window) on given series: count clause incl. the rescaling clause"""
    var, adj = fi["variable"], fi["adjust"]
    deb = _deb(var, adj)
    obs, cmh, cmf = (np.array(fi[k], dtype=float) for k in ("obs_hist", "cm_hist", "cm_future"))
    lo, hi = float(deb.lower_bound), float(deb.upper_bound)
    calls = []
    np.random.seed(fi["numpy_seed"])
    with warnings.catch_warnings(), np.errstate(all="ignore"):
        warnings.simplefilter("ignore")
        with recording_windows(calls):
            deb._apply_on_window(obs.copy(), cmh.copy(), cmf.copy())
    c = calls[0]
    if not all(lo < v < hi for m in c["mids"] for v in m.tolist()):
        res.extra["window_guard_excluded"] = res.extra.get("window_guard_excluded", 0) + 1
        return None
    ok, info = _count_ok(deb, obs, cmh, cmf, c["out"])
    if not ok:
        rescale = info["round(n*P_lower)"] + info["round(n*P_upper)"] > info["n"]
        problems.append(("_apply_on_window: outputs at the lower/upper bound != " +
                         ("the proportionally rescaled counts (both bounds claim more values than exist)" if rescale else "round(n * P)"),
                         {**fi, **info}))
    return info


def overclaim_cases(rng, count, nmax, problems, res):
    """Quantifier: 'all triples of frequencies in [0,1]^3' — per BOUND, i.e. for a variable with two thresholds all
    PAIRS of triples, including those whose two adjusted counts together exceed n (many saturated values at both
    ends, cm_hist less saturated than obs), lower and upper share UNEQUAL; frequency adjustment off with a fully
    saturated obs (over-claim by rounding alone: n odd, both halves round up).  Judged on the real `step6` and on the
    real `_apply_on_window` by the rescaling clause `rescaled_ok`."""
    for key in ("overclaim_runs", "overclaim_rescaled", "step6_runs", "step6_exceptions", "step6_rescaled", "step6_guard_excluded"):
        res.extra.setdefault(key, 0)
    for i in range(count):
        var = TWO_SIDED[i % 3]
        adj = 0 if i % 7 == 6 else 1
        deb = _deb(var, adj)
        n_o, n_h, n_f = (rng.randint(5, nmax) for _ in range(3))
        if adj:
            s_o = rng.choice([0.6, 0.8, 0.9, 1.0])          # saturated share of obs, split unequally between the bounds
            w = rng.choice([0.1, 0.25, 0.4, 0.5, 0.6, 0.75, 0.9])
            f_o = (s_o * w, s_o * (1 - w))
            q = rng.choice([0.0, 0.2, 0.5, 0.8])           # cm_hist less saturated than obs (not necessarily on both sides)
            q2 = rng.choice([q, q, 0.0, 1.0])
            f_h = (f_o[0] * q, f_o[1] * q2)
            s_f = rng.choice([0.5, 0.7, 0.9, 1.0])
            w_f = rng.choice([w, 0.2, 0.5, 0.8])
            f_f = (s_f * w_f, s_f * (1 - w_f))
        else:
            w = rng.choice([0.5, 0.5, 0.3, 0.7])
            f_o = (w, 1 - w)
            f_h, f_f = (rng.choice(FRACS) * 0.5, rng.choice(FRACS) * 0.5), (rng.choice(FRACS) * 0.5, rng.choice(FRACS) * 0.5)
        obs = gen_series(rng, var, deb, n_o, *f_o)
        cmh = gen_series(rng, var, deb, n_h, *f_h, wet_scale=rng.choice([1.0, 0.8]))
        cmf = gen_series(rng, var, deb, n_f, *f_f, wet_scale=rng.choice([1.0, 1.2]))
        case = {"variable": var, "adjust": adj, "kind": "overclaim", "n": [n_o, n_h, n_f],
                "frac_beyond": [list(map(float, f_o)), list(map(float, f_h)), list(map(float, f_f))]}
        res.extra["overclaim_runs"] += 1
        if i % 2 == 0:  # the public step: step6 with pseudo-future observations
            obsf = gen_series(rng, var, deb, max(n_o, 4), min(f_o[0], 0.7), min(f_o[1], 0.2))
            try:
                out, rec, raw, exp = run_step6(deb, obs, obsf, cmh, cmf)
            except Exception as ex:  # noqa: BLE001
                if not raised_in_real_code(ex):
                    raise
                res.extra["step6_exceptions"] += 1
                problems.append((f"step6 raises {type(ex).__name__} on well-formed series ({str(ex)[:100]})",
                                 {"kind": "step6", "variable": var, "adjust": adj, "obs_hist": obs.tolist(), "obs_future": obsf.tolist(),
                                  "cm_hist": cmh.tolist(), "cm_future": cmf.tolist(), "exception": type(ex).__name__}))
                continue
            res.extra["step6_runs"] += 1
            step6_oracle(var, adj, deb, obs, obsf, cmh, cmf, out, rec, exp, problems, res)
            el, eu = exp["lower"][0], exp["upper"][0]
        else:  # the whole window
            fi = {"kind": "window", "variable": var, "adjust": adj, "numpy_seed": rng.randint(0, 2**31 - 1),
                  "obs_hist": obs.tolist(), "cm_hist": cmh.tolist(), "cm_future": cmf.tolist()}
            try:
                info = _window_run(fi, problems, res)
            except Exception as ex:  # noqa: BLE001
                if not raised_in_real_code(ex):
                    raise
                problems.append((f"_apply_on_window raises {type(ex).__name__} on well-formed series ({str(ex)[:100]})",
                                 {**fi, "exception": type(ex).__name__}))
                continue
            if info is None:
                continue
            el, eu = info["round(n*P_lower)"], info["round(n*P_upper)"]
        over = el + eu > n_f
        res.extra["overclaim_rescaled"] += over
        res.count(("overclaim", var, adj, i % 2, over, (el > eu) - (el < eu), min(n_f, 12)), over, sample=case)


# ------------------------------------------------------------------ 7. missing values: two encodings of the same data
def _masked_inputs(fi):
    """rebuild both encodings from the recorded integer data + gap masks: (a) float arrays with NaN gaps,
    (b) integer-typed numpy masked arrays whose masked cells carry the fill value"""
    enc_nan, enc_int = [], []
    for k in ("obs", "cm_hist", "cm_future"):
        data = np.array(fi[k + "_data"], dtype=np.int16)
        gaps = np.array(fi[k + "_gaps"], dtype=bool)
        a = data.astype(float)
        a[gaps] = np.nan
        enc_nan.append(a)
        d = data.copy()
        d[gaps] = fi["fill_value"]
        enc_int.append(np.ma.masked_array(d, mask=gaps, fill_value=fi["fill_value"]) if gaps.any() else d)
    return enc_nan, enc_int


def _masked_run(fi, problems, res):
    """`Debiaser.apply` (month mode, impute_missing_values=True) on both encodings with the same numpy seed.
    (i) both encodings are the same data -> the same outputs, in particular the same counts at the bounds in every
    month and cell; (ii) in cell 0 every reported value of a series with gaps is strictly between the thresholds, so
    the imputed values are too, whatever is drawn, and the count must be round(n * P) with the frequencies of the
    valid cells only (guard as everywhere: mapped values strictly inside the bounds)."""
    import datetime

    var, adj = fi["variable"], fi["adjust"]
    with warnings.catch_warnings():
        warnings.simplefilter("ignore")
        deb = _isimip().from_variable(var, running_window_mode=False, impute_missing_values=True,
                                      bias_correct_frequencies_of_values_beyond_thresholds=bool(adj), **fi["settings"])
    enc_nan, enc_int = _masked_inputs(fi)

    def dates(y0, n):
        d0 = datetime.date(y0, 1, 1)
        return np.array([d0 + datetime.timedelta(days=k) for k in range(n)], dtype=object)

    t = [dates(y0, a.shape[0]) for y0, a in zip((1980, 1981, 2050), enc_nan)]
    outs, recs = [], []
    for enc in (enc_nan, enc_int):
        rec = {"all_mid": []}
        np.random.seed(fi["numpy_seed"])  # steps 2 and 4 draw random numbers: same draws for both encodings
        with warnings.catch_warnings(), np.errstate(all="ignore"):
            warnings.simplefilter("ignore")
            with recording(rec):
                o = deb.apply(*[x.copy() for x in enc], time_obs=t[0], time_cm_hist=t[1], time_cm_future=t[2], progressbar=False)
        outs.append(np.asarray(np.ma.filled(o, np.nan) if isinstance(o, np.ma.MaskedArray) else o, dtype=float))
        recs.append(rec)
    lo, hi = float(deb.lower_bound), float(deb.upper_bound)
    mon = [np.array([d.month for d in tt]) for tt in t]
    info = {k: fi[k] for k in ("kind", "variable", "adjust", "settings", "fill_value", "numpy_seed", "obs_data", "obs_gaps",
                               "cm_hist_data", "cm_hist_gaps", "cm_future_data", "cm_future_gaps")}
    ncell = enc_nan[0].shape[2]
    for cell in range(ncell):
        for m in range(1, 13):
            sel = mon[2] == m
            c_nan = (int((outs[0][sel, 0, cell] == lo).sum()), int((outs[0][sel, 0, cell] == hi).sum()))
            c_int = (int((outs[1][sel, 0, cell] == lo).sum()), int((outs[1][sel, 0, cell] == hi).sum()))
            res.extra["masked_windows"] = res.extra.get("masked_windows", 0) + 1
            res.count(("masked", var, adj, cell, m), True)
            if c_nan != c_int:
                problems.append(("apply: the same data given as integer masked arrays and as float arrays with NaN gaps give different "
                                 "numbers of outputs at the lower/upper bound",
                                 {**info, "cell": cell, "month": m, "outputs_at_bounds_nan_encoding": list(c_nan),
                                  "outputs_at_bounds_masked_int_encoding": list(c_int)}))
                return
    # (ii) cell 0: count oracle with the frequencies of the valid cells
    for which, out, rec in (("nan", outs[0], recs[0]), ("masked-int", outs[1], recs[1])):
        if not all(lo < v < hi for mid in rec["all_mid"] for v in mid.tolist()):
            res.extra["masked_guard_excluded"] = res.extra.get("masked_guard_excluded", 0) + 1
            continue
        for m in range(1, 13):
            valid = []
            for k, a in enumerate(enc_nan):
                x = a[mon[k] == m, 0, 0]
                valid.append(x[~np.isnan(x)])
            n_m = int((mon[2] == m).sum())
            if min(v.size for v in valid) == 0:
                continue
            exp = expected_counts(deb, *valid, n=n_m)
            (el, Pl), (eu, Pu) = exp["lower"], exp["upper"]
            o = out[mon[2] == m, 0, 0]
            got = (int((o == lo).sum()), int((o == hi).sum()))
            ok = rescaled_ok(el, eu, n_m, got[0], got[1]) if el + eu > n_m else (got == (el, eu))
            if not ok:
                problems.append(("apply with missing values (" + which + " encoding): outputs at the lower/upper bound in a month != "
                                 "round(n * P) of the valid cells' frequencies",
                                 {**info, "cell": 0, "month": m, "encoding": which, "P_lower": Pl, "P_upper": Pu, "round(n*P_lower)": el,
                                  "round(n*P_upper)": eu, "outputs_at_lower_bound": got[0], "outputs_at_upper_bound": got[1]}))
                return


def masked_cases(rng, count, problems, res):
    """integer-valued data (pr in 1/10 mm with lower_threshold 1; hurs in whole percent) on a [t, 1, 2] grid.
    Cell 0: the series with gaps report only values strictly between the thresholds; cell 1: they also report values
    beyond the thresholds.  Masked cells carry a fill value that lies beyond the lower threshold (0 = 'dry')."""
    for key in ("masked_runs", "masked_skipped"):
        res.extra.setdefault(key, 0)
    for i in range(count):
        var = ("pr", "hurs")[i % 2]
        adj = 0 if rng.random() < 0.25 else 1
        settings = {"lower_bound": 0.0, "lower_threshold": 1.0} if var == "pr" else {}
        hi_v = 300 if var == "pr" else 99
        gappy = [True, rng.random() < 0.5, rng.random() < 0.5]  # obs always has gaps
        fi = {"kind": "masked", "variable": var, "adjust": adj, "settings": settings, "fill_value": 0,
              "numpy_seed": rng.randint(0, 2**31 - 1)}
        for k, (name, y) in enumerate((("obs", 2), ("cm_hist", rng.randint(2, 3)), ("cm_future", rng.randint(2, 3)))):
            n = 365 * y
            data = np.zeros((n, 1, 2), dtype=np.int16)
            gaps = np.zeros((n, 1, 2), dtype=bool)
            for cell in range(2):
                wet = np.array([rng.randint(5, hi_v) for _ in range(n)], dtype=np.int16)
                u = np.array([rng.random() for _ in range(n)])
                f_lo = rng.choice([0.1, 0.25, 0.4])
                f_hi = rng.choice([0.0, 0.1, 0.2]) if var == "hurs" else 0.0
                x = wet.copy()
                if not (gappy[k] and cell == 0):  # cell 0 of a series with gaps: only values between the thresholds
                    x[u < f_lo] = rng.choice([0, 0, 1]) if var == "pr" else 0
                    x[u > 1 - f_hi] = 100
                data[:, 0, cell] = x
                if gappy[k]:
                    gaps[:, 0, cell] = np.array([rng.random() < 0.2 for _ in range(n)])
            fi[name + "_data"], fi[name + "_gaps"] = data.tolist(), gaps.tolist()
        try:
            _masked_run(fi, problems, res)
            res.extra["masked_runs"] += 1
        except Exception as ex:  # noqa: BLE001
            if not raised_in_real_code(ex):
                raise
            res.extra["masked_skipped"] += 1
            problems.append((f"apply with missing values raises {type(ex).__name__} on well-formed series ({str(ex)[:100]})",
                             {**fi, "exception": type(ex).__name__}))


ISI_CONFIGS = ["pr_mult", "pr_mixed", "pr_nofreq", "pr_npqm", "skew_npqm", "skew_param", "hurs", "hurs_param_freq"]


# ------------------------------------------------------------------ the check
def run(tier, res, force_search=False):
    rng = random.Random(C.seed() * 104729 + 11)
    res.extra["ties_accepted"] = 0
    res.rule = ("evaluations = real-code evaluations compared with the model (every frequency triple (a/n,b/n,c/n), every (l,u,n) "
                "with l+u>n, every mask triple, every mask (nr,n), every step6 run); distinct = classes: P-grid (n, each frequency in "
                "{0, interior, 1}, sign(Ph-Po), sign(Pf-Ph)); rescaling (l,u,n) with l,u <= n; nr (adjust, signs, edge flags, size); "
                "step6 (variable, adjust, generator kind, size class, lower/upper count class, rescaled)")
    res.trusted = C.BASE_TRUSTED + [
        "the shared window-pipeline model Model.Isimip (steps 3-7, winFn, month loop) on which Props.C11.window_* / month_mode_* are stated; "
        "tied on every run by the DrvIsimip correspondence (isimip_corr.correspondence / correspondence_location, thresholded configurations) "
        "and by the `counts` driver lines on the inputs of every real window of the pipeline cases",
        "the kernel cannot evaluate List.mergeSort on >= 2 elements: the concrete multi-value window of Props.C11.Example is evaluated by the driver, "
        "the kernel checks its counts and a complete one-value window",
        "np.sort / np.argsort / boolean-mask assignment semantics as modelled by Model.IsimipFreq.assignBounds (validated by the step6 correspondence)",
        "the values `_step6_adjust_values_between_thresholds` returns are a parameter of the model (recorded from the real run)",
        "Python slice semantics mask[0:nr], mask[(n-nr):] as modelled by Model.IsimipFreq.pySliceIdx (validated exhaustively for n <= 12)",
    ]
    res.assumptions = [
        "RUNTIME-ONLY clauses (decided by the oracle on the real code, no theorem — the value-level model is pure and cannot exhibit them): "
        "(a) step 5 must not overwrite obs_hist in place before step 6 reads it (numpy aliasing; in the model step 5 returns a new list, "
        "Props.C11.window_counts_original states the counts are those of the original inputs); (b) the has_* flags must be derived from "
        "the current attribute values (a cached flag is state outside the specification Props.C11.counts_after_reconfiguration); "
        "(c) integer-typed masked arrays and float arrays with NaN gaps must denote the same data (dtype conversion / mask handling); "
        "(d) every dispatch path (apply_location, serial and parallel apply) must hand the time axes that were passed in to the window "
        "loop (process pool, kwargs forwarding; the loop itself is Props.C11.month_mode_bound_counts / C07 / C08)",
        "frequencies are exact rationals; float rounding of size*P exactly at a half may go either way (driver flags it, counted as ties_accepted)",
        "masks / series are non-empty (numpy yields NaN on an empty mask and round() raises)",
        "guard of the realised-count clause: the mapped middle values are strictly inside the bounds (checked on the recorded values; excluded runs are counted)",
        "a series handed over without its time argument lies on the documented inferred calendar: n consecutive days from 1950-01-01, a function "
        "of its own length only (ISIMIP docstring 'first value corresponds to a January 1st'; create_array_of_consecutive_dates' default start; "
        "Model/InferredDates.lean tied by C02's DrvInferredDates, Gen.Contract.infer_time = Model.Contract.inferTime in C14); the oracle "
        "computes months / days of year of that calendar with Python's datetime",
    ]

    lean_ok = C.lean_phase(res, PROP, GEN, TARGETS)
    boost = 3 if (force_search or not lean_ok) else 1
    quick = tier == "quick"
    if not quick and lean_ok:  # thorough: re-check the compiled declarations of the property modules with the external kernel
        import fcntl

        mods = ["IbicusModel.Props.C11", "IbicusModel.Lemmas.C11Pipeline", "IbicusModel.Lemmas.GenIsimipFreq", "IbicusModel.Lemmas.IsimipFreq",
                "IbicusModel.Model.IsimipFreq", "IbicusModel.Gen.IsimipFreq"]
        with open(C.LOCK, "w") as lk:
            fcntl.flock(lk, fcntl.LOCK_SH)
            rc, log = C._run(["lake", "env", "leanchecker"] + mods)
        res.extra["leanchecker"] = "ok" if rc == 0 else f"rc={rc}: {log[-300:]}"
        if rc != 0:
            res.tie_broken.append("leanchecker rejects the property modules: " + log[-300:])
            lean_ok = False

    cs, problems = Cases(), []
    p_grids(24 if quick else 60, cs, problems, res)
    p_near_isclose(rng, (150 if quick else 1500) * boost, cs, problems, res)
    scale_cases(rng, 40, (200 if quick else 3000) * boost, cs, problems, res)
    nr_cases(rng, 3 if quick else 5, (300 if quick else 3000) * boost, 60 if quick else 400, cs, problems, res)
    mask_cases(12, cs, problems, res)
    step6_cases(rng, (180 if quick else 2400) * boost, 80 if quick else 400, cs, problems, res)
    pipeline_cases(rng, 12 if quick else 72, problems, res, cs)
    # own random streams (the cases above keep theirs): over-claiming pairs of frequency triples; twin calendars
    overclaim_cases(random.Random(C.seed() * 104729 + 1111), (90 if quick else 900) * boost, 80 if quick else 300, problems, res)
    twin_calendar_cases(random.Random(C.seed() * 104729 + 1112), (5 if quick else 30) * boost, problems, res)
    # own stream: the call form without (or with partial) time information, judged on the documented inferred calendar
    timeless_cases(random.Random(C.seed() * 104729 + 1114), (12 if quick else 60) * boost, problems, res)

    mismatches = []
    try:
        out = C.run_driver("DrvIsimipFreq", cs.lines)
        for (op, case, cmp), got in zip(cs.expect, out):
            res.cov["traces_validated_against_impl"] += 1
            r = cmp(got)
            if r is not None and r != "tie":
                mismatches.append({"op": op, "case": case, "diff": r[:500]})
    except (C.DriverError, Exception) as ex:  # noqa: BLE001
        mismatches.append({"op": "driver", "case": {}, "diff": f"{type(ex).__name__}: {str(ex)[:400]}"})
    if mismatches:
        res.tie_broken.append(f"correspondence DrvIsimipFreq: {len(mismatches)} mismatches, first: {mismatches[0]}")
    runs = res.extra.get("step6_runs", 0)
    if res.extra.get("step6_exceptions", 0) > max(3, runs // 5):
        res.tie_broken.append(f"step6 raised in {res.extra['step6_exceptions']} of {runs + res.extra['step6_exceptions']} generated cases")

    # assembled pipeline (small budget always; larger when a tie is broken)
    # tie of the shared window-pipeline model `Model.Isimip` (on which `Props.C11.window_*` are stated) on thresholded
    # configurations without detrending: real `_apply_on_window` and its stages against `DrvIsimip`
    try:
        from harness import isimip_corr

        isi = isimip_corr.correspondence(rng, 16 if quick else 160, tier, res, configs=ISI_CONFIGS)
        # … and of the composition step 1 -> month / running-window loop with the window function -> step 8
        isi += isimip_corr.correspondence_location(rng, 4 if quick else 24, tier, res)
    except Exception as ex:  # noqa: BLE001
        isi = [{"op": "isimip_corr", "case": {}, "detail": f"{type(ex).__name__}: {str(ex)[:300]}"}]
    res.extra["window_model_traces"] = res.extra.get("window_model_traces", 0) + (16 if quick else 160)
    if isi:
        res.tie_broken.append(f"correspondence DrvIsimip (window pipeline model): {len(isi)} mismatches, first: {str(isi[0])[:400]}")
        mismatches = mismatches + isi[:5]
    if mismatches or not lean_ok or force_search:  # a tie is broken: widen the end-to-end search
        pipeline_cases(rng, 24 if quick else 144, problems, res)
        if not problems:
            twin_calendar_cases(random.Random(C.seed() * 104729 + 1113), 6 if quick else 36, problems, res)
    masked_cases(rng, 2 if quick else 12, problems, res)
    if (mismatches or not lean_ok) and not problems:  # a tie is broken: widen the failing-input search on the real code
        cs2 = Cases()
        step6_cases(rng, 600, 120, cs2, problems, res)
        nr_cases(rng, 0, 1500, 200, cs2, problems, res)

    # ---- verdict
    seen = set()
    for desc, fi in problems:
        key = (desc, fi.get("kind"), fi.get("variable"))
        if key in seen:
            continue
        seen.add(key)
        res.violations.append((desc + ": " + str({k: v for k, v in fi.items() if not isinstance(v, list)})[:220],
                               {"property": PROP, "failing_input": fi, "problem": desc,
                                "signature": {"what": fi.get("kind"), "problem": desc}}))
    if res.tie_broken and not problems:
        res.violations.append(("proof obligation / correspondence no longer checks: " + "; ".join(res.tie_broken)[:600],
                               {"property": PROP, "failing_input": None, "broken": res.tie_broken, "mismatches": mismatches[:5]}))
    return res


# ------------------------------------------------------------------ replay of a failing input against the real code
def replay(data):
    fi = data.get("failing_input")
    if not fi:
        print("replay: no failing input recorded; broken obligations:", data.get("broken"))
        return 1
    ISIMIP = _isimip()
    problems = []
    res = C.Result(PROP, "replay")
    res.extra = {"ties_accepted": 0, "step6_rescaled": 0, "step6_guard_excluded": 0}
    kind = fi.get("kind")
    from fractions import Fraction

    if kind == "P":
        Po, Ph, Pf = (float(Fraction(fi[k])) for k in ("Po", "Ph", "Pf"))
        P = float(ISIMIP._step6_get_P_obs_future(np.float64(Po), np.float64(Ph), np.float64(Pf)))
        print(f"_step6_get_P_obs_future({Po}, {Ph}, {Pf}) = {P}")
        check_P(Po, Ph, Pf, P, problems, {k: fi[k] for k in ("Po", "Ph", "Pf")})
    elif kind == "scale":
        out = ISIMIP._step6_scale_nr_of_entries_to_set_to_bounds(fi["l"], fi["u"], fi["n"])
        print(f"_step6_scale_nr_of_entries_to_set_to_bounds({fi['l']}, {fi['u']}, {fi['n']}) = {out}")
        check_scale(fi["l"], fi["u"], fi["n"], out, problems)
    elif kind == "nr":
        deb = _deb("pr", fi["adjust"])
        ms = []
        for k in ("obs", "cm_hist", "cm_future"):
            a, b = map(int, fi[k].split("/"))
            m = np.zeros(b, dtype=bool)
            m[:a] = True
            ms.append(m)
        got = deb._step6_get_nr_of_entries_to_set_to_bound(*ms)
        pct = ISIMIP._step6_calculate_percent_values_beyond_threshold
        P = ISIMIP._step6_get_P_obs_future(pct(ms[0]), pct(ms[1]), pct(ms[2])) if fi["adjust"] else pct(ms[0])
        print(f"_step6_get_nr_of_entries_to_set_to_bound -> {got!r}; round(n*P) = {round(ms[2].size * P)} (P = {P})")
        if got != round(ms[2].size * P) or not 0 <= got <= ms[2].size:
            problems.append(("nr", fi))
    elif kind == "step6":
        custom = fi.get("custom") or {}
        if fi.get("sequence"):
            deb = seq_deb(fi["variable"], fi["adjust"], **custom)
        elif custom:
            deb = ISIMIP.from_variable(fi["variable"], bias_correct_frequencies_of_values_beyond_thresholds=bool(fi["adjust"]), **custom)
        else:
            deb = _deb(fi["variable"], fi["adjust"])
        obs, obsf, cmh, cmf = (np.array(fi[k], dtype=float) for k in ("obs_hist", "obs_future", "cm_hist", "cm_future"))
        out, rec, raw, exp = run_step6(deb, obs, obsf, cmh, cmf)
        step6_oracle(fi["variable"], fi["adjust"], deb, obs, obsf, cmh, cmf, out, rec, exp, problems, res)
        print(f"step6[{fi['variable']}]: outputs at lower/upper bound = {(out == deb.lower_bound).sum()}/{(out == deb.upper_bound).sum()}, "
              f"round(n*P) = {exp['lower'][0]}/{exp['upper'][0]}")
    elif kind == "masked":
        _masked_run(fi, problems, res)
    elif kind == "mask":
        x = np.array(fi["cm_future_sorted"], dtype=float)
        f = (ISIMIP._step6_get_mask_for_entries_to_set_to_lower_bound if fi["side"] == "lower"
             else ISIMIP._step6_get_mask_for_entries_to_set_to_upper_bound)
        try:
            m = np.asarray(f(fi["nr"], x))
            print(f"mask({fi['nr']}, {x.tolist()}) = {mstr(m)}")
            if int(m.sum()) != fi["nr"]:
                problems.append(("mask", fi))
        except Exception as ex:  # noqa: BLE001
            print(f"mask({fi['nr']}, {x.tolist()}) raises {type(ex).__name__}")
            problems.append(("mask", fi))
    elif kind in ("pipeline", "window"):
        try:
            if kind == "pipeline":
                _pipeline_run({k: v for k, v in fi.items() if k != "exception"}, problems, res)
            else:
                print(f"_apply_on_window[{fi['variable']}]: {_window_run(fi, problems, res)}")
        except Exception as ex:  # noqa: BLE001
            if not raised_in_real_code(ex):
                raise
            print(f"the real code raises {type(ex).__name__}: {str(ex)[:200]}")
            problems.append((f"raises {type(ex).__name__} on well-formed series", fi))
    else:
        print("unknown failing-input kind", kind)
        return 2
    if problems:
        print(f"VIOLATION property={PROP} reproduced: {problems[0][0]}")
        return 1
    print("not reproduced on the current tree")
    return 0
