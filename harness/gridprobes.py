"""
Probe debiasers for the grid map (C05, C13) — defined at module level of an importable module so that
multiprocessing can pickle the bound `apply_location` that `parallel_map_over_locations` hands to the pool —
and the helpers shared by harness/c05.py and harness/c13.py.

The probes' `apply_location` is the location function `probe` of lean/drivers/DrvGrid.lean:
markers in the first element of the driving column (cm_future; obs for DeltaChange) select the failure modes
    99 -> raise ProbeError("…")   98 -> raise ProbeError2("…")   95 -> bare `assert` (no args)   94 -> raise ProbeError() (no args)
    93 -> raise ProbeError2(42, None) (non-string args)   92 -> exception whose __str__ raises   91 -> raise ProbeError("")
    97 -> series of the wrong length (T+1)      96 -> series of length 1
otherwise   out[k] = 10^6 * drive[k] + 10^3 * wsum(a) + wsum(b),   wsum(x) = sum_k (k+1) x[k]
(drive, a, b) = (cm_future, obs, cm_hist), for DeltaChange (obs, cm_hist, cm_future).  With data in 0..9 and at
most 6 time steps every value is an integer < 2^24: exact in float32 and float64.
"""
import contextlib
import itertools
import multiprocessing
import os
import warnings

from harness import common as C  # noqa: F401  (sets IBICUS_VERIF / sys.path before ibicus is imported)

import attrs  # noqa: E402
import numpy as np  # noqa: E402
from ibicus.debias import DeltaChange  # noqa: E402
from ibicus.debias._debiaser import Debiaser  # noqa: E402
from ibicus.debias._running_window_debiaser import RunningWindowDebiaser  # noqa: E402

M_ERR, M_ERR2, M_LONG, M_ONE = 99, 98, 97, 96
# further *shapes* of exceptions a user-defined debiaser realistically raises (all derive from Exception; classes derived
# directly from BaseException — KeyboardInterrupt, SystemExit — are not caught by `except Exception` and are out of scope)
M_ASSERT, M_NOARGS, M_NONSTR, M_STRRAISES, M_EMPTY = 95, 94, 93, 92, 91
# marker -> exception class name (what lean/drivers/DrvGrid.lean prints for that marker)
ERRNAME = {M_ERR: "ProbeError", M_ERR2: "ProbeError2", M_ASSERT: "AssertionError", M_NOARGS: "ProbeError",
           M_NONSTR: "ProbeError2", M_STRRAISES: "StrRaises", M_EMPTY: "ProbeError"}
ERRSHAPE = {M_ERR: "message", M_ERR2: "message, other class", M_ASSERT: "bare assert (no args)", M_NOARGS: "raise ProbeError() (no args)",
            M_NONSTR: "non-string args (42, None)", M_STRRAISES: "__str__ raises, no args", M_EMPTY: "empty message"}
# order in which the shapes are dealt out to the failing cells of a subset: neighbours get different classes
ERR_CYCLE = (M_ERR, M_ASSERT, M_ERR2, M_NOARGS, M_STRRAISES, M_NONSTR, M_EMPTY)
NPROCS_QUICK = (1, 2, 3, 5)
# exception OBJECTS that cannot be sent through a process pool's result pipe (pickle.dumps of the object fails): a class defined
# inside the function that raises it, arguments holding a lambda / a lock.  Perfectly legal for a user-defined debiaser; they are
# NOT in ERR_CYCLE and never reach lean/drivers/DrvGrid.lean (the model's error value is abstract; picklability is runtime-only).
# With failsafe=False under a pool Python itself replaces such an exception by multiprocessing.pool.MaybeEncodingError.
M_LOCALCLS, M_LAMBDA, M_LOCK = 90, 89, 88
UNPICKLABLE = (M_LOCALCLS, M_LAMBDA, M_LOCK)
ERRNAME.update({M_LOCALCLS: "LocalError", M_LAMBDA: "ProbeError", M_LOCK: "ProbeError2"})
ERRSHAPE.update({M_LOCALCLS: "unpicklable: class defined inside the raising function", M_LAMBDA: "unpicklable: a lambda among the args",
                 M_LOCK: "unpicklable: a lock among the args"})


class ProbeError(Exception):
    pass


class ProbeError2(Exception):
    pass


class StrRaises(Exception):
    """an exception that cannot be rendered"""

    def __str__(self):
        raise RuntimeError("this exception has no text")

    __repr__ = Exception.__repr__


def wsum(x):
    return float(np.dot(np.arange(1, x.size + 1, dtype=np.float64), x.astype(np.float64)))


def encode(drive, a, b, shift=0):
    d0 = drive[0] if drive.size else None
    if d0 == M_ERR:
        raise ProbeError("probe marker 99")
    if d0 == M_ERR2:
        raise ProbeError2("probe marker 98")
    if d0 == M_ASSERT:
        assert d0 != M_ASSERT  # message-less AssertionError: e.args == ()
    if d0 == M_NOARGS:
        raise ProbeError()
    if d0 == M_NONSTR:
        raise ProbeError2(42, None)
    if d0 == M_STRRAISES:
        raise StrRaises()
    if d0 == M_EMPTY:
        raise ProbeError("")
    if d0 == M_LOCALCLS:
        class LocalError(ValueError):
            pass

        raise LocalError("probe marker 90")
    if d0 == M_LAMBDA:
        raise ProbeError("probe marker 89", lambda x: x)
    if d0 == M_LOCK:
        import threading

        raise ProbeError2("probe marker 88", threading.Lock())
    if d0 == M_LONG:
        return np.zeros(drive.size + 1, dtype=drive.dtype)
    if d0 == M_ONE:
        return np.array([7], dtype=drive.dtype)
    return 1000000 * drive + 1000 * wsum(a) + wsum(b) + shift


@attrs.define(slots=False)
class GridProbe(Debiaser):
    """user-defined debiaser: a direct subclass of Debiaser that implements exactly what the class docstring asks for
    (from_variable, apply_location) and nothing else — in particular no __attrs_post_init__ (finding F20: Debiaser.apply
    calls that hook, the base class has to provide it)"""

    @classmethod
    def from_variable(cls, variable, **kwargs):
        return cls(**kwargs)

    def apply_location(self, obs, cm_hist, cm_future, shift=0):
        return encode(cm_future, obs, cm_hist, shift)


@attrs.define(slots=False)
class GridProbeDC(DeltaChange):
    """DeltaChange with a probe location function: exercises DeltaChange.apply (obs-shaped output)"""

    def apply_location(self, obs, cm_hist, cm_future, shift=0):
        return encode(obs, cm_hist, cm_future, shift)


@attrs.define(slots=False)
class WindowProbe(RunningWindowDebiaser):
    """user-defined running-window debiaser: raises when it meets the marker value inside a window's cm_future sample"""

    @classmethod
    def from_variable(cls, variable, **kwargs):
        return cls(**kwargs)

    def apply_on_window(self, obs, cm_hist, cm_future, **kwargs):
        if (cm_future == M_ERR).any():
            raise ProbeError("marker in this window")
        if (cm_future == M_ERR2).any():
            raise ValueError("marker 98 in this window")  # a user-defined failure of a built-in exception class
        return cm_future + (obs.mean() - cm_hist.mean())


@attrs.define(slots=False)
class CountingProbe(Debiaser):
    """a user-defined debiaser that is NOT pure: it counts its calls and lets the count leak into the result.  Ties the
    instance-state / chunk model (Model.Grid.applySerialSt / applyParallelSt) to what the real loop and the real pool do"""

    calls: int = attrs.field(default=0)

    @classmethod
    def from_variable(cls, variable, **kwargs):
        return cls(**kwargs)

    def apply_location(self, obs, cm_hist, cm_future):
        s = self.calls
        self.calls = s + 1  # also when the call raises below
        return encode(cm_future, obs, cm_hist, shift=s)


def real_chunks(k, n):
    """lengths of the task chunks the real pool cuts n tasks into"""
    from multiprocessing.pool import Pool

    return [len(x[1]) for x in Pool._get_tasks(abs, range(n), k)]


def real_default_chunksizes(p, ns):
    """the chunk size a real Pool(p) chooses for n tasks (read off the MapResult it creates)"""
    from multiprocessing import Pool

    out = {}
    with Pool(processes=p) as pool:
        for n in ns:
            r = pool.map_async(abs, range(n))
            out[n] = r._chunksize
            r.get()
    return out


def make(kind):
    return GridProbe() if kind == "deb" else GridProbeDC(delta_type="additive")


def start_method():
    return multiprocessing.get_start_method()


# ------------------------------------------------------------------ running the real code
def run_apply(deb, obs, hist, fut, parallel=False, nproc=1, failsafe=False, progressbar=False, **kw):
    """real `apply`; returns ('ok', array) | ('error', exception class name, message).  nproc=None: nr_processes is not passed
    (the library default, 4)"""
    if nproc is not None:
        kw = {"nr_processes": nproc, **kw}
    with warnings.catch_warnings(), open(os.devnull, "w") as devnull, contextlib.redirect_stderr(devnull):  # tqdm writes to stderr
        warnings.simplefilter("ignore")
        try:
            out = deb.apply(obs, hist, fut, progressbar=progressbar, parallel=parallel, failsafe=failsafe, **kw)
        except Exception as ex:  # noqa: BLE001
            return ("error", type(ex).__name__, safe_str(ex))
    return ("ok", out)


def safe_str(ex):
    try:
        return str(ex)[:160]
    except Exception:  # noqa: BLE001
        return "<unprintable %s>" % type(ex).__name__


def canon(r):
    """canonical text of a real result, comparable with DrvGrid's output"""
    if r[0] == "error":
        return "error " + r[1]
    x = np.asarray(r[1]).ravel()
    return "ok " + (",".join("nan" if np.isnan(v) else str(int(v)) for v in x) if x.size else "-")


def stacked(deb, obs, hist, fut, out_T, dtype, **kw):
    """the property's right-hand side: apply_location on every cell's three columns alone, stacked.
    returns (array | None, {cell: exception}) — cells that raise are left NaN.
    deb may be a factory (callable): then every cell gets a FRESH instance, so that nothing one cell leaves behind in the
    instance can reach another cell's reference"""
    nx, ny = obs.shape[1:]
    ref = np.full((out_T, nx, ny), np.nan, dtype=dtype)
    errs = {}
    with warnings.catch_warnings():
        warnings.simplefilter("ignore")
        for i in range(nx):
            for j in range(ny):
                try:
                    d = deb() if callable(deb) else deb
                    ref[:, i, j] = d.apply_location(obs[:, i, j].copy(), hist[:, i, j].copy(), fut[:, i, j].copy(), **kw)
                except Exception as ex:  # noqa: BLE001
                    errs[(i, j)] = ex
    return ref, errs


def same(a, b):
    return a.shape == b.shape and a.dtype == b.dtype and np.array_equal(a, b, equal_nan=True)


def grid_line(kind, mode, failsafe, obs, hist, fut, sched):
    nx, ny = obs.shape[1:]
    return (f"grid {kind} {mode} {int(failsafe)} {nx} {ny} {obs.shape[0]} {hist.shape[0]} {fut.shape[0]} "
            f"{C.ilist(obs.ravel())} {C.ilist(hist.ravel())} {C.ilist(fut.ravel())} {C.ilist(sched)}")


def rand_data(nprs, T, nx, ny, dtype):
    return nprs.randint(0, 10, size=(T, nx, ny)).astype(dtype)


def subsets(cells, max_size=None):
    for r in range(len(cells) + 1):
        if max_size is not None and r > max_size:
            break
        for s in itertools.combinations(cells, r):
            yield s


# ------------------------------------------------------------------ real deterministic debiasers on tiny grids
def real_debiasers():
    """name -> factory; windows off for speed, deterministic configurations"""
    import scipy.stats
    from ibicus.debias import (CDFt, ECDFM, ISIMIP, LinearScaling, QuantileDeltaMapping, QuantileMapping,
                               ScaledDistributionMapping)

    off = dict(running_window_mode=False)
    yoff = dict(running_window_mode=False, running_window_mode_over_years_of_cm_future=False)
    return {
        "LinearScaling": lambda: LinearScaling.from_variable("tas", **off),
        "QuantileMapping": lambda: QuantileMapping.from_variable("tas", **off),
        "ECDFM": lambda: ECDFM.from_variable("tas", distribution=scipy.stats.norm, **off),
        "CDFt": lambda: CDFt.from_variable("tas", **yoff),
        "QuantileDeltaMapping": lambda: QuantileDeltaMapping.from_variable("tas", **yoff),
        "ScaledDistributionMapping": lambda: ScaledDistributionMapping.from_variable("tas", **off),
        "ISIMIP": lambda: ISIMIP.from_variable("tas", **off),
        "DeltaChange": lambda: DeltaChange.from_variable("tas", **off),
    }


def more_debiasers():
    """name -> factory: the deterministic precipitation debiaser whose fit runs an optimiser (QuantileDeltaMapping pr: censored gamma,
    Nelder-Mead; fit + ppf only), and running-window debiasers that need the time arrays passed through apply(**kwargs)"""
    import scipy.stats
    from ibicus.debias import ISIMIP, LinearScaling, QuantileDeltaMapping, QuantileMapping, ScaledDistributionMapping

    yoff = dict(running_window_mode=False, running_window_mode_over_years_of_cm_future=False)
    rw = dict(running_window_mode=True, running_window_length=31, running_window_step_length=7)
    return {
        "pr/QuantileDeltaMapping": lambda: QuantileDeltaMapping.from_variable("pr", **yoff),
        "pr/ScaledDistributionMapping": lambda: ScaledDistributionMapping.from_variable("pr", running_window_mode=False),  # relative SDM, scipy gamma
        "rw/QuantileMapping": lambda: QuantileMapping.from_variable("tas", **rw),
        "rw/WindowProbe": lambda: WindowProbe(**rw),
        "rw/DeltaChange": lambda: DeltaChange.from_variable("tas", **rw),
        "rw/LinearScaling": lambda: LinearScaling.from_variable("tas", **rw),
        # ISIMIP with the distributions that step 6 treats specially (weibull_min, rice), with and without BOTH thresholds; month-wise
        "isimip/sfcWind-both": lambda: ISIMIP.from_variable("sfcWind", upper_bound=60.0, upper_threshold=59.99, running_window_mode=False),
        "isimip/rice-both": lambda: ISIMIP.from_variable("sfcWind", distribution=scipy.stats.rice, upper_bound=60.0, upper_threshold=59.99,
                                                         running_window_mode=False),
        "isimip/sfcWind-stock": lambda: ISIMIP.from_variable("sfcWind", running_window_mode=False),
        "isimip/tasrange-stock": lambda: ISIMIP.from_variable("tasrange", running_window_mode=False),
        "isimip/tasrange-both": lambda: ISIMIP.from_variable("tasrange", upper_bound=60.0, upper_threshold=59.99, running_window_mode=False),
    }


def wind_grid(nprs, T, nx, ny, scale, k):
    """wind-speed-like data strictly inside (lower threshold, upper threshold) of the configurations above: nothing is randomised"""
    return np.clip(scale * nprs.weibull(k, size=(T, nx, ny)), 0.05, 55.0)


def pickle_roundtrip_differs(mk, o, h, f, **kw):
    """the debiaser after pickle.loads(pickle.dumps(.)) — what a pool worker receives — must treat a location exactly like the original.
    returns None or a description of the difference"""
    import pickle

    def run(d):
        with warnings.catch_warnings():
            warnings.simplefilter("ignore")
            try:
                return ("ok", d.apply_location(o.copy(), h.copy(), f.copy(), **kw))
            except Exception as ex:  # noqa: BLE001
                return ("error", type(ex).__name__)

    try:
        clone = pickle.loads(pickle.dumps(mk()))
    except Exception as ex:  # noqa: BLE001
        return f"the debiaser cannot be pickled ({type(ex).__name__}: {safe_str(ex)[:80]})"
    a, b = run(mk()), run(clone)
    if a[0] != b[0] or (a[0] == "error" and a[1] != b[1]):
        return f"original: {a[0]} {a[1] if a[0] == 'error' else ''}, pickled copy: {b[0]} {b[1] if b[0] == 'error' else ''}"
    if a[0] == "ok" and not (np.shape(a[1]) == np.shape(b[1]) and np.array_equal(a[1], b[1], equal_nan=True)):
        d = np.abs(np.asarray(a[1], dtype=float) - np.asarray(b[1], dtype=float)) if np.shape(a[1]) == np.shape(b[1]) else None
        return "results differ" + (f" in {int((d > 0).sum())} of {d.size} values, max |diff| {np.nanmax(d):.3g}" if d is not None else " in shape")
    return None


LAYOUTS = ("C", "F", "stored[x,y,t]", "stored[y,x,t]", "strided")


def relayout(a, kind):
    """the same logical (t, x, y) array in another memory layout"""
    if kind == "F":
        out = np.asfortranarray(a)
    elif kind == "stored[x,y,t]":  # e.g. netCDF [lat, lon, time] moved to time-first
        out = np.ascontiguousarray(a.transpose(1, 2, 0)).transpose(2, 0, 1)
    elif kind == "stored[y,x,t]":  # data stored [y, x, time] and passed as data.T
        out = np.ascontiguousarray(a.transpose(2, 1, 0)).T
    elif kind == "strided":
        big = np.zeros((2 * a.shape[0], a.shape[1] + 1, 2 * a.shape[2]), dtype=a.dtype)
        out = big[::2, 1:, ::2]
        out[...] = a
    else:
        out = np.ascontiguousarray(a)
    assert out.shape == a.shape and np.array_equal(out, a, equal_nan=True)
    return out


ALIASES = ("cm_future is cm_hist", "cm_hist is obs", "cm_hist and cm_future are overlapping slices of one array",
           "cm_hist is a slice of cm_future", "obs and cm_hist are overlapping slices of one array")


def alias_args(alias, o, h, f, n0=0):
    """fresh arrays with the given memory relation between the arguments, carrying the logical values (o, h, f).
    overlapping slices: x = buf[:len(x)], y = buf[n0:] of one buffer (the logical values must agree on the overlap)"""
    o, h, f = o.copy(), h.copy(), f.copy()
    if alias == "cm_future is cm_hist":
        return o, h, h
    if alias == "cm_hist is obs":
        return o, o, f
    if alias == "cm_hist and cm_future are overlapping slices of one array":
        buf = np.concatenate([h[:n0], f])
        return o, buf[: h.shape[0]], buf[n0:]
    if alias == "cm_hist is a slice of cm_future":
        return o, f[: h.shape[0]], f
    if alias == "obs and cm_hist are overlapping slices of one array":
        buf = np.concatenate([o[:n0], h])
        return buf[: o.shape[0]], buf[n0:], f
    return o, h, f


# which inputs a debiaser hands to `distribution.fit` (tas settings: scipy.stats.norm) — read off the source of apply_on_window
FITTED = {"QuantileMapping": ("obs", "hist"), "rw/QuantileMapping": ("obs", "hist"), "ECDFM": ("obs", "hist", "fut"),
          "ScaledDistributionMapping": ("obs", "hist", "fut"), "QuantileDeltaMapping": ("obs", "hist")}


def fit_rejects(column):
    """independent ground truth for a built-in failure: does scipy's fit reject this series? -> exception class name | None"""
    import scipy.stats

    with warnings.catch_warnings():
        warnings.simplefilter("ignore")
        try:
            scipy.stats.norm.fit(np.asarray(column, dtype=float))
        except Exception as ex:  # noqa: BLE001
            return type(ex).__name__
    return None


def snapshot(deb):
    """the instance's attributes as text (settings and derived objects)"""
    return {k: repr(v) for k, v in vars(deb).items()}


def pr_grid(nprs, T, nx, ny, a, scale):
    import scipy.stats

    x = scipy.stats.gamma.rvs(a=a, scale=scale, size=(T, nx, ny), random_state=nprs) / 86400
    x[nprs.random_sample((T, nx, ny)) < 0.4] = 0.0
    return x


def time_kwargs(starts, lengths):
    """the time_obs / time_cm_hist / time_cm_future arrays of a case: daily dates from the three (ISO) start dates"""
    import datetime

    out = {}
    for key, st, n in zip(("time_obs", "time_cm_hist", "time_cm_future"), starts, lengths):
        d0 = datetime.date.fromisoformat(st)
        out[key] = np.array([d0 + datetime.timedelta(days=k) for k in range(n)], dtype=object)
    return out


def tas_grid(nprs, T, nx, ny, mean, dtype=np.float64):
    return (mean + 3.0 * nprs.standard_normal((T, nx, ny))).astype(dtype)


# ------------------------------------------------------------------ replay support
def pack(obs, hist, fut, prefix=""):
    """the (tiny) input arrays of a failing case, JSON-able"""
    return {prefix + k: {"dtype": str(a.dtype), "shape": list(a.shape), "values": [repr(float(v)) for v in a.ravel()]}
            for k, a in (("obs", obs), ("hist", hist), ("fut", fut))}


def unpack(d, prefix=""):
    return tuple(np.array([float(v) for v in d[prefix + k]["values"]], dtype=np.float64).astype(d[prefix + k]["dtype"]).reshape(d[prefix + k]["shape"])
                 for k in ("obs", "hist", "fut"))


def debiaser_for(case):
    what = str(case.get("what", ""))
    if "/" in what and what.split("/", 1)[0] in ("real", "builtin"):
        name = what.split("/", 1)[1]
        if name == "isimip/tas-windows":
            from ibicus.debias import ISIMIP

            return ISIMIP.from_variable("tas", running_window_step_length=31)
        return {**real_debiasers(), **more_debiasers()}[name]()
    return make(case.get("kind", "deb"))


# ------------------------------------------------------------------ instance histories (C05: call sequences on ONE debiaser instance)
def history_debiasers():
    """name -> factory of the debiasers whose instances are taken through a history (settings assigned after construction, earlier work on
    another data set, copies) before the grid run is judged: every class that derives helper objects in __attrs_post_init__ (running windows
    over days of year / over years) plus the user-defined running-window probe and two that have none"""
    from ibicus.debias import CDFt, ISIMIP, QuantileDeltaMapping

    m, r = more_debiasers(), real_debiasers()
    return {
        "rw/WindowProbe": m["rw/WindowProbe"], "rw/LinearScaling": m["rw/LinearScaling"], "rw/DeltaChange": m["rw/DeltaChange"],
        "rw/QuantileMapping": m["rw/QuantileMapping"],
        "isimip/tas-windows": lambda: ISIMIP.from_variable("tas", running_window_step_length=31),
        "yw/CDFt": lambda: CDFt.from_variable("tas", running_window_step_length=31),
        "yw/QuantileDeltaMapping": lambda: QuantileDeltaMapping.from_variable("tas", running_window_step_length=31),
        "LinearScaling": r["LinearScaling"], "DeltaChange": r["DeltaChange"], "ISIMIP": r["ISIMIP"],
    }


# settings a user may assign on an existing instance (attrs validates on assignment); apply re-derives the helper objects from them
HISTORY_SETTINGS = {
    "running_window_mode": (True, False),
    "running_window_length": (11, 31, 61, 91),
    "running_window_step_length": (1, 5, 7, 11),
    "running_window_mode_over_years_of_cm_future": (True, False),
    "running_window_over_years_of_cm_future_length": (1, 3, 17),
    "running_window_over_years_of_cm_future_step_length": (1, 3),
    "delta_type": ("additive", "multiplicative"),
}


def history_time_kwargs(starts, lengths, time_type="date"):
    """time arrays of a history data set: None -> no time arrays (the library infers dates from a 1 January); 'datetime64' -> numpy dates"""
    if starts is None:
        return {}
    kw = time_kwargs(starts, lengths)
    if time_type == "datetime64":
        kw = {k: np.array([np.datetime64(d.isoformat()) for d in v], dtype="datetime64[D]") for k, v in kw.items()}
    return kw


def seasonal_grid(nprs, T, nx, ny, mean, start=None):
    """temperature-like data with an annual cycle (so that the placement of the running windows in the year matters)"""
    import datetime

    d0 = datetime.date.fromisoformat(start).timetuple().tm_yday if start else 1
    return mean + 8.0 * np.sin(2 * np.pi * (np.arange(T) + d0) / 365.25)[:, None, None] + 3.0 * nprs.standard_normal((T, nx, ny))
