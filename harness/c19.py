"""C19 — threshold metrics count and accumulate exactly what their definition says.

Tie: tier B only.  `metrics.py` is an array pipeline (broadcasting, pandas merge, einsum, fancy indexing,
`np.diff(np.where(np.concatenate(...)))[::2]`): none of it is in the tier-A translator's straight-line
arithmetic subset, so every public method of ThresholdMetric / AccumulativeThresholdMetric is run in-process
and compared with the executable model (`lean/drivers/DrvMetrics.lean` over `Model/Metrics.lean`), on which
the theorems of `Props/C19.lean` are stated.  The property's own oracle (conservation sums, positivity,
ranges, dataset bytes, quantile frequencies, an independent loop-level reference of the defining comparison)
is evaluated on the same real runs.
"""
import datetime
import math
import random
import warnings
from fractions import Fraction

import numpy as np

from harness import common as C
from harness import probes

PROP = "C19"
TARGETS = ["IbicusModel.Props.C19", "IbicusModel.Lemmas.GenMetrics", "IbicusModel.Props.C19Gen"]  # the audit imports all three
GEN = ["Metrics"]  # tier A: dispatch, spell expression, per-location formulas of metrics.py (translator/extract_metrics.py)
# calendar tier A: day_of_year / month / year / season / inferred dates / yearly means as data (translator/extract_calendar.py)
TARGETS += ["IbicusModel.Lemmas.GenCalendarFns"]
TARGETS += ["IbicusModel.Lemmas.GenMetrics2", "IbicusModel.Props.C19Gen2"]  # tier A part 2: clusters, spatial extent, quantile by locality, annual loop nest
GEN += ["CalendarFns"]

SEASON_CODE = {"Winter": 0, "Spring": 1, "Summer": 2, "Autumn": 3}
SHAPES = [(1, 1), (2, 3), (3, 1), (1, 3), (1, 2), (2, 1)]  # singleton grid dimensions on either axis included
TYPES = ["higher", "lower", "between", "outside"]
SCOPES = ["overall", "day", "month", "season"]
FIELDS = ["inst", "filt", "prob", "years", "annual", "spells", "extent", "clusters", "pct", "annualv", "intensity", "alias"]


# ------------------------------------------------------------------ helpers
def fr(x):
    return Fraction(float(x))


def close(a, b, scale=1.0):
    return abs(a - b) <= 1e-9 * (1 + scale)


def is_outcome(r, text):
    """`r` (a result of run_real: an array, or the string 'error <Exc>') is exactly the outcome string `text`.
    Never compare a result with `==` / `!=` directly: for an array that is an element-wise comparison whose truth value
    raises, and an exception in the oracle code would hide the finding (a result where an error is demanded)."""
    return isinstance(r, str) and r == text


def as_date(t):
    """a python date for a datetime.date / datetime.datetime / np.datetime64 entry"""
    if isinstance(t, np.datetime64):
        return t.astype("datetime64[D]").astype(object)
    return t


def season_of_month(mth):
    """the documented seasons: DJF = Winter, MAM = Spring, JJA = Summer, SON = Autumn"""
    return {12: "Winter", 1: "Winter", 2: "Winter", 3: "Spring", 4: "Spring", 5: "Spring",
            6: "Summer", 7: "Summer", 8: "Summer", 9: "Autumn", 10: "Autumn", 11: "Autumn"}[mth]


def groups_of(time, scope):
    """time groups computed INDEPENDENTLY of ibicus (python datetime: tm_yday, .month, the documented DJF/MAM/JJA/SON
    rule): real dict keys and integer codes for the driver.  `check_calendar` compares ibicus.utils with these."""
    ds = [as_date(t) for t in time]
    if scope == "day":
        g = [d.timetuple().tm_yday for d in ds]
        return g, list(g)
    if scope == "month":
        g = [d.month for d in ds]
        return g, list(g)
    if scope == "season":
        g = [season_of_month(d.month) for d in ds]
        return g, [SEASON_CODE[v] for v in g]
    return None, None


def years_of(time):
    return [as_date(t).year for t in time]


def check_calendar(time, problems_all, res, kind="date"):
    """ibicus.utils.day_of_year / month / season / year on this time axis, handed over in the encoding `kind`
    (probes.present: date, datetime, datetime64[D|h|s|ns] stamped 13:00, a type without timetuple), against the
    independent calendar of the python dates `time`"""
    from ibicus import utils

    res.extra["calendar_axes_checked"] = res.extra.get("calendar_axes_checked", 0) + 1
    shown = time if kind == "date" else probes.present(time, kind)
    real = {}
    with warnings.catch_warnings():
        warnings.simplefilter("ignore")
        for scope, f in (("day", utils.day_of_year), ("month", utils.month), ("season", utils.season), ("year", utils.year)):
            try:
                real[scope] = [str(v) if scope == "season" else int(v) for v in f(shown)]
            except Exception as e:  # noqa: BLE001
                problems_all.append(("time_groups", f"utils.{'day_of_year' if scope == 'day' else scope} raises {type(e).__name__} on a supported time encoding ({kind})",
                                     {"what": "time_groups", "scope": scope, "date": str(as_date(time[0])), "encoding": kind}, 1))
    for scope in real:
        want = years_of(time) if scope == "year" else groups_of(time, scope)[0]
        if real[scope] != want:
            k = next(i for i in range(len(want)) if real[scope][i] != want[i])
            problems_all.append(("time_groups", f"utils.{'day_of_year' if scope == 'day' else scope}({shown[k]!r}) = {real[scope][k]!r}, "
                                 f"the calendar says {want[k]!r}: the per-{scope} threshold scope / annual split is evaluated on the wrong groups",
                                 {"what": "time_groups", "scope": scope, "date": str(as_date(time[k])), "encoding": kind, "position": k,
                                  "ibicus": real[scope][k], "calendar": want[k]}, 1))


def enc_thr(loc, v):
    if loc == "global":
        return C.rat(v)
    return C.rlist(np.asarray(v).ravel())


def enc_spec(scope, loc, value, code_of):
    """value: Fraction | (I,J) array of Fractions | {real key: one of those}"""
    lc = "g" if loc == "global" else "l"
    if scope == "overall":
        return f"o:{lc}:{enc_thr(loc, value)}"
    body = ";".join(f"{code_of(k)}={enc_thr(loc, v)}" for k, v in value.items())
    return f"t:{lc}:{body or '-'}"


def real_thr(loc, v):
    if loc == "global":
        return float(v)
    return np.array([[float(e) for e in row] for row in v])


def real_spec(scope, loc, value):
    if scope == "overall":
        return real_thr(loc, value)
    if loc == "global":
        return {k: float(v) for k, v in value.items()}
    return {k: [real_thr(loc, v)] for k, v in value.items()}  # the form from_quantile produces


# ------------------------------------------------------------------ thresholds in every Python / numpy type the metric accepts
# Quantifier covered: "for all ... configurations" of the clause "the instance array equals the defining comparison
# (global or per-location thresholds; overall or per day/month/season)".  A configuration is what the USER writes:
# the library documents `threshold_value = 295` and `{"Winter": 290, "Spring": 292, ...}` (Python ints), its validator
# accepts int / float (np.float64 is a float) for global and np.ndarray / list for local thresholds, and from_quantile
# produces np.float64 values under np.int64 / np.str_ keys.  `real_spec` above hands every threshold over as a Python
# float (float64 array), so a code path that derives the dtype of the threshold column from ONE entry (the first time
# step's int -> every other group's threshold truncated), keeps integer thresholds in an integer array, or narrows
# them to float32 was never exercised.  `typed_spec` presents the SAME rational thresholds (the reference comparison
# and the Lean model keep the exact Fractions) as: Python int where the value is integral ("int": wherever possible,
# "int-some": for every second time group, so ints and floats mix inside one dict in either order), np.float64,
# integer-dtype / float32 arrays, a (1, I, J) array instead of [array(I, J)], and optionally numpy scalar keys.
THR_MODES = {"global": ["int", "int", "int", "int-some", "int-some", "npfloat", "float"],
             "local": ["int", "int", "int-some", "f32", "bare1", "float"]}


def typed_thr(rep, loc, v, code, wrap):
    mode, salt = rep["mode"], rep.get("salt", 0)
    as_int = mode == "int" or (mode == "int-some" and (code + salt) % 2 == 0)
    if loc == "global":
        v = Fraction(v)
        if mode == "npfloat":
            return np.float64(float(v))
        return int(v) if (as_int and v.denominator == 1) else float(v)
    a = np.array([[float(e) for e in row] for row in v])
    if as_int and all(Fraction(e).denominator == 1 for row in v for e in row):
        a = a.astype(np.int64 if salt == 0 else np.int32)
    elif mode == "f32" and np.array_equal(a.astype(np.float32).astype(np.float64), a):  # only where float32 is exact
        a = a.astype(np.float32)
    if not wrap:
        return a
    return a[None] if mode == "bare1" else [a]


def typed_spec(case, value):
    """the thresholds `value` (Fractions, layout of gen_case) as the objects a user would write, per case['thr_repr']"""
    rep, scope, loc = case["thr_repr"], case["scope"], case["loc"]
    if scope == "overall":
        return typed_thr(rep, loc, value, 0, False)

    def key(k):
        if not rep.get("np_keys"):
            return k
        return np.str_(k) if scope == "season" else np.int64(k)

    return {key(k): typed_thr(rep, loc, v, case["code_of"](k), True) for k, v in value.items()}


def typed_case(rng, tier):
    """a well-formed case of gen_case whose thresholds are integers or non-integers (both signs) in a random mix,
    presented in a random accepted type, and whose data lie on / within one unit of / beyond the threshold that applies
    to each entry — so every entry is sensitive to a threshold that lost its fraction (trunc, floor, round) or moved"""
    scoped = rng.random() < 0.75
    case = gen_case(rng, tier)
    while (case["expect_error"] or case["T"] > 80 or case["T"] * case["I"] * case["J"] > 120
           or (case["scope"] != "overall") != scoped):
        case = gen_case(rng, tier)
    if rng.random() < 0.35 and case["loc"] == "local":  # global thresholds (the documented examples) more often
        case["loc"] = "global"
    I, J, loc = case["I"], case["J"], case["loc"]
    fracs = [Fraction(1, 2), Fraction(1, 4), Fraction(3, 4), Fraction(1, 64), Fraction(63, 64), Fraction(33, 64), Fraction(31, 64)]

    def scalar(integral):
        n = Fraction(rng.randint(-3, 6))
        return n if integral else n + rng.choice(fracs)

    def one():
        if loc == "global":
            return scalar(rng.random() < 0.5)
        whole = rng.random() < 0.5  # an array can only be of integer dtype if every entry is integral
        return [[scalar(whole or rng.random() < 0.5) for _ in range(J)] for _ in range(I)]

    def spec(old):
        return one() if case["scope"] == "overall" else {k: one() for k in old}

    def order2(a, b):
        if loc == "global":
            return (min(a, b), max(a, b))
        lo = [[min(a[i][j], b[i][j]) for j in range(J)] for i in range(I)]
        hi = [[max(a[i][j], b[i][j]) for j in range(J)] for i in range(I)]
        return lo, hi

    v0 = spec(case["v0"])
    v1 = spec(case["v1"]) if case["v1"] is not None else None
    if v1 is not None and rng.random() < 0.8:
        if case["scope"] == "overall":
            v0, v1 = order2(v0, v1)
        else:
            for k in list(v0):
                if k in v1:
                    v0[k], v1[k] = order2(v0[k], v1[k])
    case["v0"], case["v1"] = v0, v1

    def thr(v, t, i, j):
        if case["scope"] != "overall":
            v = v[case["keys_real"][t]]
        return v if loc == "global" else v[i][j]

    offs = [Fraction(0), Fraction(1, 64), Fraction(1, 4), Fraction(1, 2), Fraction(3, 4), Fraction(1), Fraction(65, 64), Fraction(2)]
    vals = []
    for t in range(case["T"]):
        for i in range(I):
            for j in range(J):
                v = v0 if (v1 is None or rng.random() < 0.5) else v1
                vals.append(thr(v, t, i, j) + rng.choice([-1, 1]) * rng.choice(offs))
    case["vals"] = vals
    case["x"] = np.array([float(v) for v in vals]).reshape(case["T"], I, J)
    case["thr_repr"] = {"mode": rng.choice(THR_MODES[loc]), "salt": rng.randint(0, 1), "np_keys": rng.random() < 0.3}
    case["style"] = "typed-" + case["thr_repr"]["mode"]
    return case


# ------------------------------------------------------------------ case generation
ORDERS = ["sorted"] * 9 + ["shuffled", "shuffled", "descending", "descending", "year-blocks", "year-blocks", "two-runs", "two-runs", "rotated"]


def reorder(rng, dates, order):
    """the same calendar days in another STORAGE order (nothing in the property depends on chronological storage)"""
    dates = list(dates)
    if order == "shuffled":
        rng.shuffle(dates)
    elif order == "descending":
        dates.reverse()
    elif order == "year-blocks":  # yearly blocks concatenated out of order (2000, 2002, 2001)
        ys = sorted({d.year for d in dates})
        perm = ys[:]
        rng.shuffle(perm)
        if perm == ys and len(ys) > 1:
            perm = ys[1:] + ys[:1]
        dates = [d for y in perm for d in dates if d.year == y]
    elif order == "two-runs" and len(dates) >= 2:  # two runs over the same period concatenated
        h = dates[: len(dates) // 2]
        dates = h + h + ([dates[-1]] if len(dates) % 2 else [])
    elif order == "rotated" and len(dates) >= 2:
        k = rng.randint(1, len(dates) - 1)
        dates = dates[k:] + dates[:k]
    return dates


def gen_time(rng, tier):
    kind = rng.choice(["one", "tiny", "tiny", "small", "small", "small", "sparse", "sparse", "year", "multi"])
    step = 1
    if kind == "one":
        T = 1
    elif kind == "tiny":
        T = rng.randint(2, 12)
        step = rng.choice([1, 1, 1, 1, 2, 7])
    elif kind == "small":
        T = rng.randint(13, 70)
        step = rng.choice([1, 1, 1, 1, 2, 7])
    elif kind == "sparse":  # few steps over several years
        T = rng.randint(4, 40)
        step = rng.randint(40, 200)
    elif kind == "year":
        T = rng.randint(300, 420)
    else:
        T = rng.randint(421, 800)
    start = datetime.date(rng.randint(1960, 2060), 1, 1) + datetime.timedelta(days=rng.randint(0, 365))
    dates = [start + datetime.timedelta(days=k * step) for k in range(T)]
    order = rng.choice(ORDERS)
    dates = reorder(rng, dates, order)
    return kind, order, np.array(dates, dtype=object)


def gen_data(rng, T, I, J):
    style = rng.choice(["narrow", "narrow", "dyadic", "dyadic", "nonneg", "nonneg", "constant", "zeros"])
    n = T * I * J
    if style == "narrow":
        vals = [Fraction(rng.randint(0, 4)) for _ in range(n)]
    elif style == "dyadic":
        vals = [Fraction(rng.randint(-256, 256), 64) for _ in range(n)]
    elif style == "nonneg":
        vals = [Fraction(max(0, rng.randint(-200, 300)), 64) for _ in range(n)]
    elif style == "constant":
        c = Fraction(rng.randint(-64, 64), 16)
        vals = [c] * n
    else:
        vals = [Fraction(0)] * n
    x = np.array([float(v) for v in vals]).reshape(T, I, J)
    return style, vals, x


def gen_value(rng, pool, loc, I, J, force):
    def one():
        if force == "below":
            return pool[0] - 1
        if force == "above":
            return pool[-1] + 1
        r = rng.random()
        if r < 0.55:
            return rng.choice(pool)  # a tie with a data value
        if r < 0.8:
            a, b = rng.choice(pool), rng.choice(pool)
            return (a + b) / 2
        return rng.choice([pool[0] - 1, pool[-1] + 1, pool[0], pool[-1]])

    if loc == "global":
        return one()
    return [[one() for _ in range(J)] for _ in range(I)]


def gen_case(rng, tier):
    I, J = rng.choice(SHAPES)
    tkind, order, time = gen_time(rng, tier)
    T = time.size
    time_kind = probes.pick_kind(rng)
    style, vals, x = gen_data(rng, T, I, J)
    ty, loc, scope = rng.choice(TYPES), rng.choice(["global", "local"]), rng.choice(SCOPES)
    pool = sorted(set(vals))
    force = rng.choice([None] * 8 + ["below", "above"])
    keys_real, codes = groups_of(time, scope)
    code_of = (lambda k: SEASON_CODE[k]) if scope == "season" else (lambda k: int(k))
    expect_error = None

    def spec():
        if scope == "overall":
            return gen_value(rng, pool, loc, I, J, force)
        present = list(dict.fromkeys(keys_real))
        keys = list(present)
        # the dict usually covers MORE groups than the evaluated period contains (thresholds come from a reference
        # period; the evaluated one is sub-annual / starts mid-year / lacks a season): all groups of the calendar, or
        # a random set of absent ones (sorting before, between and after the present ones)
        domain = {"day": list(range(1, 367)), "month": list(range(1, 13)), "season": list(SEASON_CODE)}[scope]
        absent = [k for k in domain if k not in set(present)]
        r = rng.random()
        if r < 0.4:
            keys += absent
        elif r < 0.7 and absent:
            keys += rng.sample(absent, rng.randint(1, len(absent)))
        if rng.random() < 0.2 and scope != "season":  # a key outside the calendar is harmless too
            keys.append({"day": 400, "month": 13}[scope])
        rng.shuffle(keys)  # dict insertion order carries no meaning
        return {k: gen_value(rng, pool, loc, I, J, force) for k in keys}

    v0 = spec()
    v1 = spec() if ty in ("between", "outside") else None
    if v1 is not None and rng.random() < 0.8:  # mostly lower <= upper (both orders are legal for the code)
        def order2(a, b):
            if loc == "global":
                return (min(a, b), max(a, b))
            lo = [[min(a[i][j], b[i][j]) for j in range(J)] for i in range(I)]
            hi = [[max(a[i][j], b[i][j]) for j in range(J)] for i in range(I)]
            return lo, hi
        if scope == "overall":
            v0, v1 = order2(v0, v1)
        else:
            for k in list(v0.keys()):
                if k in v1:
                    v0[k], v1[k] = order2(v0[k], v1[k])
    time_none = False
    if scope != "overall":
        r = rng.random()
        if r < 0.08:
            victim = rng.choice([v0] if v1 is None else [v0, v1])
            present = [k for k in victim if k in set(keys_real)]
            if present:
                del victim[rng.choice(present)]
                expect_error = "missing-key"
        elif r < 0.14:
            time_none = True
            expect_error = "time-none"
    else:
        time_none = rng.random() < 0.5
    minlen = rng.choice([0, 0, 0, 1, 2, 3, 5])
    return dict(I=I, J=J, T=T, tkind=tkind, order=order, time=time, time_kind=time_kind, time_lib=probes.present(time, time_kind),
                style=style, vals=vals, x=x, ty=ty, loc=loc, scope=scope,
                v0=v0, v1=v1, codes=codes, keys_real=keys_real, code_of=code_of, time_none=time_none, expect_error=expect_error,
                minlen=minlen, force=force)


def gen_big_case(data_seed, kind):
    """more than 2**15 instances along one reduced axis (a long daily series at one location / one day on a large
    grid): counts, probabilities, extents and intensities must be those of the Python integer count"""
    rng = random.Random(data_seed)
    if kind == "time":
        I, J, T = 1, 1, 33000 + rng.randint(0, 1500)
    else:
        I, J, T = 190, 180, rng.choice([1, 2])
    start = datetime.date(rng.randint(1900, 1960), 1, 1) + datetime.timedelta(days=rng.randint(0, 365))
    time = np.array([start + datetime.timedelta(days=k) for k in range(T)], dtype=object)
    n = T * I * J
    nonneg = rng.random() < 0.5
    vals = [Fraction(rng.randint(0 if nonneg else -256, 256), 64) for _ in range(n)]
    x = np.array([float(v) for v in vals]).reshape(T, I, J)
    pool = sorted(set(vals))
    ty = rng.choice(["higher", "lower", "outside"])
    scope = rng.choice(["overall", "month"]) if kind == "time" else "overall"
    keys_real, codes = groups_of(time, scope)
    # (nearly) everything is an instance: the threshold sits at the extreme values of the data
    lo, hi = pool[1], pool[-2]
    one = {"higher": lo, "lower": hi, "outside": hi}[ty]
    two = hi if ty == "outside" else None  # outside [hi, hi]: everything but the ties with hi
    def spec(v):
        return v if scope == "overall" else {k: v for k in range(1, 13)}
    tk = rng.choice(["date", "M8D", "M8h"])
    return dict(I=I, J=J, T=T, tkind="big-" + kind, order="sorted", time=time, time_kind=tk, time_lib=probes.present(time, tk), style="nonneg" if nonneg else "dyadic", vals=vals, x=x,
                ty=ty, loc="global", scope=scope, v0=spec(one), v1=None if two is None else spec(two), codes=codes,
                keys_real=keys_real, code_of=lambda k: int(k), time_none=False, expect_error=None, minlen=0, force=None,
                big=kind, data_seed=data_seed)


def describe(case, with_data=True):
    d = {k: case[k] for k in ("I", "J", "T", "tkind", "order", "time_kind", "style", "ty", "loc", "scope", "time_none", "expect_error", "minlen")}
    if case.get("nonfinite"):
        d["nonfinite"] = case["nonfinite"]
    if case.get("thr_repr"):
        d["thr_repr"] = dict(case["thr_repr"])
    d["time_first"] = str(case["time"][0])
    if case.get("big"):
        d["big"], d["data_seed"] = case["big"], case["data_seed"]
    d["threshold_value"] = enc_spec(case["scope"], case["loc"], case["v0"], case["code_of"]) + (
        "" if case["v1"] is None else " , " + enc_spec(case["scope"], case["loc"], case["v1"], case["code_of"]))
    if with_data and case["T"] * case["I"] * case["J"] <= 120:
        d["data"] = ",".join(C.rat(v) if isinstance(v, Fraction) else str(v) for v in case["vals"])
        d["time"] = [str(t) for t in case["time"]]
    return d


def make_metric(case):
    from ibicus.evaluate.metrics import AccumulativeThresholdMetric

    if case.get("thr_repr"):  # thresholds as ints / np.float64 / integer or float32 arrays / numpy keys (typed_spec)
        tv = typed_spec(case, case["v0"])
        if case["v1"] is not None:
            tv = [tv, typed_spec(case, case["v1"])]
    else:
        tv = real_spec(case["scope"], case["loc"], case["v0"])
        if case["v1"] is not None:
            tv = [tv, real_spec(case["scope"], case["loc"], case["v1"])]
    with warnings.catch_warnings():
        warnings.simplefilter("ignore")
        return AccumulativeThresholdMetric(threshold_value=tv, threshold_type=case["ty"], threshold_scope=case["scope"],
                                           threshold_locality=case["loc"], name="m", variable="v")


# ------------------------------------------------------------------ independent reference of the defining comparison
def ref_instances(case):
    """loop-level evaluation of the property's definition (no numpy broadcasting, exact rationals)"""
    T, I, J = case["T"], case["I"], case["J"]
    vals, ty = case["vals"], case["ty"]

    def thr(v, t, i, j):
        if case["scope"] != "overall":
            v = v[case["keys_real"][t]]
        return v if case["loc"] == "global" else v[i][j]

    out = np.zeros((T, I, J), dtype=int)
    for t in range(T):
        for i in range(I):
            for j in range(J):
                xv = vals[(t * I + i) * J + j]
                a = thr(case["v0"], t, i, j)
                if ty == "higher":
                    r = xv > a
                elif ty == "lower":
                    r = xv < a
                else:
                    b = thr(case["v1"], t, i, j)
                    r = (a < xv < b) if ty == "between" else (xv < a or xv > b)
                out[t, i, j] = 1 if r else 0
    return out


# ------------------------------------------------------------------ the real code, every public method
def run_real(case, m):
    """returns (fields: {name: value | 'error <Exc>'}, problems: [str]) ; problems are violations of dataset_unchanged"""
    from scipy.ndimage import label

    x, time = case["x"], case["time_lib"]
    tm = None if case["time_none"] else time
    snap = x.tobytes()
    out, problems = {}, []

    def call(name, f):
        try:
            with warnings.catch_warnings(), np.errstate(all="ignore"):
                warnings.simplefilter("ignore")
                r = f()
        except Exception as e:  # noqa: BLE001
            r = "error " + type(e).__name__
        if x.tobytes() != snap:
            problems.append(("dataset_unchanged", f"{name} modified the dataset passed in"))
            x[...] = np.frombuffer(snap, dtype=x.dtype).reshape(x.shape)
        if isinstance(r, np.ndarray) and np.shares_memory(r, x):
            problems.append(("dataset_unchanged", f"{name} returned an array that shares memory with the dataset passed in"))
        out[name] = r
        return r

    arg = [x, tm] if (case["scope"] != "overall" or not case["time_none"]) else x
    call("inst", lambda: m.calculate_instances_of_threshold_exceedance(x, time=tm))
    before = x.tobytes()
    r = call("filt", lambda: m.filter_threshold_exceedances(x, time=tm))
    if isinstance(r, np.ndarray):
        out["alias"] = ("aliased" if np.shares_memory(r, x) else "fresh") + ("-unchanged" if not problems and before == snap else "-modified")
    else:
        out["alias"] = r
    call("prob", lambda: m.calculate_exceedance_probability(x, time=tm))
    # the annual methods need `time` for the years; an overall metric ignores it for the mask
    tma = time if case["scope"] == "overall" else tm
    call("annual", lambda: m.calculate_number_annual_days_beyond_threshold(x, tma))
    call("spells", lambda: m.calculate_spell_length(case["minlen"], d=arg)["Spell length (days)"].values)
    call("spells0", lambda: m.calculate_spell_length(0, d=arg)["Spell length (days)"].values)
    call("extent", lambda: m.calculate_spatial_extent(d=arg)["Spatial extent (% of area)"].values)
    call("clusters", lambda: m.calculate_spatiotemporal_clusters(d=arg)["Spatiotemporal cluster size"].values)
    call("pct", lambda: m.calculate_percent_of_total_amount_beyond_threshold(x, tm))
    call("annualv", lambda: m.calculate_annual_value_beyond_threshold(x, tma))
    call("intensity", lambda: m.calculate_intensity_index(x, tm))
    if isinstance(out["inst"], np.ndarray):
        try:
            out["labels"], out["nlabels"] = label(out["inst"])
        except Exception:  # noqa: BLE001  (an instance array scipy cannot label: the oracle reports it as malformed)
            pass
    return out, problems


# ------------------------------------------------------------------ the property's oracle on the real outputs
METHODS = ["inst", "filt", "prob", "annual", "spells", "spells0", "extent", "clusters", "pct", "annualv", "intensity"]


def malformed(case, out):
    """exceptions on a well-formed request and results that do not have the documented shape (checked before anything
    else is read from the results): [(kind, message)]"""
    bad = []
    I, J, T = case["I"], case["J"], case["T"]
    ny = len(set(years_of(case["time"])))
    want = {"inst": (T, I, J), "filt": (T, I, J), "prob": (I, J), "annual": (ny, I, J), "pct": (I, J), "annualv": (ny, I, J),
            "intensity": (I, J), "spells": None, "spells0": None, "extent": None, "clusters": None}
    for name in METHODS:
        r = out.get(name)
        if isinstance(r, str):
            bad.append((f"{name}-raises", f"{name}: unexpected {r} on a well-formed request"))
        elif not isinstance(r, np.ndarray):
            bad.append((f"{name}-shape", f"{name}: returned {type(r).__name__}, an array is documented"))
        elif want[name] is None:
            if r.ndim != 1 or (name == "extent" and r.size > T):
                bad.append((f"{name}-shape", f"{name}: result of shape {r.shape}, a 1-d table is documented" + (f" with at most {T} rows" if name == "extent" else "")))
        elif r.shape != want[name]:
            bad.append((f"{name}-shape", f"{name}: result of shape {r.shape}, documented shape {want[name]} for a dataset of shape {(T, I, J)}"))
    return bad


def oracle(case, out):
    """direct check of the property statement on the real results (no model involved); never raises: whatever the real
    code returned on a well-formed request that cannot be judged is itself a finding carrying the input"""
    try:
        bad = malformed(case, out)
        return bad if bad else _oracle(case, out)
    except Exception as e:  # noqa: BLE001
        return [("malformed_result", f"the results of the public methods cannot be evaluated ({type(e).__name__}: {str(e)[:120]})")]


def _oracle(case, out):
    bad = []
    I, J, T = case["I"], case["J"], case["T"]
    x = case["x"]
    inst = out["inst"]
    ref = ref_instances(case)
    if inst.shape != x.shape or not np.array_equal(inst, ref):
        k = np.argwhere(inst != ref)
        bad.append(("instances_def", f"instances differ from the defining comparison at {k[:3].tolist()} ({k.shape[0]} entries)"))
        return bad
    n = int(ref.sum())
    # counting with the returned array (what calculate_exceedance_probability / spatial extent / intensity and
    # ibicus.evaluate.multivariate do with it) must give the Python integer counts, whatever its dtype
    with np.errstate(all="ignore"):
        cnt_t = [int(v) for v in np.einsum("ijk -> jk", inst).ravel()]
        cnt_s = [int(v) for v in np.einsum("ijk -> i", inst).ravel()]
    if cnt_t != [int(v) for v in ref.sum(axis=0).ravel()] or cnt_s != [int(v) for v in ref.sum(axis=(1, 2))]:
        bad.append(("instances_count", f"reducing the instance array (dtype {inst.dtype}) does not give the number of instances: "
                    f"per-location counts {cnt_t[:3]}, per-step counts {cnt_s[:3]}, true total {n}"))
    if not np.array_equal(out["filt"], np.where(ref == 1, x, 0.0)):
        bad.append(("accumulative_filter", "filter_threshold_exceedances is not (value where the condition is met, 0 elsewhere)"))
    if not np.allclose(out["prob"], ref.mean(axis=0), rtol=0, atol=1e-12):
        bad.append(("probability_mean", "exceedance probability is not the per-location mean of the instances"))
    yarr = np.array(years_of(case["time"]))
    yrs = sorted(set(yarr.tolist()))
    if out["annual"].shape != (len(yrs), I, J) or not np.array_equal(out["annual"].sum(axis=0), ref.sum(axis=0)):
        bad.append(("annual_counts_conserve", f"annual counts do not sum to the number of instances ({out['annual'].sum()} vs {n}, {len(yrs)} years)"))
    else:
        for r, y in enumerate(yrs):  # each entry = the instances among exactly that year's time steps, wherever they are stored
            if not np.array_equal(out["annual"][r], ref[yarr == y].sum(axis=0)):
                bad.append(("annual_count_def", f"annual count of {y} is {out['annual'][r].ravel()[:3].tolist()}, the year's time steps hold "
                            f"{ref[yarr == y].sum(axis=0).ravel()[:3].tolist()} instances (storage order of the years: {list(dict.fromkeys(yarr.tolist()))[:6]})"))
                break
    s0 = out["spells0"]
    if int(s0.sum()) != n or (s0 <= 0).any():
        bad.append(("spell_lengths_conserve", f"spell lengths (minimum length 0) sum to {int(s0.sum())}, instances {n}; min {s0.min() if s0.size else None}"))
    if sorted(out["spells"].tolist()) != sorted(s0[s0 > case["minlen"]].tolist()):
        bad.append(("spell_minimum_length", f"spell lengths with minimum_length={case['minlen']} are not the spells longer than it"))
    e = out["extent"]
    if not close(float(e.sum()) * I * J, n, n) or (e <= 0).any() or (e > 1 + 1e-12).any():
        bad.append(("spatial_extent_conserve", f"spatial extents x cells sum to {float(e.sum()) * I * J}, instances {n}"))
    c = out["clusters"]
    if (c <= 0).any() or int(c.sum()) != n:
        bad.append(("clusters_conserve", f"cluster sizes {c[:6].tolist()} (sum {c.sum()}) vs instances {n}: not positive / not conserving"))
    lab, k = out["labels"], out["nlabels"]
    if not (np.array_equal(lab > 0, ref == 1) and (lab.max() if lab.size else 0) == k and all((lab == l).any() for l in range(1, k + 1))):
        bad.append(("label_law", "scipy.ndimage.label does not satisfy the labelling law assumed by clusters_conserve"))
    if c.size != k:
        bad.append(("clusters_rows", f"cluster table has {c.size} rows, labelling has {k} clusters"))
    with np.errstate(all="ignore"):
        tot = x.sum(axis=0)
    amount = np.where(ref == 1, x, 0.0).sum(axis=0)
    pct = out["pct"]
    fin = np.isfinite(x).all(axis=0)  # the total (denominator of the percentage) runs over ALL steps: claimed for finite series only
    if (x[:, fin] >= 0).all():
        ok = (tot > 0) & fin
        if (pct[ok] < -1e-9).any() or (pct[ok] > 100 + 1e-9).any():
            bad.append(("accumulative_percent_range", f"percent of total amount outside [0,100]: {pct[ok].tolist()[:4]}"))
    okp = (tot != 0) & fin
    rt = 1e-12
    if case.get("inexact"):  # arbitrary floats (not small dyadics): sums round, so the ratio is judged only where the total does not cancel
        with np.errstate(all="ignore"):
            okp = okp & (np.abs(tot) >= 0.01 * np.abs(x).sum(axis=0))
        rt = 1e-10
    if not np.allclose(pct[okp], 100 * amount[okp] / tot[okp], rtol=rt, atol=1e-9):
        bad.append(("accumulative_percent", "percent of total amount is not 100 * amount over the exceeding steps / total"))
    if out["annualv"].shape != (len(yrs), I, J) or not np.allclose(out["annualv"].sum(axis=0), amount, rtol=1e-12, atol=1e-9):
        bad.append(("accumulative_annual", f"annual values do not sum to the amount over the exceeding steps ({out['annualv'].sum(axis=0).ravel()[:3].tolist()} vs {amount.ravel()[:3].tolist()})"))
    else:
        kept = np.where(ref == 1, x, 0.0)
        for r, y in enumerate(yrs):
            if not np.allclose(out["annualv"][r], kept[yarr == y].sum(axis=0), rtol=1e-12, atol=1e-9):
                bad.append(("accumulative_annual", f"annual value of {y} is {out['annualv'][r].ravel()[:3].tolist()}, the amount over the year's exceeding steps is "
                            f"{kept[yarr == y].sum(axis=0).ravel()[:3].tolist()} (storage order of the years: {list(dict.fromkeys(yarr.tolist()))[:6]})"))
                break
    cnt = ref.sum(axis=0)
    ii = out["intensity"]
    if not np.allclose(ii[cnt > 0], amount[cnt > 0] / cnt[cnt > 0], rtol=1e-12, atol=1e-9) or np.isfinite(ii[cnt == 0]).any():
        bad.append(("accumulative_intensity", "intensity index is not amount / number of exceeding steps (NaN when none)"))
    return bad


# ------------------------------------------------------------------ encoding for the driver / comparison
def driver_line(case, out):
    grp = "none" if (case["time_none"] or case["scope"] == "overall") else C.ilist(case["codes"])
    yrs = C.ilist(years_of(case["time"]))
    s0 = enc_spec(case["scope"], case["loc"], case["v0"], case["code_of"])
    s1 = "-" if case["v1"] is None else enc_spec(case["scope"], case["loc"], case["v1"], case["code_of"])
    labs = C.ilist(out["labels"].ravel()) if "labels" in out else "none"
    return f"all {case['ty']} {case['T']} {case['I']} {case['J']} {C.rlist(case['vals'])} {grp} {yrs} {s0} {s1} {case['minlen']} {labs}"


def driver_line_perm(case, out, rng):
    """the same request, with the arrays handed to the driver in another storage order B plus the permutation `perm`
    such that `reindex perm B` (Model.Metrics) is what the real code saw; ties `reindex` (storage-order theorems)"""
    T, I, J = case["T"], case["I"], case["J"]
    perm = list(range(T))
    rng.shuffle(perm)
    def unperm(a, block):
        b = [None] * len(a)
        for t in range(T):
            b[perm[t] * block:(perm[t] + 1) * block] = a[t * block:(t + 1) * block]
        return b
    grp = "none" if (case["time_none"] or case["scope"] == "overall") else C.ilist(unperm(case["codes"], 1))
    yrs = C.ilist(unperm(years_of(case["time"]), 1))
    s0 = enc_spec(case["scope"], case["loc"], case["v0"], case["code_of"])
    s1 = "-" if case["v1"] is None else enc_spec(case["scope"], case["loc"], case["v1"], case["code_of"])
    labs = C.ilist(unperm(list(out["labels"].ravel()), I * J)) if "labels" in out else "none"
    return (f"allperm {C.ilist(perm)} {case['ty']} {T} {I} {J} {C.rlist(unperm(list(case['vals']), I * J))} {grp} {yrs} {s0} {s1} "
            f"{case['minlen']} {labs}")


def safe_line(case, out, rng=None):
    """the driver line for a case, or None when the real results are malformed (already reported by the oracle)"""
    try:
        if case["expect_error"] is None and malformed(case, out):
            return None
        return driver_line_perm(case, out, rng) if rng is not None else driver_line(case, out)
    except Exception:  # noqa: BLE001
        return None


def compare(case, out, got, res):
    """real outputs vs model line; returns list of mismatch strings"""
    mism = []
    if got.startswith("error "):
        names = [n for n in ["inst", "filt", "prob", "annual", "spells", "extent", "clusters", "pct", "annualv", "intensity"]]
        real = {n: out[n] for n in names}
        wrong = {n: (r if isinstance(r, str) else "returned") for n, r in real.items() if not is_outcome(r, got)}
        if wrong:
            mism.append(f"model: {got}; real: {wrong}")
        return mism
    f = dict(p.split("=", 1) for p in got.split(" | "))
    for n in ["inst", "filt", "prob", "annual", "spells", "extent", "clusters", "pct", "annualv", "intensity"]:
        if isinstance(out[n], str):
            mism.append(f"{n}: model returns, real: {out[n]}")
    if mism:
        return mism
    I, J = case["I"], case["J"]
    if "".join(str(int(v)) for v in out["inst"].ravel()) != f["inst"]:
        mism.append("inst")
    if [fr(v) for v in out["filt"].ravel()] != C.parse_list(f["filt"], Fraction):
        mism.append("filt")

    def cmpf(name, real, model, nan_ok=False):
        real = [float(v) for v in np.asarray(real).ravel()]
        toks = [] if model == "-" else model.split(",")
        if len(real) != len(toks):
            mism.append(f"{name}: lengths {len(real)} vs {len(toks)}")
            return
        for r, tk in zip(real, toks):
            if tk == "nan":
                if math.isfinite(r):
                    mism.append(f"{name}: model undefined, real {r}")
                    return
            elif not math.isfinite(r) or not close(r, float(Fraction(tk)), abs(float(Fraction(tk)))):
                mism.append(f"{name}: real {r} model {tk}")
                return

    cmpf("prob", out["prob"], f["prob"])
    if C.ilist(sorted(set(years_of(case["time"])))) != f["years"]:
        mism.append("years")
    if C.ilist(out["annual"].ravel()) != f["annual"] or not np.array_equal(out["annual"], np.round(out["annual"])):
        mism.append("annual")
    if C.ilist(out["spells"]) != f["spells"]:
        mism.append(f"spells: real {out['spells'][:8].tolist()} model {f['spells'][:40]}")
    cmpf("extent", out["extent"], f["extent"])
    if C.ilist(out["clusters"]) != f["clusters"] or not np.array_equal(out["clusters"], np.round(out["clusters"])):
        mism.append(f"clusters: real {out['clusters'][:8].tolist()} model {f['clusters'][:40]}")
    cmpf("pct", out["pct"], f["pct"])
    cmpf("annualv", out["annualv"], f["annualv"])
    cmpf("intensity", out["intensity"], f["intensity"])
    if out["alias"] != f["alias"]:
        mism.append(f"alias: real {out['alias']} model {f['alias']}")
    return mism


# ------------------------------------------------------------------ quantile-defined metrics
def exp_counts(ty, n, q0, q1):
    """number of instances of from_quantile(sample, q) on its own tie-free sample of size n (Props.C19.quantile_count*)"""
    def above(q):
        return n - 1 - math.floor(q * (n - 1))

    def below(q):
        return math.ceil(q * (n - 1))

    if ty == "higher":
        return above(q0)
    if ty == "lower":
        return below(q0)
    if ty == "outside":
        return below(q0) + above(q1)
    return max(0, math.ceil(q1 * (n - 1)) - math.floor(q0 * (n - 1)) - 1)


def gen_qcase(rng, tier):
    I, J = rng.choice(SHAPES)
    tkind, order, time = gen_time(rng, tier)
    T = time.size
    if T > 400:
        T = rng.randint(13, 400)
        time = time[:T]
    n = T * I * J
    ks = rng.sample(range(-4 * n - 50, 4 * n + 50), n)  # tie-free
    vals = [Fraction(k, 64) for k in ks]
    x = np.array([float(v) for v in vals]).reshape(T, I, J)
    ty, loc, scope = rng.choice(TYPES), rng.choice(["global", "local"]), rng.choice(SCOPES)
    dy = rng.random() < 0.75
    def q():
        if dy:
            return Fraction(rng.choice([0, 64, 32, 16, 48, 58, 6] + [rng.randint(0, 64)] * 6), 64)
        return Fraction(rng.choice([0.9, 0.1, 0.95, 0.05, 0.99, 0.3, 0.7, 1 / 3]))
    q0, q1 = q(), q()
    if ty in ("between", "outside"):
        if q0 == q1:
            q1 = min(Fraction(1), q0 + Fraction(1, 8))
            if q0 == q1:
                q0 = q1 - Fraction(1, 8)
        q0, q1 = min(q0, q1), max(q0, q1)
    keys_real, codes = groups_of(time, scope)
    time_kind = probes.pick_kind(rng)
    return dict(I=I, J=J, T=T, time=time, time_kind=time_kind, time_lib=probes.present(time, time_kind), vals=vals, x=x, ty=ty, loc=loc, scope=scope, q0=q0, q1=q1, dyadic=dy,
                keys_real=keys_real, codes=codes, tkind=tkind, order=order)


def run_qcase(qc, res):
    """real from_quantile -> thresholds + instance counts per sample; returns (driver line, expected thresholds text | None, problems)"""
    from ibicus.evaluate.metrics import ThresholdMetric

    x, time, ty, scope, loc = qc["x"], qc["time_lib"], qc["ty"], qc["scope"], qc["loc"]
    two = ty in ("between", "outside")
    qarg = [float(qc["q0"]), float(qc["q1"])] if two else float(qc["q0"])
    problems = []
    snap = x.tobytes()
    try:
        with warnings.catch_warnings():
            warnings.simplefilter("ignore")
            m = ThresholdMetric.from_quantile(x, qarg, ty, threshold_scope=scope, threshold_locality=loc, time=time, name="q")
            inst = m.calculate_instances_of_threshold_exceedance(x, time=time)
    except Exception as e:  # noqa: BLE001
        return None, None, [("from_quantile_raises", f"from_quantile(threshold_type={ty!r}) raised {type(e).__name__}: {str(e)[:120]}")]
    if x.tobytes() != snap:
        problems.append(("dataset_unchanged", "from_quantile modified the dataset passed in"))
    if not isinstance(inst, np.ndarray) or inst.shape != x.shape:
        return None, None, problems + [("inst-shape", f"inst: result of shape {getattr(inst, 'shape', None)}, documented shape {x.shape} (metric built by from_quantile)")]
    # thresholds as the driver prints them
    code_of = (lambda k: SEASON_CODE[k]) if scope == "season" else (lambda k: int(k))

    def norm(v):  # real threshold value -> exact rationals in the model's layout
        def one(u):
            if loc == "global":
                return fr(u)
            return [[fr(e) for e in row] for row in np.asarray(u).reshape(qc["I"], qc["J"])]
        if scope == "overall":
            return one(v)
        return {k: one(u) for k, u in sorted(v.items(), key=lambda kv: code_of(kv[0]))}

    tv = m.threshold_value
    specs = [enc_spec(scope, loc, norm(tv[0]), code_of), enc_spec(scope, loc, norm(tv[1]), code_of)] if two else \
        [enc_spec(scope, loc, norm(tv), code_of)] * 2
    expected = " | ".join(specs)
    # frequency oracle on every sample the quantile was taken of
    groups = [0] * qc["T"] if scope == "overall" else qc["codes"]
    ties = 0
    for g in sorted(set(groups)):
        sel = np.array([gg == g for gg in groups])
        cells = [None] if loc == "global" else [(i, j) for i in range(qc["I"]) for j in range(qc["J"])]
        for cell in cells:
            sub = inst[sel] if cell is None else inst[sel][:, cell[0], cell[1]]
            n = int(sub.size)
            want = exp_counts(ty, n, qc["q0"], qc["q1"])
            got = int(sub.sum())
            if got != want:
                near = any(abs(q * (n - 1) - round(q * (n - 1))) < 1e-9 and q * (n - 1) != round(q * (n - 1)) for q in (qc["q0"], qc["q1"]))
                if near and abs(got - want) <= 2:  # float (n-1)*q lands on the other side of an integer
                    ties += 1
                    continue
                problems.append(("quantile_count", f"quantile frequency: {got} instances in a tie-free sample of {n} for q={float(qc['q0'])}"
                                + (f",{float(qc['q1'])}" if two else "") + f" ({ty}, group {g}, cell {cell}); the definition gives {want}"))
    res.extra["ties_accepted"] = res.extra.get("ties_accepted", 0) + ties
    grp = "none" if scope == "overall" else C.ilist(qc["codes"])
    line = (f"fromq {ty} {0 if scope == 'overall' else 1} {'g' if loc == 'global' else 'l'} {qc['T']} {qc['I']} {qc['J']} "
            f"{C.rlist(qc['vals'])} {grp} {C.rat(qc['q0'])} {C.rat(qc['q1'])}")
    return line, (expected if qc["dyadic"] else None), problems


def describe_q(qc):
    d = {k: qc[k] for k in ("I", "J", "T", "ty", "loc", "scope", "tkind", "order", "time_kind")}
    d["q"] = [str(qc["q0"]), str(qc["q1"])]
    d["time_first"] = str(qc["time"][0])
    d["kind"] = "from_quantile"
    if qc["T"] * qc["I"] * qc["J"] <= 120:
        d["data"] = C.rlist(qc["vals"])
        d["time"] = [str(t) for t in qc["time"]]
    if qc.get("scaled"):
        d["scaled"] = qc["scaled"]
    return d


# ------------------------------------------------------------------ near-threshold margins at physical magnitudes
# Quantifier covered: "for all datasets ... the instance array equals the defining comparison (strict >, strict <, ...)".
# The dyadic generators above only produce values that either tie with a threshold or are >= 1/128 away from it at
# magnitudes <= 5, so a comparison that is strict "up to a tolerance" (np.isclose, rounding, float32 thresholds, an
# epsilon added to the threshold) is indistinguishable from the defining one.  Here every entry sits ON a threshold,
# or strictly beyond it by a small *representable* margin (1 ulp ... 1e-3 relative / absolute), at the magnitudes the
# library is used at (precipitation flux ~1e-5, Kelvin ~3e2, ~1e6, ~1e-12, signed values around 0 incl. denormals).
# Every float is a dyadic rational, so the reference comparison (exact Fractions) and the Lean model stay exact; only
# sums / ratios round, which the oracle tolerates (case["inexact"]).
NEAR_REGIMES = ["flux", "flux", "kelvin", "kelvin", "large", "tiny", "signed", "signed"]
NEAR_UNIT = {"flux": 1 / 86400, "kelvin": 3.0, "large": 1e5, "tiny": 1e-12, "signed": 1.0}
NEAR_BASE = {"flux": 0.0, "kelvin": 273.15, "large": 0.0, "tiny": 0.0, "signed": 0.0}


def near_value(rng, a, unit, positive):
    """a float that ties with the float threshold `a`, lies strictly beyond it by a small representable margin, or far"""
    r = rng.random()
    if r < 0.12:
        return a
    sgn = rng.choice([-1.0, 1.0])
    if r >= 0.85:
        v = a + sgn * unit * rng.uniform(0.05, 0.9)
    else:
        how = rng.choice(["ulp", "ulps", "rel", "rel", "rel", "abs", "abs"])
        if how == "ulp":
            v = math.nextafter(a, sgn * math.inf)
        elif how == "ulps":
            v = a
            for _ in range(rng.randint(2, 8)):
                v = math.nextafter(v, sgn * math.inf)
        elif how == "rel":
            v = a + sgn * abs(a) * 10 ** -rng.uniform(3, 15.5)
        else:
            v = a + sgn * unit * 10 ** -rng.uniform(3, 14)
    if not ((v > a) if sgn > 0 else (v < a)):  # the margin was below the spacing of floats at `a`
        v = math.nextafter(a, sgn * math.inf)
    if positive and v <= 0:
        v = a
    return v


def near_case(rng, tier):
    """a well-formed case of gen_case whose thresholds are moved to a physical magnitude and whose data lie on / just
    beyond / far from the threshold that applies to each entry"""
    case = gen_case(rng, tier)
    small = rng.random() < 0.8  # mostly small enough for the replay file to carry the data
    while case["expect_error"] or case["T"] > 80 or (small and case["T"] * case["I"] * case["J"] > 120):
        case = gen_case(rng, tier)
    regime = rng.choice(NEAR_REGIMES)
    unit, base = NEAR_UNIT[regime], NEAR_BASE[regime]

    def tmap(v):  # monotone, so lower <= upper is kept
        return v if regime == "signed" else Fraction(base + unit * (float(v) + 6.0))

    def tmap_spec(v):
        def one(u):
            return tmap(u) if case["loc"] == "global" else [[tmap(e) for e in row] for row in u]
        return one(v) if case["scope"] == "overall" else {k: one(u) for k, u in v.items()}

    case["v0"] = tmap_spec(case["v0"])
    if case["v1"] is not None:
        case["v1"] = tmap_spec(case["v1"])

    def thr(v, t, i, j):
        if case["scope"] != "overall":
            v = v[case["keys_real"][t]]
        return v if case["loc"] == "global" else v[i][j]

    vals = []
    for t in range(case["T"]):
        for i in range(case["I"]):
            for j in range(case["J"]):
                v = case["v0"] if (case["v1"] is None or rng.random() < 0.5) else case["v1"]
                vals.append(Fraction(near_value(rng, float(thr(v, t, i, j)), unit, regime != "signed")))
    case["vals"] = vals
    case["x"] = np.array([float(v) for v in vals]).reshape(case["T"], case["I"], case["J"])
    case["style"] = "near-" + regime
    case["inexact"] = True
    return case


def well_conditioned(x):
    """no location's total cancels (the percentage divides by it; float and exact totals then agree to rounding)"""
    with np.errstate(all="ignore"):
        tot, sa = x.sum(axis=0), np.abs(x).sum(axis=0)
    return bool(np.all((np.abs(tot) >= 0.01 * sa) | (sa == 0)))


def predefined_metrics():
    """the metric objects the library ships (wet_days, dry_days, warm_days, ...): overall scope, global thresholds"""
    from ibicus.evaluate import metrics as M

    found = []
    for name, m in sorted(vars(M).items()):
        if not isinstance(m, M.ThresholdMetric) or m.threshold_scope != "overall" or m.threshold_locality != "global":
            continue
        try:
            tv = [float(v) for v in m.threshold_value] if isinstance(m.threshold_value, (list, tuple, np.ndarray)) else [float(m.threshold_value)]
        except (TypeError, ValueError):
            continue
        if m.threshold_type in TYPES and len(tv) == (2 if m.threshold_type in ("between", "outside") else 1) and all(math.isfinite(v) for v in tv):
            found.append((name, m, tv))
    return found


def predefined_case(name, m, tv, data_seed):
    """near-threshold data for a shipped metric object; the definition is read off its declared attributes"""
    rng = random.Random(data_seed)
    I, J = rng.choice(SHAPES)
    T = rng.randint(1, 20)
    unit = max(abs(v) for v in tv) or 1.0
    vals = [Fraction(near_value(rng, rng.choice(tv), unit, all(v > 0 for v in tv))) for _ in range(T * I * J)]
    start = datetime.date(rng.randint(1960, 2060), 1, 1) + datetime.timedelta(days=rng.randint(0, 365))
    time = np.array([start + datetime.timedelta(days=k) for k in range(T)], dtype=object)
    return dict(I=I, J=J, T=T, tkind="tiny", order="sorted", time=time, time_kind="date", time_lib=time, style="near-predefined", vals=vals,
                x=np.array([float(v) for v in vals]).reshape(T, I, J), ty=m.threshold_type, loc="global", scope="overall",
                v0=Fraction(tv[0]), v1=Fraction(tv[1]) if len(tv) > 1 else None, codes=None, keys_real=None, code_of=lambda k: int(k),
                time_none=True, expect_error=None, minlen=0, force=None, inexact=True, predefined=name, data_seed=data_seed)


def judge_predefined(case, m):
    """instances / probability (and filter, intensity for accumulative metrics) of a shipped metric object against the
    defining comparison with its declared threshold; [(kind, message)]"""
    from ibicus.evaluate.metrics import AccumulativeThresholdMetric

    x, ref, bad = case["x"], ref_instances(case), []
    snap = x.tobytes()

    def call(name, f):
        try:
            with warnings.catch_warnings(), np.errstate(all="ignore"):
                warnings.simplefilter("ignore")
                r = f()
        except Exception as e:  # noqa: BLE001
            bad.append((f"{name}-raises", f"{name}: unexpected error {type(e).__name__} on a well-formed request (shipped metric {case['predefined']})"))
            return None
        if x.tobytes() != snap:
            bad.append(("dataset_unchanged", f"{name} modified the dataset passed in (shipped metric {case['predefined']})"))
            x[...] = np.frombuffer(snap, dtype=x.dtype).reshape(x.shape)
        return r

    try:
        inst = call("inst", lambda: m.calculate_instances_of_threshold_exceedance(x))
        if inst is not None and (not isinstance(inst, np.ndarray) or inst.shape != x.shape or not np.array_equal(inst, ref)):
            k = np.argwhere(np.asarray(inst) != ref) if getattr(inst, "shape", None) == x.shape else np.zeros((0, 3), dtype=int)
            bad.append(("instances_def", f"instances of the shipped metric {case['predefined']} ({case['ty']} {[float(v) for v in (case['v0'], case['v1']) if v is not None]}) "
                        f"differ from the defining comparison at {k[:3].tolist()} ({k.shape[0]} entries)"))
        prob = call("prob", lambda: m.calculate_exceedance_probability(x))
        if prob is not None and not (isinstance(prob, np.ndarray) and prob.shape == ref.shape[1:] and np.allclose(prob, ref.mean(axis=0), rtol=0, atol=1e-12)):
            bad.append(("probability_mean", f"exceedance probability of the shipped metric {case['predefined']} is not the per-location mean of the instances"))
        if isinstance(m, AccumulativeThresholdMetric):
            filt = call("filt", lambda: m.filter_threshold_exceedances(x))
            if filt is not None and not (isinstance(filt, np.ndarray) and np.array_equal(filt, np.where(ref == 1, x, 0.0))):
                bad.append(("accumulative_filter", f"filter_threshold_exceedances of the shipped metric {case['predefined']} is not (value where the condition is met, 0 elsewhere)"))
            ii = call("intensity", lambda: m.calculate_intensity_index(x))
            cnt, amount = ref.sum(axis=0), np.where(ref == 1, x, 0.0).sum(axis=0)
            if ii is not None and not (isinstance(ii, np.ndarray) and ii.shape == cnt.shape and np.allclose(ii[cnt > 0], amount[cnt > 0] / cnt[cnt > 0], rtol=1e-10, atol=1e-9)
                                       and not np.isfinite(ii[cnt == 0]).any()):
                bad.append(("accumulative_intensity", f"intensity index of the shipped metric {case['predefined']} is not amount / number of exceeding steps"))
    except Exception as e:  # noqa: BLE001
        bad.append(("malformed_result", f"the results of the shipped metric {case['predefined']} cannot be evaluated ({type(e).__name__}: {str(e)[:120]})"))
    return bad


def scale_qcase(rng, qc):
    """the tie-free sample of a from_quantile case moved to a physical magnitude with a spacing that is small against
    the values (quantifier: 'quantile-defined metrics are exceeded with the corresponding empirical frequency' for all
    datasets — the frequency must not depend on the unit the data come in)"""
    regime = rng.choice(["flux", "kelvin", "large", "unit"])
    base, gap = {"flux": (5e-5, 1e-10), "kelvin": (290.0, 1e-5), "large": (1e6, 1e-3), "unit": (1.0, 1e-9)}[regime]
    vals = [Fraction(base + gap * float(v * 64)) for v in qc["vals"]]
    if len(set(vals)) != len(vals) or min(vals) <= 0:  # cannot happen (gap >> ulp(base)); keep the dyadic sample then
        return qc
    qc = dict(qc)
    qc["vals"] = vals
    qc["x"] = np.array([float(v) for v in vals]).reshape(qc["T"], qc["I"], qc["J"])
    qc["dyadic"] = False  # float interpolation of the thresholds rounds: only the frequencies are judged
    qc["scaled"] = regime
    return qc


# ------------------------------------------------------------------ the check
def run(tier, res, force_search=False):
    from ibicus.evaluate.metrics import ThresholdMetric

    rng = random.Random(C.seed() * 104729 + 19)
    res.rule = ("cases = (shape, time axis kind/order/start, value style, threshold type, locality, scope, thresholds, time given?, "
                "missing key?) from one PRNG (VERIF_SEED); non-trivial = some but not all entries are instances (or an expected "
                "ValueError); distinct = distinct (type, locality, scope, shape, time kind, years spanned, value style, outcome class)")
    res.trusted = C.BASE_TRUSTED + [
        "tier B only: metrics.py is an array pipeline outside the tier-A translator's subset (incl. _calculate_spell_lengths_one_location, "
        "which is modelled literally in Model.Metrics.spellsLiteral and proved equal to a run-length encoder)",
        "calendar arithmetic is Python's datetime (tm_yday, .month, .year, DJF/MAM/JJA/SON); ibicus.utils.day_of_year/month/season/year are compared with it on every time axis used; the model receives integer codes",
        "scipy.ndimage.label is an oracle: clusters_conserve assumes Model.Metrics.LabelLaw, which the harness checks on scipy's labels in every case",
        "np.quantile (method 'linear') as transcribed in Model.Stats.quantileLinear; pandas left merge looks every key up; np.unique = sorted distinct",
        "runtime-only clauses (decided by the oracle on the real code, no theorem can exhibit them): (1) instances_count — reducing the returned instance array "
        "with einsum must give the Python integer counts: this is numpy dtype arithmetic (int16 wrap-around), the model counts in unbounded Nat; "
        "(2) dataset_unchanged / no shared memory — numpy views and in-place writes; the store model only states the contract (fresh buffer), the flag is observed; "
        "(3) day-of-year / month / year of a time stamp in each encoding (datetime64 units, datetime, types without timetuple) — library calendar code, compared with "
        "Python's datetime on every axis; only the season rule is modelled (seasonOfMonth, tied by the driver op `season`); "
        "(4) sums and quotients of non-finite floats (IEEE): the model carries only 'NaN compares False' and 'np.where selects' (XVal, condX, filtG; tied by the driver op `xfilt`); "
        "(5) float rounding of ratios and of (n-1)*q at an integer; "
        "(6) the Python / numpy type a threshold is written in (int, float, np.float64, integer-dtype / float32 arrays, numpy scalar keys, ints and floats mixed in one dict): "
        "the model has one number type (Rat), so 'the comparison uses the value as written' is decided by the oracle on typed cases (typed_case), which are also sent to the driver",
        "stateful use of one metric object is specified by the cache-free state machine Model.Metrics.runOps (theorem sequence_eval_current), tied by the driver op `seq` on the same "
        "sequences the oracle judges; storage-order theorems are about Model.Metrics.reindex, tied by the driver op `allperm`",
        "dataset_unchanged: numpy aliasing is not modelled; the store model's flag (fresh result buffer) is observed with np.shares_memory and a byte comparison of the caller's array around every public method",
    ]
    res.assumptions = ["well-formed requests: 3-d float data (T >= 1), thresholds of the type/locality/scope the metric declares, time of length T",
                       "values are dyadic rationals so that float sums/comparisons are exact; ratios (probability, percent, intensity, extent) within 1e-9*(1+scale)",
                       "percent in [0,100] is claimed for non-negative data with a positive total; intensity / percent are NaN/inf (model: undefined) when the denominator is 0",
                       "non-finite values: only at time steps that do not meet the condition (amounts are over the instances only); the percentage's total runs over all steps, so it is judged on finite series only",
                       "near-threshold cases: arbitrary binary64 values (every float is a dyadic rational, so the defining comparison is judged exactly, also 1 ulp beyond the threshold); "
                       "their sums round, so the percentage is judged (rtol 1e-10) and the case is sent to the model only where no location's total cancels (|sum| >= 1% of sum of |values|)",
                       "quantile frequencies are claimed for tie-free samples; for non-dyadic q the float (n-1)*q may fall on the other side of an integer (accepted, counted)"]

    lean_ok = C.lean_phase(res, PROP, GEN, TARGETS)

    n_all = 160 if tier == "quick" else 1500
    n_q = 60 if tier == "quick" else 500
    n_spell = 150 if tier == "quick" else 1500
    if force_search or not lean_ok:
        n_all, n_q = 3 * n_all, 3 * n_q

    lines, expect, problems_all = [], [], []

    # ---- every public method on random data sets
    for k in range(n_all):
        case = gen_case(rng, tier)
        check_calendar(case["time"], problems_all, res, case["time_kind"])
        m = make_metric(case)
        out, probs = run_real(case, m)
        desc = describe(case)
        size = case["T"] * case["I"] * case["J"]
        for kind, p in probs:
            problems_all.append((kind, p, desc, size))
        outcome = "error" if case["expect_error"] else "ok"
        nyears = len(set(years_of(case["time"])))
        if case["expect_error"] is None:
            bad = oracle(case, out)
            for kind, b in bad:
                problems_all.append((kind, b, desc, size))
            inst = out["inst"]
            nontrivial = isinstance(inst, np.ndarray) and 0 < int(inst.sum()) < inst.size
        else:
            nontrivial = True
            for name, r in out.items():
                if name in ("alias", "labels", "nlabels"):
                    continue
                if not is_outcome(r, "error ValueError"):
                    problems_all.append(("instances_error", f"{name}: expected ValueError ({case['expect_error']}), got {r if isinstance(r, str) else 'a result'}",
                                         desc, size))
        res.count((case["ty"], case["loc"], case["scope"], case["I"], case["J"], case["tkind"], nyears, case["style"], outcome),
                  nontrivial, sample={**describe(case, with_data=False), "instances": int(out["inst"].sum()) if isinstance(out["inst"], np.ndarray) else out["inst"]})
        use_perm = case["T"] <= 120 and rng.random() < 0.4
        ln = safe_line(case, out, rng if use_perm else None)
        if ln is not None:
            lines.append(ln)
            expect.append(("all", case, out))
            if use_perm:
                res.extra["allperm_lines"] = res.extra.get("allperm_lines", 0) + 1
        # the documented season rule (Model.Metrics.seasonOfMonth) against utils.season on this axis
        with warnings.catch_warnings():
            warnings.simplefilter("ignore")
            try:
                from ibicus import utils
                real_seasons = C.ilist(SEASON_CODE.get(str(v), -1) for v in utils.season(case["time_lib"]))
            except Exception as e:  # noqa: BLE001
                real_seasons = "error " + type(e).__name__
        lines.append("season " + C.ilist(as_date(t).month for t in case["time"]))
        expect.append(("season", {"time_first": str(case["time"][0]), "T": case["T"], "encoding": case["time_kind"]}, real_seasons))

    # ---- large counts: > 2**15 instances along a reduced axis (oracle on the real code only; the driver is not
    #      used here because the executable model is quadratic in the length of the time axis)
    big_kinds = ["time", "grid"] if tier == "quick" else ["time", "grid", "time", "grid", "time", "grid"]
    for kind in big_kinds:
        case = gen_big_case(rng.randint(0, 10**9), kind)
        check_calendar(case["time"], problems_all, res, case["time_kind"])
        out, probs = run_real(case, make_metric(case))
        desc = describe(case)
        size = case["T"] * case["I"] * case["J"]
        for kd, p in probs:
            problems_all.append((kd, p, desc, size))
        for kd, b in oracle(case, out):
            problems_all.append((kd, b, desc, size))
        inst = out["inst"]
        res.count(("big", kind, case["ty"], case["scope"]), True,
                  sample={**describe(case, with_data=False), "instances": int(inst.sum(dtype=np.int64)) if isinstance(inst, np.ndarray) else inst})
        res.extra["big_cases"] = res.extra.get("big_cases", 0) + 1

    # ---- the calendar on its own: season boundaries, leap days, century years, datetime64 axes
    for y in [1900, 2000, 2100, rng.randint(1901, 2099), 4 * rng.randint(480, 520)]:
        days = [datetime.date(y, 1, 1) + datetime.timedelta(days=k) for k in range(366 if (y % 4 == 0 and (y % 100 != 0 or y % 400 == 0)) else 365)]
        for tk in ("date", "datetime", "M8D", "M8h", "M8s", "M8ns", "plain"):
            check_calendar(np.array(days, dtype=object), problems_all, res, tk)
    edge = [datetime.date(y, mth, d) for y in (1900, 1999, 2000, 2024, 2100) for mth, d in
            [(2, 28), (3, 1), (5, 31), (6, 1), (8, 31), (9, 1), (11, 30), (12, 1), (12, 31), (1, 1)]] + [datetime.date(2000, 2, 29), datetime.date(2024, 2, 29)]
    rng.shuffle(edge)
    for tk in ("date", "datetime", "M8D", "M8h", "M8s", "M8ns", "plain"):
        check_calendar(np.array(edge, dtype=object), problems_all, res, tk)

    # ---- stateful sequences: ONE metric object and the SAME array objects across calls; between calls the buffer is
    #      refilled / rescaled in place or the metric's attributes are reassigned; every call is judged against the
    #      defining comparison on the CURRENT content
    n_seq = 25 if tier == "quick" else 200
    if force_search or not lean_ok:
        n_seq *= 3
    for k in range(n_seq):
        case = gen_case(rng, tier)
        while case["expect_error"] or case["T"] > 80:
            case = gen_case(rng, tier)
        m = make_metric(case)
        history = ["fresh"]
        def seq_grp():
            return "none" if (case["time_none"] or case["scope"] == "overall") else C.ilist(case["codes"])
        def seq_specs(sep):
            return (enc_spec(case["scope"], case["loc"], case["v0"], case["code_of"]) + sep +
                    ("-" if case["v1"] is None else enc_spec(case["scope"], case["loc"], case["v1"], case["code_of"])))
        seq_head = f"seq {case['T']} {case['I']} {case['J']} {case['ty']} {seq_specs(' ')} {seq_grp()} {C.rlist(case['vals'])}"
        seq_ops, seq_real = [], []
        for stepno in range(rng.randint(2, 4)):
            if stepno > 0:
                action = rng.choice(["refill", "scale", "threshold", "type", "refill-time"])
                if action == "refill":  # new data into the same buffer
                    _, vals, xnew = gen_data(rng, case["T"], case["I"], case["J"])
                    case["x"][...] = xnew
                    case["vals"] = vals
                elif action == "scale":  # in-place unit conversion
                    f = rng.choice([2, -1, Fraction(1, 2), 4])
                    case["x"] *= float(f)
                    case["vals"] = [v * f for v in case["vals"]]
                elif action == "threshold":  # reassign the attribute on the same object
                    pool = sorted(set(case["vals"]))
                    def redo(v):
                        if case["scope"] == "overall":
                            return gen_value(rng, pool, case["loc"], case["I"], case["J"], None)
                        return {kk: gen_value(rng, pool, case["loc"], case["I"], case["J"], None) for kk in v}
                    case["v0"] = redo(case["v0"])
                    if case["v1"] is not None:
                        case["v1"] = redo(case["v1"])
                    tv = real_spec(case["scope"], case["loc"], case["v0"])
                    m.threshold_value = tv if case["v1"] is None else [tv, real_spec(case["scope"], case["loc"], case["v1"])]
                elif action == "type":
                    case["ty"] = {"higher": "lower", "lower": "higher", "between": "outside", "outside": "between"}[case["ty"]]
                    m.threshold_type = case["ty"]
                else:  # same time array object, new dates written into it (only the groups matter)
                    shift = rng.randint(1, 400)
                    moved = np.array([as_date(t) + datetime.timedelta(days=shift) for t in case["time"]], dtype=object)
                    keys_real, codes = groups_of(moved, case["scope"])
                    if case["scope"] != "overall" and not all(kk in case["v0"] and (case["v1"] is None or kk in case["v1"]) for kk in keys_real):
                        action = "none"
                    else:
                        case["time"][...] = moved
                        if case["time_lib"] is not case["time"]:
                            case["time_lib"][...] = probes.present(moved, case["time_kind"])
                        case["keys_real"], case["codes"] = keys_real, codes
                history.append(action)
                if action == "refill":
                    seq_ops.append("W@" + C.rlist(case["vals"]))
                elif action == "scale":
                    seq_ops.append("S@" + C.rat(f))
                elif action == "threshold":
                    seq_ops.append("H@" + seq_specs("@"))
                elif action == "type":
                    seq_ops.append("Y@" + case["ty"])
                elif action == "refill-time":
                    seq_ops.append("G@" + seq_grp())
            out, probs = run_real(case, m)
            seq_ops.append("E")
            seq_real.append("ok:" + "".join(str(int(v)) for v in out["inst"].ravel()) if isinstance(out["inst"], np.ndarray) else out["inst"])
            desc = {**describe(case), "sequence_on_one_metric_object": list(history)}
            size = case["T"] * case["I"] * case["J"]
            for kd, p in probs:
                problems_all.append((kd, p + f" (call {stepno + 1} of a sequence {history})", desc, size))
            for kd, b in oracle(case, out):
                problems_all.append((kd, b + f" (call {stepno + 1} of a sequence on one metric object: {history})", desc, size))
            snap = dict(case)
            snap["time"] = case["time"].copy()
            ln = safe_line(snap, out)
            if ln is not None:
                lines.append(ln)
                expect.append(("all", snap, out))
        lines.append(seq_head + " " + " ".join(seq_ops))
        expect.append(("seq", {**describe(case, with_data=False), "sequence_on_one_metric_object": list(history)}, "/".join(seq_real)))
        res.count(("sequence", tuple(history), case["ty"], case["scope"], case["loc"]), True)
    res.extra["stateful_sequences"] = n_seq

    # ---- non-finite values (NaN / +-inf as missing-value markers) at time steps that do NOT meet the condition: the
    #      amounts are over the instances only, so such a value must not influence filter / yearly amount / intensity
    #      (oracle on the real code only: the rational model has no NaN; the percentage's total runs over all steps and is
    #      therefore judged on finite series only)
    n_nf = 40 if tier == "quick" else 300
    for k in range(n_nf):
        case = gen_case(rng, tier)
        while case["expect_error"] or case["T"] > 420:
            case = gen_case(rng, tier)
        nn = case["T"] * case["I"] * case["J"]
        pos = rng.sample(range(nn), min(nn, rng.randint(1, max(1, nn // 8))))
        vals = list(case["vals"])
        for q_ in pos:
            vals[q_] = rng.choice([float("nan"), float("nan"), float("inf"), float("-inf")])
        case["vals"] = vals
        refi = ref_instances(case).ravel()
        for q_ in pos:  # an infinite value that meets the condition is an ordinary instance; only non-instances are wanted here
            if refi[q_] == 1:
                vals[q_] = float("nan")
        for q_ in pos:
            case["x"].flat[q_] = vals[q_]
        case["nonfinite"] = {"positions": sorted(pos)[:20], "count": len(pos)}
        check_calendar(case["time"], problems_all, res, case["time_kind"])
        out, probs = run_real(case, make_metric(case))
        if not malformed(case, out):
            # extended-value model (Model.Metrics.condX / filtG over XVal) on the same entries, thresholds per entry
            def thr_of(v, t, i, j):
                if case["scope"] != "overall":
                    v = v[case["keys_real"][t]]
                return v if case["loc"] == "global" else v[i][j]
            idx = [(t, i, j) for t in range(case["T"]) for i in range(case["I"]) for j in range(case["J"])]
            los = [thr_of(case["v0"], *e) for e in idx]
            his = [thr_of(case["v1"], *e) for e in idx] if case["v1"] is not None else [Fraction(0)] * len(idx)
            def tok(v):
                return C.rat(v) if isinstance(v, Fraction) else ("nan" if v != v else ("inf" if v > 0 else "-inf"))
            lines.append(f"xfilt {case['ty']} {','.join(tok(v) for v in vals)} {C.rlist(los)} {C.rlist(his)}")
            real = ("".join(str(int(v)) for v in out["inst"].ravel()) + " | " + ",".join(tok(fr(v)) if math.isfinite(v) else tok(float(v)) for v in out["filt"].ravel())
                    + " | " + ("1" if np.isfinite(out["filt"]).all() else "0"))
            expect.append(("xfilt", describe(case), real))
        desc = describe(case)
        size = nn
        for kd, p in probs:
            problems_all.append((kd, p, desc, size))
        for kd, b in oracle(case, out):
            problems_all.append((kd, b + " (data set with NaN/inf at time steps that do not meet the condition)", desc, size))
        res.count(("nonfinite", case["ty"], case["scope"], case["loc"], case["I"], case["J"]), True)
    res.extra["nonfinite_cases"] = n_nf

    # ---- near-threshold margins at physical magnitudes (own PRNG stream, so the cases above / below keep theirs):
    #      covers "for all datasets" of the clause "the instance array equals the defining (strict) comparison" for values
    #      that are beyond the threshold by 1 ulp ... 1e-3 at flux / Kelvin / large / tiny / signed magnitudes, for every
    #      type, locality and scope, hand-made metrics, the metric objects the library ships, and quantile-defined ones
    rng_near = random.Random(C.seed() * 104729 + 1919)
    n_near = 60 if tier == "quick" else 500
    n_pre = 2 if tier == "quick" else 10
    n_qs = 20 if tier == "quick" else 150
    if force_search or not lean_ok:
        n_near, n_qs = 3 * n_near, 3 * n_qs
    for k in range(n_near):
        case = near_case(rng_near, tier)
        out, probs = run_real(case, make_metric(case))
        desc = describe(case)
        size = case["T"] * case["I"] * case["J"]
        for kd, p in probs:
            problems_all.append((kd, p, desc, size))
        for kd, b in oracle(case, out):
            problems_all.append((kd, b + f" (values on / just beyond / far from the threshold, {case['style']} magnitudes)", desc, size))
        inst = out["inst"]
        res.count(("near", case["style"], case["ty"], case["loc"], case["scope"]), isinstance(inst, np.ndarray) and 0 < int(inst.sum()) < inst.size,
                  sample={**describe(case, with_data=False), "instances": int(inst.sum()) if isinstance(inst, np.ndarray) else inst})
        if well_conditioned(case["x"]):  # the exact model and the float code then agree to rounding on every ratio
            ln = safe_line(case, out)
            if ln is not None:
                lines.append(ln)
                expect.append(("all", case, out))
                res.extra["near_lines"] = res.extra.get("near_lines", 0) + 1
    res.extra["near_threshold_cases"] = n_near
    try:
        shipped = predefined_metrics()
    except Exception as e:  # noqa: BLE001
        shipped = []
        problems_all.append(("malformed_result", f"the metric objects shipped by ibicus.evaluate.metrics cannot be listed ({type(e).__name__}: {str(e)[:100]})",
                             {"what": "predefined_metrics"}, 1))
    for name, m, tv in shipped:
        for k in range(n_pre):
            case = predefined_case(name, m, tv, rng_near.randint(0, 10**9))
            desc = {**describe(case), "predefined": name, "data_seed": case["data_seed"]}
            for kd, b in judge_predefined(case, m):
                problems_all.append((kd, b, desc, case["T"] * case["I"] * case["J"]))
            res.count(("predefined", name, case["ty"]), True)
    res.extra["predefined_metrics"] = [name for name, _, _ in shipped]
    for k in range(n_qs):
        qc = scale_qcase(rng_near, gen_qcase(rng_near, tier))
        try:
            _, _, probs = run_qcase(qc, res)
        except Exception as e:  # noqa: BLE001
            probs = [("malformed_result", f"from_quantile metric: results cannot be evaluated ({type(e).__name__}: {str(e)[:100]})")]
        for kind, p in probs:
            problems_all.append((kind, p + f" (sample at {qc.get('scaled')} magnitudes)", describe_q(qc), qc["T"] * qc["I"] * qc["J"]))
        res.count(("fromq-scaled", qc.get("scaled"), qc["ty"], qc["loc"], qc["scope"]), True)
    res.extra["scaled_quantile_cases"] = n_qs

    # ---- thresholds written as Python ints / np.float64 / integer-dtype or float32 arrays / under numpy keys, ints and
    #      floats mixed inside one dict (own PRNG stream): covers "for all configurations" (threshold values of every
    #      accepted type, global or per-location, overall or per day / month / season) of the clause "the instance array
    #      equals the defining comparison" and of everything derived from it
    rng_typed = random.Random(C.seed() * 104729 + 191919)
    n_typed = 80 if tier == "quick" else 600
    if force_search or not lean_ok:
        n_typed *= 3
    for k in range(n_typed):
        case = typed_case(rng_typed, tier)
        desc = describe(case)
        size = case["T"] * case["I"] * case["J"]
        note = f" (thresholds written as {case['thr_repr']['mode']}{', numpy keys' if case['thr_repr']['np_keys'] else ''})"
        try:
            m = make_metric(case)
        except Exception as e:  # noqa: BLE001
            problems_all.append(("constructor-raises", f"the constructor raised {type(e).__name__} on thresholds of an accepted type: {str(e)[:100]}" + note, desc, size))
            continue
        out, probs = run_real(case, m)
        for kd, p in probs:
            problems_all.append((kd, p + note, desc, size))
        for kd, b in oracle(case, out):
            problems_all.append((kd, b + note, desc, size))
        inst = out["inst"]
        res.count(("typed", case["thr_repr"]["mode"], case["thr_repr"]["np_keys"], case["ty"], case["loc"], case["scope"]),
                  isinstance(inst, np.ndarray) and 0 < int(inst.sum()) < inst.size,
                  sample={**describe(case, with_data=False), "instances": int(inst.sum()) if isinstance(inst, np.ndarray) else inst})
        ln = safe_line(case, out)
        if ln is not None:
            lines.append(ln)
            expect.append(("all", case, out))
            res.extra["typed_lines"] = res.extra.get("typed_lines", 0) + 1
    res.extra["typed_threshold_cases"] = n_typed

    # ---- quantile-defined metrics
    for k in range(n_q):
        qc = gen_qcase(rng, tier)
        check_calendar(qc["time"], problems_all, res, qc["time_kind"])
        try:
            line, exp, probs = run_qcase(qc, res)
        except Exception as e:  # noqa: BLE001
            line, exp, probs = None, None, [("malformed_result", f"from_quantile metric: results cannot be evaluated ({type(e).__name__}: {str(e)[:100]})")]
        for kind, p in probs:
            problems_all.append((kind, p, describe_q(qc), qc["T"] * qc["I"] * qc["J"]))
        res.count(("fromq", qc["ty"], qc["loc"], qc["scope"], qc["I"], qc["J"], qc["dyadic"]), True)
        if line is not None:
            lines.append(line)
            expect.append(("fromq", qc, exp))

    # ---- the run-length kernel on its own, np.unique
    for k in range(n_spell):
        n = rng.choice([0, 1, 1, 2, 2, 3]) if rng.random() < 0.2 else rng.randint(1, 60)
        p = rng.choice([0.0, 1.0, 0.5, 0.2, 0.8, 0.5])
        bits = [rng.random() < p for _ in range(n)]
        try:
            r = C.ilist(ThresholdMetric._calculate_spell_lengths_one_location(np.array(bits, dtype=bool)))
        except Exception as e:  # noqa: BLE001
            r = "error " + type(e).__name__
        s = "".join("1" if b else "0" for b in bits) or "-"
        lines.append("spell " + s)
        expect.append(("spell", {"bits": s}, r))
        if n > 0:
            lines.append("rle " + s)
            expect.append(("rle", {"bits": s}, r))
            if r != "-" and not r.startswith("error") and sum(int(v) for v in r.split(",")) != sum(bits):
                problems_all.append(("spell_lengths_conserve", f"spell lengths of {s} sum to {r}, number of True {sum(bits)}", {"bits": s}, n))
        res.count(("spell", n, p), n > 1)
    for k in range(20):
        ys = [rng.randint(1990, 1990 + rng.randint(0, 4)) for _ in range(rng.randint(1, 30))]
        lines.append("unique " + C.ilist(ys))
        expect.append(("unique", {"ys": ys}, C.ilist(np.unique(np.array(ys)))))

    res.extra["driver_lines"] = {op: sum(1 for e in expect if e[0] == op) for op in ("all", "fromq", "spell", "rle", "unique", "season", "seq", "xfilt")}
    res.extra["expected_error_cases"] = sum(1 for e in expect if e[0] == "all" and e[1]["expect_error"])
    mismatches = []
    try:
        got = C.run_driver("DrvMetrics", lines)
        for (what, case, exp), g in zip(expect, got):
            res.cov["traces_validated_against_impl"] += 1
            if what == "all":
                try:
                    mm = compare(case, exp, g, res)
                except Exception as e:  # noqa: BLE001
                    mm = [f"real results cannot be compared ({type(e).__name__}: {str(e)[:80]})"]
                if mm:
                    mismatches.append({"op": "all", "case": describe(case), "fields": mm[:4], "model": g[:300]})
            elif what == "fromq":
                if exp is not None and exp != g:
                    mismatches.append({"op": "fromq", "case": describe_q(case), "impl": exp[:300], "model": g[:300]})
            elif exp != g:
                mismatches.append({"op": what, "case": case, "impl": exp[:200], "model": g[:200]})
    except (C.DriverError, Exception) as ex:  # noqa: BLE001
        mismatches.append({"op": "driver", "case": {}, "impl": "", "model": f"{type(ex).__name__}: {str(ex)[:400]}"})
    if mismatches:
        res.tie_broken.append(f"correspondence DrvMetrics: {len(mismatches)} mismatches, first: {mismatches[0]}")
    res.extra["mismatches"] = len(mismatches)
    res.extra.setdefault("ties_accepted", 0)

    # ---- a larger failing-input search when a tie is broken and nothing was hit yet
    if (res.tie_broken or force_search) and not problems_all:
        for k in range(2 * n_all):
            case = gen_case(rng, tier)
            out, probs = run_real(case, make_metric(case))
            size = case["T"] * case["I"] * case["J"]
            for kind, p in probs:
                problems_all.append((kind, p, describe(case), size))
            if case["expect_error"] is None:
                for kind, b in oracle(case, out):
                    problems_all.append((kind, b, describe(case), size))
            if len(problems_all) > 20:
                break

    # ---- verdict
    # one violation per violated clause, reported on the smallest failing input found
    seen = set()
    res.extra["oracle_hits"] = len(problems_all)
    for kind, p, case, size in sorted(problems_all, key=lambda e: e[3]):
        if kind in seen:
            continue
        seen.add(kind)
        res.violations.append((f"{kind}: {p}", {"property": PROP, "failing_input": case, "problem": p, "clause": kind,
                                                "signature": {"what": kind}}))
    if res.tie_broken and not problems_all:
        res.violations.append(("proof obligation / correspondence no longer checks: " + "; ".join(res.tie_broken)[:600],
                               {"property": PROP, "failing_input": None, "broken": res.tie_broken, "mismatches": mismatches[:5]}))
    return res


def replay(data):
    """re-run a recorded failing input (small cases carry their data) against the real code"""
    fi = data.get("failing_input")
    print(data.get("problem", ""))
    if fi and fi.get("kind") == "from_quantile" and "data" in fi:
        vals = C.parse_list(fi["data"], Fraction)
        time = np.array([datetime.date.fromisoformat(t) for t in fi["time"]], dtype=object)
        keys_real, codes = groups_of(time, fi["scope"])
        q0, q1 = Fraction(fi["q"][0]), Fraction(fi["q"][1])
        qc = dict(I=fi["I"], J=fi["J"], T=fi["T"], time=time, time_kind=fi.get("time_kind", "date"),
                  time_lib=probes.present(time, fi.get("time_kind", "date")), vals=vals, ty=fi["ty"], loc=fi["loc"], scope=fi["scope"], q0=q0, q1=q1,
                  x=np.array([float(v) for v in vals]).reshape(fi["T"], fi["I"], fi["J"]), keys_real=keys_real, codes=codes,
                  dyadic=q0.denominator <= 64 and q1.denominator <= 64, tkind=fi["tkind"], order=fi["order"])
        _, _, probs = run_qcase(qc, C.Result(PROP, "replay"))
        for _, b in probs:
            print("  still failing:", b)
        if not probs:
            print("  the recorded input no longer fails")
        return 1 if probs else 0
    if fi and fi.get("what") == "time_groups":
        probs = []
        # the encodings stamp by position (datetime: every second entry at 12:30), so keep the recorded position
        pad = [datetime.date.fromisoformat(fi["date"])] * (fi.get("position", 0) + 1)
        check_calendar(np.array(pad, dtype=object), probs, C.Result(PROP, "replay"), fi.get("encoding", "date"))
        for _, b, _, _ in probs:
            print("  still failing:", b)
        if not probs:
            print("  the recorded input no longer fails")
        return 1 if probs else 0
    if fi and fi.get("big"):
        case = gen_big_case(fi["data_seed"], fi["big"])
        out, probs = run_real(case, make_metric(case))
        bad = [p for _, p in probs] + [b for _, b in oracle(case, out)]
        for b in bad:
            print("  still failing:", b)
        if not bad:
            print("  the recorded input no longer fails")
        return 1 if bad else 0
    if fi and fi.get("predefined"):
        shipped = {name: (m, tv) for name, m, tv in predefined_metrics()}
        if fi["predefined"] not in shipped:
            print(f"  the shipped metric {fi['predefined']} no longer exists as an overall/global threshold metric")
            return 1
        m, tv = shipped[fi["predefined"]]
        bad = [b for _, b in judge_predefined(predefined_case(fi["predefined"], m, tv, fi["data_seed"]), m)]
        for b in bad:
            print("  still failing:", b)
        if not bad:
            print("  the recorded input no longer fails")
        return 1 if bad else 0
    if not fi or "data" not in fi or "time" not in fi or "threshold_value" not in fi:
        print("replay: the recorded case carries no explicit data (large case); re-run ./check C19 with the recorded seed")
        return 2
    I, J, T = fi["I"], fi["J"], fi["T"]
    vals = [float(t) if t in ("nan", "inf", "-inf") else Fraction(t) for t in fi["data"].split(",")]
    time = np.array([datetime.date.fromisoformat(t) for t in fi["time"]], dtype=object)
    scope, loc = fi["scope"], fi["loc"]
    keys_real, codes = groups_of(time, scope)
    inv = {v: k for k, v in SEASON_CODE.items()}

    def dec(s):
        kind, lc, body = s.strip().split(":")
        def thr(t):
            if lc == "g":
                return Fraction(t)
            fl = C.parse_list(t, Fraction)
            return [[fl[i * J + j] for j in range(J)] for i in range(I)]
        if kind == "o":
            return thr(body)
        d = {}
        for e in ([] if body == "-" else body.split(";")):
            k, v = e.split("=")
            d[inv[int(k)] if scope == "season" else int(k)] = thr(v)
        return d

    parts = fi["threshold_value"].split(" , ")
    case = dict(I=I, J=J, T=T, time=time, time_kind=fi.get("time_kind", "date"), time_lib=probes.present(time, fi.get("time_kind", "date")),
                vals=vals, x=np.array([float(v) for v in vals]).reshape(T, I, J), ty=fi["ty"], loc=loc,
                scope=scope, v0=dec(parts[0]), v1=dec(parts[1]) if len(parts) > 1 else None, codes=codes, keys_real=keys_real,
                code_of=(lambda k: SEASON_CODE[k]) if scope == "season" else (lambda k: int(k)), time_none=fi["time_none"],
                expect_error=fi["expect_error"], minlen=fi["minlen"], tkind=fi["tkind"], order=fi["order"], style=fi["style"],
                inexact=str(fi.get("style", "")).startswith("near"), thr_repr=fi.get("thr_repr"))
    try:
        m = make_metric(case)
    except Exception as e:  # noqa: BLE001
        print(f"  still failing: the constructor raised {type(e).__name__}: {str(e)[:100]}")
        return 1
    if fi.get("sequence_on_one_metric_object"):
        # the failure was observed on a metric object / buffers that had been used before: evaluate once on other
        # content and with the opposite type, then put the recorded state into the same objects
        flip = {"higher": "lower", "lower": "higher", "between": "outside", "outside": "between"}
        keep = case["x"].copy()
        case["x"][...] = -keep - 1
        m.threshold_type = flip[case["ty"]]
        run_real(case, m)
        case["x"][...] = keep
        m.threshold_type = case["ty"]
    out, probs = run_real(case, m)
    bad = [p for _, p in probs]
    if case["expect_error"] is None:
        bad += [b for _, b in oracle(case, out)]
    else:
        bad += [f"{n}: {r if isinstance(r, str) else 'a result'}" for n, r in out.items()
                if n not in ("alias", "labels", "nlabels") and not is_outcome(r, "error ValueError")]
    for b in bad:
        print("  still failing:", b)
    if not bad:
        print("  the recorded input no longer fails")
    return 1 if bad else 0
