"""C06 — values stay attached to their time steps (time-order equivariance).

Lean: `Props/C06.lean` (skeleton theorems, any element type) + `Props/C06Inst.lean` (every window function of the layer-N
models is pointwise over an order-free context; corollaries per debiaser).
Tier B: the write-back skeletons against the real `apply_location` on sorted AND shuffled dated series (probe window
functions, exact integers), the layer-N models against the real per-window code (`debiasers_corr`, `isimip_corr`).
Property oracle on the real code: every debiaser, random / block-swapped / rotated / reversed permutations of each of the
three dated series, compare `out_perm` with `out[p]` per date.
"""
import datetime
import random
import warnings

import numpy as np

from harness import common as C
from harness import probes

PROP = "C06"
TARGETS = ["IbicusModel.Props.C06Inst", "IbicusModel.Props.C06Detrend", "IbicusModel.Lemmas.GenLoops"]
GEN = ["Windows", "Debiasers", "PrecipFit", "Loops"]
TARGETS += ["IbicusModel.Props.Capstone2"]  # capstone 2: C06 stated on the composition of the regenerated pieces (loop spec ∘ per-window program / kernel / ISIMIP wiring); the audit imports it
GEN += ["Loops", "GridLoops", "DebWin", "Debiasers", "IsimipStep6"]  # the groups the capstone composes (lean_phase regenerates every transitively imported group anyway)
TARGETS += ["IbicusModel.Lemmas.GenIsimipSteps3"]  # ISIMIP step 2 (`_step2_impute_values`) regenerated as data and denoting Model.Isimip.step2Impute (F21 is stated on it); the audit imports it
GEN += ["IsimipStep2"]

PERM_KINDS = ["full", "blockswap", "rotate", "reverse", "identity"]
PR_THR = 0.0000011574  # lower threshold of ISIMIP's pr settings


# ------------------------------------------------------------------ permutations
def make_perm(nprs, n, kind):
    """index array p: the permuted series is x[p] (so the result must be out[p])"""
    if n <= 1 or kind == "identity":
        return np.arange(n)
    if kind == "full":
        return nprs.permutation(n)
    if kind == "reverse":
        return np.arange(n)[::-1].copy()
    if kind == "rotate":
        k = int(nprs.randint(1, n))
        return np.r_[k:n, 0:k]
    # blockswap: a | B1 | c | B2 | e  ->  a | B2 | c | B1 | e   (partially shuffled input)
    cuts = np.sort(nprs.choice(np.arange(n + 1), size=4, replace=True))
    a, b, c, d = (int(v) for v in cuts)
    p = np.r_[0:a, c:d, b:c, a:b, d:n]
    if np.array_equal(p, np.arange(n)):
        return np.r_[n // 2:n, 0:n // 2]
    return p


def pick_kinds(rng):
    kinds = [rng.choice(PERM_KINDS) for _ in range(3)]
    if all(k == "identity" for k in kinds):
        kinds[2] = "full"
    if rng.random() < 0.25:
        kinds[2] = "blockswap"
    return kinds


# ------------------------------------------------------------------ tier B: ISIMIP apply_location with detrending, years in separate arrays
def correspondence_location_detrending(rng, n_cases, tier, res, shuffle_prob=0.7):
    """the real `ISIMIP.apply_location` with `detrending=True` (running-window and month mode), mostly on NON-chronological
    storage, against `Model.Isimip.applyLocationRW/Months` with the separate year lists (driver op `applylocorc`).  This ties
    what `Props/C06Detrend.lean` is about — the look-up of each window sample's years in the full-series year arrays by the
    window's index list (`Model.Isimip.winFn`), steps 3 / 7 inside the loop — to the code.  The `linregress` decisions are
    recorded per window from the real run and handed to the model keyed by the window (they are model parameters)."""
    from fractions import Fraction

    from harness import isimip_corr as IC
    from harness import isimip_family
    from ibicus.debias import ISIMIP
    from ibicus.utils import day_of_year, month, year

    exps = []
    for k in range(n_cases):
        rw = bool(k % 2)
        S = rng.choice([15, 31, 45])
        L = S + rng.choice([0, 10, 30])
        kw = dict(trend_preservation_method="additive", nonparametric_qm=bool(rng.random() < 0.4), detrending=True,
                  detrending_with_significance_test=bool(rng.random() < 0.85), ks_test_for_goodness_of_cdf_fit=False,
                  scale_by_annual_cycle_of_upper_bounds=False,
                  running_window_mode=rw, running_window_length=L, running_window_step_length=S)
        with warnings.catch_warnings():
            warnings.simplefilter("ignore")
            deb = ISIMIP(distribution=isimip_family.IsiRatSigmoid(), **kw)
        ts, xs = [], []
        for _ in range(3):
            ny = rng.choice([3, 4, 5, 6])
            start = datetime.date(rng.randint(1960, 2080), 1, 1)
            stride = rng.choice([3, 4, 5]) if rw else rng.choice([5, 7, 9])
            t = np.array([start + datetime.timedelta(days=j) for j in range(0, 365 * ny + 1, stride)], dtype=object)
            base = rng.randint(100, 20000)
            slope = rng.choice([0, rng.randint(-400, 400), rng.randint(-3000, 3000)])  # per year, in 1/64: none / weak / strong trend
            uniq = list(range(t.size))  # distinct low-order digits: tie-free series (ties are what step 6's ranking cannot order)
            rng.shuffle(uniq)
            x = np.array([(base + slope * (d.year - start.year) + rng.randint(-640, 640)
                           + int(300 * np.cos(2 * np.pi * d.timetuple().tm_yday / 365.25))) * 1024 + u for d, u in zip(t, uniq)], dtype=float) / 65536
            if rng.random() < shuffle_prob:  # non-chronological storage (values permuted with their dates)
                perm = np.random.RandomState(rng.randint(0, 2**31 - 1)).permutation(t.size)
                t, x = t[perm], x[perm]
            ts.append(t)
            xs.append(x)
        with IC.Spy() as spy:
            try:
                out, exc = deb.apply_location(xs[0].copy(), xs[1].copy(), xs[2].copy(), ts[0], ts[1], ts[2]), None
            except Exception as ex:  # noqa: BLE001
                out, exc = None, type(ex).__name__
        with warnings.catch_warnings():
            warnings.simplefilter("ignore")
            doy = [np.asarray(day_of_year(t), dtype=int) for t in ts]
            mon = [np.asarray(month(t), dtype=int) for t in ts]
            yrs = [np.asarray(year(t), dtype=int) for t in ts]
        case = {"config": "apply_location+detrending", "k": k, "mode": "rw" if rw else "months", "L": L, "S": S,
                "sizes": [int(x.size) for x in xs], "npqm": kw["nonparametric_qm"], "sigtest": kw["detrending_with_significance_test"]}
        if exc is not None or len(spy.sig) % 3 != 0 or not spy.sig or spy.uniform or spy.random or spy.ks:
            res.extra["applylocorc_skipped"] = res.extra.get("applylocorc_skipped", 0) + 1
            continue
        bits = ",".join("".join("1" if b else "0" for b in spy.sig[j:j + 3]) + "1" for j in range(0, len(spy.sig), 3))
        Ln = deb.running_window.window_length_in_days if rw else 1
        Sn = deb.running_window.window_step_length_in_days if rw else 1
        line = (f"applylocorc {'rw' if rw else 'months'} {IC.cfg_token(deb)} {bits} {Ln} {Sn} " + " ".join(C.ilist(d) for d in doy) + " "
                + " ".join(C.ilist(m) for m in mon) + " " + " ".join(C.ilist(y) for y in yrs) + " " + " ".join(IC.rl(x) for x in xs))
        case["windows"] = len(spy.sig) // 3
        case["significant"] = int(sum(spy.sig))
        exps.append(IC.Expect("applylocorc", line, case, out=out, inputs=xs, pyflags=set(spy.flags)))
        res.count(("applylocorc", rw, L, S, kw["nonparametric_qm"], kw["detrending_with_significance_test"], any(spy.sig)), True,
                  sample=case if k < 2 else None)
    if not exps:
        return []
    try:
        out = C.run_driver("DrvIsimip", [e.line for e in exps])
    except C.DriverError as ex:
        return [{"op": "driver", "case": {}, "detail": str(ex)[:600]}]
    mismatches = []
    hist = res.extra.setdefault("branch_hist", {})
    for e, got in zip(exps, out):
        res.cov["traces_validated_against_impl"] += 1
        toks = got.split(" ")
        if toks[0] != "ok":
            ok, detail = False, f"applylocorc: impl ok, model {got[:80]}"
        else:
            model = [float("nan") if t == "none" else float(Fraction(t)) for t in toks[1].split(",")] if toks[1] != "-" else []
            real = [float(v) for v in e.out]
            ok = IC.close(model, real, IC.scale_of(*e.inputs, [v for v in real if v == v]))
            detail = f"applylocorc: {IC.worst(model, real)}"
        flags = set(e.pyflags) | (set(toks[2].split(",")) if toks[0] == "ok" and len(toks) > 2 and toks[2] != "-" else set())
        status = "ok" if ok else ("tie" if flags else "mismatch")
        key = f"applylocorc:{e.case['mode']}:{status}"
        hist[key] = hist.get(key, 0) + 1
        if status == "tie":
            res.extra["ties_accepted"] = res.extra.get("ties_accepted", 0) + 1
        elif status == "mismatch":
            mismatches.append({"op": "applylocorc", "case": e.case, "detail": detail[:500], "line": e.line[:2000]})
    return mismatches


# ------------------------------------------------------------------ tier B: skeletons on shuffled dated series
def skeleton_cases_permuted(rng, n, tier, res, problems):
    """like probes.skeleton_cases, but the three dated series are shuffled (values together with their dates) before the
    real apply_location and the driver see them; additionally the (exact, integer) result on the shuffled input is
    compared with the shuffled result of the ordered input — the property itself, on the probe window functions."""
    from ibicus.utils import day_of_year, month, year

    ProbeRW, ProbeDC, ProbeISIMIP, ProbeCDFt, ProbeQDM = probes.classes()
    lines, expect = [], []
    maxn = 400 if tier == "quick" else 800
    for k in range(n):
        kind = ["rw", "dc", "isimip_rw", "isimip_months", "cdft_years", "qdm_years"][k % 6]
        dO, dH, dF = probes.small_span(rng, maxn), probes.small_span(rng, maxn), probes.small_span(rng, maxn)
        S = rng.choice([1, 3, 5, 9, 31, rng.randint(1, 60)])
        L = S + rng.choice([0, 0, 2, rng.randint(0, 40)])
        nprs = np.random.RandomState(rng.randint(0, 2**31 - 1))
        YL = YS = None
        if kind in ("cdft_years", "qdm_years"):
            yrs = rng.randint(1, 12)
            start = datetime.date(rng.randint(1960, 2080), rng.randint(1, 12), rng.randint(1, 28))
            dF = probes.dates_from(start, 366 * yrs)[:: rng.randint(5, 23)]
            YL, YS = rng.choice([(17, 9), (3, 1), (1, 1), (5, 3), (rng.randint(1, 12), rng.randint(1, 6))])
            if YS > YL:
                YL, YS = YS, YL
        eq = rng.random()
        if kind not in ("cdft_years", "qdm_years") and eq < 0.5:  # equal-length series on different dates, own permutations
            def same_len(n):
                st = datetime.date(rng.randint(1960, 2080), 1, 1) + datetime.timedelta(days=rng.randint(0, 365))
                return probes.dates_from(st, n)
            if eq < 0.25:
                dH = same_len(dO.size)
            elif eq < 0.4:
                dH = same_len(dF.size)
            else:
                dH, dF = same_len(dO.size), same_len(dO.size)
        o = nprs.randint(-9, 10, dO.size).astype(float)
        h = nprs.randint(-9, 10, dH.size).astype(float)
        f = nprs.randint(-9, 10, dF.size).astype(float)
        kinds = pick_kinds(rng)
        if kind not in ("cdft_years", "qdm_years") and eq < 0.5:
            kinds = [rng.choice(["full", "blockswap", "rotate"]) for _ in range(3)]
        pO, pH, pF = make_perm(nprs, o.size, kinds[0]), make_perm(nprs, h.size, kinds[1]), make_perm(nprs, f.size, kinds[2])
        case = {"kind": "skeleton-permuted-" + kind, "L": L, "S": S, "YL": YL, "YS": YS, "startF": str(dF[0]), "nF": int(dF.size),
                "nO": int(dO.size), "nH": int(dH.size), "perms": kinds}
        o2, h2, f2, dO2, dH2, dF2 = o[pO], h[pH], f[pF], dO[pO], dH[pH], dF[pF]
        with warnings.catch_warnings():
            warnings.simplefilter("ignore")
            doyO, doyH, doyF = day_of_year(dO2), day_of_year(dH2), day_of_year(dF2)
        Ln, Sn = L + (L % 2 == 0), S + (S % 2 == 0)
        if kind == "rw":
            mk = lambda: ProbeRW(running_window_mode=True, running_window_length=L, running_window_step_length=S)  # noqa: E731
            lines.append(f"applyrw {Ln} {Sn} {C.ilist(doyO)} {C.ilist(doyH)} {C.ilist(doyF)} {C.ilist(o2)} {C.ilist(h2)} {C.ilist(f2)}")
        elif kind == "dc":
            mk = lambda: ProbeDC(delta_type="additive", running_window_mode=True, running_window_length=L, running_window_step_length=S)  # noqa: E731
            lines.append(f"applydc {Ln} {Sn} {C.ilist(doyO)} {C.ilist(doyH)} {C.ilist(doyF)} {C.ilist(o2)} {C.ilist(h2)} {C.ilist(f2)}")
        elif kind == "isimip_rw":
            mk = lambda: ProbeISIMIP.from_variable("tas", running_window_mode=True, running_window_length=L, running_window_step_length=S)  # noqa: E731
            lines.append(f"applyrw {Ln} {Sn} {C.ilist(doyO)} {C.ilist(doyH)} {C.ilist(doyF)} {C.ilist(o2)} {C.ilist(h2)} {C.ilist(f2)}")
        elif kind == "isimip_months":
            mk = lambda: ProbeISIMIP.from_variable("tas", running_window_mode=False)  # noqa: E731
            lines.append(f"applymonths {C.ilist(month(dO2))} {C.ilist(month(dH2))} {C.ilist(month(dF2))} {C.ilist(o2)} {C.ilist(h2)} {C.ilist(f2)}")
        else:
            cls = ProbeCDFt if kind == "cdft_years" else ProbeQDM
            kw = dict(running_window_mode=False, running_window_mode_over_years_of_cm_future=True,
                      running_window_over_years_of_cm_future_length=YL, running_window_over_years_of_cm_future_step_length=YS)
            mk = lambda: cls.from_variable("tas", **kw)  # noqa: E731
            YLn, YSn = YL + (YL % 2 == 0), YS + (YS % 2 == 0)
            lines.append(f"applyyears {YLn} {YSn} {C.ilist(year(dF2))} {C.ilist(f2)}")
        exp_perm = probes.run_real(lambda: mk().apply_location(o2, h2, f2, dO2, dH2, dF2))
        expect.append(("skeleton-permuted:" + kind, case, exp_perm))
        # the property on the probe: result of the ordered input, permuted like cm_future (obs for DeltaChange)
        exp_sorted = probes.run_real(lambda: mk().apply_location(o, h, f, dO, dH, dF))
        pOut = pO if kind == "dc" else pF
        if exp_sorted.startswith("ok ") and exp_perm.startswith("ok "):
            a = exp_sorted[3:].split(",") if exp_sorted != "ok -" else []
            b = exp_perm[3:].split(",") if exp_perm != "ok -" else []
            want = [a[j] for j in pOut] if len(a) == len(pOut) else None
            if want != b:
                nbad = sum(1 for x, y in zip(want or [], b) if x != y) if want is not None and len(want) == len(b) else -1
                problems.append((f"probe window function through the real apply_location ({kind}): result on the shuffled dated series differs from the "
                                 f"shuffled result at {nbad} steps", {"what": "skeleton-permuted/" + kind, **case}))
        elif exp_sorted != exp_perm:
            problems.append((f"probe ({kind}): ordered input gives {exp_sorted[:40]!r}, shuffled input gives {exp_perm[:40]!r}",
                             {"what": "skeleton-permuted/" + kind, **case}))
        res.count(("skelp", kind, L, S, int(dF.size), tuple(kinds)), True, sample=case if k < 3 else None)
    return lines, expect


# ------------------------------------------------------------------ the property's oracle on the real debiasers
def pr_like(nprs, n, pdry):
    """tie-free precipitation-like data: 'dry' days are distinct tiny positives below ISIMIP's lower threshold"""
    x = nprs.gamma(0.8, 4e-5, n) + PR_THR * 1.01
    dry = nprs.random_sample(n) < pdry
    x[dry] = nprs.uniform(0, PR_THR, int(dry.sum())) * 0.999 + PR_THR * 1e-6
    return x


ISIMIP_VARS = ["hurs", "prsnratio", "psl", "rlds", "rsds", "sfcWind", "tasrange", "tasskew"]  # tas and pr have their own cases


def isimip_var_like(var, nprs, dates, shift):
    """tie-free data in the physical range of an ISIMIP variable (seasonal cycle, values beyond the variable's thresholds
    as distinct numbers); `shift` separates obs / cm_hist / cm_future"""
    n = dates.size
    doy = np.array([d.timetuple().tm_yday for d in dates])
    s = np.sin(2 * np.pi * (doy - 100) / 365.25)
    if var == "hurs":
        x = np.clip(100 * nprs.beta(4, 1.5, n) * (0.9 + 0.05 * s) + shift, 0, 100)
        hi = x >= 99.99
        x[hi] = 99.99 + 0.00999 * nprs.uniform(0, 1, int(hi.sum()))
        lo = x <= 0.01
        x[lo] = 0.00999 * nprs.uniform(0, 1, int(lo.sum()))
        return x
    if var in ("prsnratio", "tasskew"):
        x = nprs.beta(2, 2.5, n) * 0.98 + 0.01 + 0.001 * shift
        if var == "prsnratio":
            k = nprs.random_sample(n) < 0.15
            x[k] = nprs.uniform(0, 0.0001, int(k.sum())) * 0.99
            k = nprs.random_sample(n) < 0.05
            x[k] = 0.9999 + nprs.uniform(0, 0.0001, int(k.sum())) * 0.99
        return x
    if var == "psl":
        return 101000 + 800 * s + 600 * nprs.standard_normal(n) + 50 * shift
    if var == "rlds":
        return 310 + 60 * s + 25 * nprs.standard_normal(n) + 3 * shift
    if var == "rsds":
        x = (220 + 130 * s + 2 * shift) * nprs.beta(3, 1.2, n)
        k = nprs.random_sample(n) < 0.03
        x[k] = nprs.uniform(0, 1e-5, int(k.sum()))
        return x
    if var in ("sfcWind", "tasrange"):
        x = (5 + 1.5 * s + 0.2 * shift) * nprs.weibull(2.2, n)
        k = x <= 0.01
        x[k] = nprs.uniform(0.0001, 0.0099, int(k.sum()))
        return x
    raise KeyError(var)


def factories(L, S, seed=0):
    """name -> (factory, needs_seed, data kind).  The eight debiasers with tas settings in running-window mode
    (CDFt / QDM: year windows 17/9 by default), CDFt / QDM with other year windows, ISIMIP month mode, every ISIMIP variable
    (thresholds: step 4 randomises, seeded; rsds: steps 1 / 8), the precipitation models, window-free mode, large samples."""
    import scipy.stats
    from ibicus.debias import (CDFt, ECDFM, ISIMIP, LinearScaling, QuantileDeltaMapping, QuantileMapping,
                               ScaledDistributionMapping)

    kw = dict(running_window_mode=True, running_window_length=L, running_window_step_length=S)
    fs = {n: (mk, False, "tas") for n, mk in probes.window_debiasers(L, S).items()}
    for (yl, ys) in [(3, 1), (17, 9), (5, 3)]:
        ykw = dict(running_window_over_years_of_cm_future_length=yl, running_window_over_years_of_cm_future_step_length=ys)
        fs[f"CDFt-years{yl}/{ys}"] = (lambda ykw=ykw: CDFt.from_variable("tas", **kw, **ykw), False, "tas")
        fs[f"QuantileDeltaMapping-years{yl}/{ys}"] = (lambda ykw=ykw: QuantileDeltaMapping.from_variable("tas", **kw, **ykw), False, "tas")
        fs[f"CDFt-yearsonly{yl}/{ys}"] = (lambda ykw=ykw: CDFt.from_variable("tas", running_window_mode=False, **ykw), False, "tas")
    fs["CDFt-noyears"] = (lambda: CDFt.from_variable("tas", running_window_mode_over_years_of_cm_future=False, **kw), False, "tas")
    fs["QuantileDeltaMapping-noyears"] = (lambda: QuantileDeltaMapping.from_variable("tas", running_window_mode_over_years_of_cm_future=False, **kw), False, "tas")
    fs["ISIMIP-months"] = (lambda: ISIMIP.from_variable("tas", running_window_mode=False), False, "tas")
    fs["ISIMIP-trend"] = (lambda: ISIMIP.from_variable("tas", **kw), False, "tas-trend")
    fs["ISIMIP-trend-months"] = (lambda: ISIMIP.from_variable("tas", running_window_mode=False), False, "tas-trend")
    fs["ISIMIP-pr-seeded"] = (lambda: ISIMIP.from_variable("pr", **kw), True, "pr")
    fs["ISIMIP-pr-months-seeded"] = (lambda: ISIMIP.from_variable("pr", running_window_mode=False), True, "pr")
    for var in ISIMIP_VARS:  # every variable has its own special steps (bounds, thresholds, imputation, annual-cycle scaling …)
        fs[f"ISIMIP-{var}"] = (lambda var=var: ISIMIP.from_variable(var, **kw), True, "isimip:" + var)
        fs[f"ISIMIP-{var}-months"] = (lambda var=var: ISIMIP.from_variable(var, running_window_mode=False), True, "isimip:" + var)
    fs["ScaledDistributionMapping-pr"] = (lambda: ScaledDistributionMapping.from_variable("pr", **kw), False, "pr")
    fs["ScaledDistributionMapping-pr-windowfree"] = (lambda: ScaledDistributionMapping.from_variable("pr", running_window_mode=False), False, "pr")
    fs["QuantileMapping-nonparametric"] = (lambda: QuantileMapping.from_variable("tas", mapping_type="nonparametric", **kw), False, "tas")
    off = dict(running_window_mode=False)
    noyr = dict(running_window_mode=False, running_window_mode_over_years_of_cm_future=False)
    fs["LinearScaling-windowfree"] = (lambda: LinearScaling.from_variable("tas", **off), False, "tas")
    fs["QuantileMapping-windowfree"] = (lambda: QuantileMapping.from_variable("tas", **off), False, "tas")
    fs["ScaledDistributionMapping-windowfree"] = (lambda: ScaledDistributionMapping.from_variable("tas", **off), False, "tas")
    fs["ECDFM-windowfree"] = (lambda: ECDFM.from_variable("tas", distribution=scipy.stats.norm, **off), False, "tas")
    # the precipitation models (censored gamma: Nelder-Mead fit, values below the censoring threshold are randomised in the cdf;
    # hurdle without randomisation; ignore_zeros)
    thr = 0.1 / 86400
    fs["QuantileDeltaMapping-pr"] = (lambda: QuantileDeltaMapping.from_variable("pr", **kw), True, "pr")
    fs["QuantileDeltaMapping-pr-windowfree"] = (lambda: QuantileDeltaMapping.from_variable("pr", **off), True, "pr")
    fs["QuantileMapping-pr-censored-windowfree"] = (lambda: QuantileMapping.for_precipitation(model_type="censored", **off), True, "pr")
    fs["ECDFM-pr-censored-windowfree"] = (lambda: ECDFM.for_precipitation(model_type="censored", censoring_threshold=thr, **off), True, "pr")
    fs["QuantileMapping-pr-censored"] = (lambda: QuantileMapping.for_precipitation(model_type="censored", **kw), True, "pr")
    fs["QuantileMapping-pr-hurdle-windowfree"] = (lambda: QuantileMapping.for_precipitation(model_type="hurdle", hurdle_model_randomization=False, **off), False, "pr")
    fs["QuantileMapping-pr-ignorezeros-windowfree"] = (lambda: QuantileMapping.for_precipitation(model_type="ignore_zeros", **off), False, "pr")
    fs["CDFt-pr"] = (lambda: CDFt.from_variable("pr", SSR=False, **kw), False, "pr")
    # large samples (window-free or long windows): size-gated code paths
    for nm in ("QuantileDeltaMapping-pr-windowfree", "QuantileMapping-pr-censored-windowfree", "ECDFM-pr-censored-windowfree",
               "QuantileMapping-pr-hurdle-windowfree", "QuantileMapping-pr-ignorezeros-windowfree", "ScaledDistributionMapping-pr-windowfree",
               "QuantileDeltaMapping-pr", "ISIMIP-pr-seeded", "CDFt-pr", "LinearScaling-windowfree", "QuantileMapping-windowfree",
               "ScaledDistributionMapping-windowfree", "ECDFM-windowfree", "ISIMIP", "ISIMIP-rsds", "ISIMIP-hurs", "CDFt"):
        fs[nm + "-large"] = fs[nm]
    # documented non-default options (drawn from the case's seed): the property is stated for every setting
    orng = random.Random(seed)

    def isimip_options(var, mode_kw):
        opt = {}
        if var in ("tas", "psl", "rlds") and orng.random() < 0.6:
            opt["event_likelihood_adjustment"] = True
        elif orng.random() < 0.3:
            opt["event_likelihood_adjustment"] = True
        for key, val, pr_ in (("nonparametric_qm", None, 0.3), ("detrending_with_significance_test", False, 0.3),
                              ("trend_transfer_only_for_values_within_threshold", False, 0.3),
                              ("bias_correct_frequencies_of_values_beyond_thresholds", False, 0.3),
                              ("ks_test_for_goodness_of_cdf_fit", False, 0.4), ("mode_non_parametric_qm", "isimipv3.0", 0.3),
                              ("ecdf_method", "step_function", 0.3), ("iecdf_method", orng.choice(["inverted_cdf", "hazen", "closest_observation"]), 0.3)):
            if orng.random() < pr_:
                opt[key] = val
        if "nonparametric_qm" in opt:
            opt["nonparametric_qm"] = var in ("tas", "psl", "rlds", "pr", "sfcWind", "tasrange")  # the opposite of the variable's default
        return lambda: ISIMIP.from_variable(var, **mode_kw, **opt)

    for var in ["tas", "psl", "pr"] + ISIMIP_VARS:
        kind_ = {"tas": "tas", "pr": "pr"}.get(var, "isimip:" + var)
        fs[f"ISIMIP-{var}-options"] = (isimip_options(var, kw), True, kind_)
        fs[f"ISIMIP-{var}-options-months"] = (isimip_options(var, dict(running_window_mode=False)), True, kind_)
    for var in ("tas", "psl"):
        kind_ = {"tas": "tas"}.get(var, "isimip:" + var)
        fs[f"ISIMIP-{var}-ela"] = (lambda var=var: ISIMIP.from_variable(var, event_likelihood_adjustment=True, **kw), True, kind_)
        fs[f"ISIMIP-{var}-ela-months"] = (lambda var=var: ISIMIP.from_variable(var, event_likelihood_adjustment=True, running_window_mode=False), True, kind_)
    qm_opt = dict(detrending=orng.choice(["additive", "multiplicative", "no_detrending"]), mapping_type=orng.choice(["parametric", "nonparametric"]))
    fs["QuantileMapping-options"] = (lambda: QuantileMapping.from_variable("tas", **kw, **qm_opt), False, "tas")
    cdft_opt = dict(delta_shift=orng.choice(["additive", "multiplicative", "no_shift"]),
                    ecdf_method=orng.choice(["step_function", "linear_interpolation"]),
                    iecdf_method=orng.choice(["inverted_cdf", "linear", "hazen", "closest_observation", "averaged_inverted_cdf"]))
    fs["CDFt-options"] = (lambda: CDFt.from_variable("tas", **kw, **cdft_opt), False, "tas")
    qdm_opt = dict(trend_preservation=orng.choice(["absolute", "relative"]), ecdf_method=orng.choice(["step_function", "linear_interpolation"]))
    fs["QuantileDeltaMapping-options"] = (lambda: QuantileDeltaMapping.from_variable("tas", **kw, **qdm_opt), False, "tas")
    fs["LinearScaling-multiplicative"] = (lambda: LinearScaling.from_variable("tas", delta_type="multiplicative", **kw), False, "tas")
    from ibicus.debias import DeltaChange as _DC
    fs["DeltaChange-multiplicative"] = (lambda: _DC.from_variable("tas", delta_type="multiplicative", **kw), False, "tas")
    ecdfm_dist = orng.choice([scipy.stats.norm, scipy.stats.laplace, scipy.stats.norm])
    ecdfm_thr = orng.choice([1e-10, 1e-3])
    fs["ECDFM-options"] = (lambda: ECDFM.from_variable("tas", distribution=ecdfm_dist, cdf_threshold=ecdfm_thr, **kw), False, "tas")
    fs["CDFt-windowfree-large"] = (lambda: CDFt.from_variable("tas", **noyr), False, "tas")
    fs["QuantileDeltaMapping-windowfree-large"] = (lambda: QuantileDeltaMapping.from_variable("tas", **noyr), False, "tas")
    fs["QuantileMapping-nonparametric-windowfree-large"] = (lambda: QuantileMapping.from_variable("tas", mapping_type="nonparametric", **off), False, "tas")
    return fs


def case_opts(name):
    """tolerance / comparison options of a configuration.
    * censored gamma (QDM pr, QM / ECDFM for_precipitation(censored)): the Nelder-Mead likelihood fit has ~1e-7 relative noise
      under re-ordering of the sample (summation order) -> relative tolerance 1e-4;
    * QM / ECDFM with the censored model: the cdf of a value below the censoring threshold is a fresh random draw per array
      position (inherently random, like CDFt's SSR) -> only the time steps at or above the threshold are compared (QDM censors
      them to zero, so there all steps are compared)."""
    o = {"rtol": 1e-9, "mask": None, "thr": None}
    if "pr-censored" in name or name.startswith("QuantileDeltaMapping-pr"):
        o["rtol"] = 1e-4
    if "pr-censored" in name:
        o["mask"] = "wet"
        # QuantileMapping detrends multiplicatively before the cdf: the randomised steps are those with x / delta below the
        # threshold, delta = mean(cm_future) / mean(cm_hist) of the window (within [1/4, 4] for the generated data)
        o["thr"] = (4 if name.startswith("QuantileMapping") else 1) * 0.1 / 86400
    return o


BASE8 = ["LinearScaling", "DeltaChange", "QuantileMapping", "ScaledDistributionMapping", "ECDFM", "CDFt", "QuantileDeltaMapping", "ISIMIP"]
EXTRA = ["CDFt-years3/1", "QuantileDeltaMapping-years3/1", "CDFt-years17/9", "QuantileDeltaMapping-years17/9", "CDFt-years5/3",
         "QuantileDeltaMapping-years5/3", "CDFt-yearsonly3/1", "CDFt-yearsonly17/9", "CDFt-noyears", "QuantileDeltaMapping-noyears",
         "ISIMIP-months", "ISIMIP-trend", "ISIMIP-trend-months", "ISIMIP-pr-seeded", "ISIMIP-pr-months-seeded",
         "ScaledDistributionMapping-pr", "ScaledDistributionMapping-pr-windowfree", "QuantileMapping-nonparametric", "LinearScaling-windowfree",
         "QuantileMapping-windowfree", "ScaledDistributionMapping-windowfree", "ECDFM-windowfree"]
ISIMIP_ALL = [f"ISIMIP-{v}{m}" for v in ISIMIP_VARS for m in ("", "-months")]
PRECIP = ["QuantileDeltaMapping-pr", "QuantileDeltaMapping-pr-windowfree", "QuantileMapping-pr-censored-windowfree", "ECDFM-pr-censored-windowfree",
          "QuantileMapping-pr-censored", "QuantileMapping-pr-hurdle-windowfree", "QuantileMapping-pr-ignorezeros-windowfree", "CDFt-pr"]
# (name, expensive): expensive ones get the smallest "large" size in the quick tier
LARGE = [("QuantileDeltaMapping-pr-windowfree-large", True), ("QuantileMapping-pr-censored-windowfree-large", False),
         ("ECDFM-pr-censored-windowfree-large", False), ("QuantileMapping-pr-hurdle-windowfree-large", False),
         ("QuantileMapping-pr-ignorezeros-windowfree-large", False), ("ScaledDistributionMapping-pr-windowfree-large", False),
         ("ISIMIP-pr-seeded-large", False), ("CDFt-pr-large", False), ("LinearScaling-windowfree-large", False),
         ("QuantileMapping-windowfree-large", False), ("ScaledDistributionMapping-windowfree-large", False), ("ECDFM-windowfree-large", False),
         ("ISIMIP-large", False), ("ISIMIP-rsds-large", False), ("ISIMIP-hurs-large", False), ("CDFt-large", False),
         ("CDFt-windowfree-large", False), ("QuantileDeltaMapping-windowfree-large", False),
         ("QuantileMapping-nonparametric-windowfree-large", False)]
OPTIONS = ([f"ISIMIP-{v}-options{m}" for v in ["tas", "psl", "pr"] + ISIMIP_VARS for m in ("", "-months")]
           + ["ISIMIP-tas-ela", "ISIMIP-psl-ela", "ISIMIP-tas-ela-months", "ISIMIP-psl-ela-months", "QuantileMapping-options", "CDFt-options",
              "QuantileDeltaMapping-options", "LinearScaling-multiplicative", "DeltaChange-multiplicative", "ECDFM-options"])
LARGE_THOROUGH = [("QuantileDeltaMapping-pr-large", True)]  # 60+ years with the default 91-day window: > 4000 wet values per window
OUTLIER_OK = ("tas", "tas-trend", "isimip:psl", "isimip:rlds")


def rank_based(name):
    """configurations whose theorem carries a tie-free guard (`np.argsort` on ties is unspecified): SDM and ISIMIP (step 6, step 4)"""
    return name.startswith(("ScaledDistributionMapping", "ISIMIP"))


def data_kind(name):
    if name.endswith("-large"):
        name = name[:-6]
    if name.startswith("ISIMIP-") and name.split("-")[1] in ISIMIP_VARS + ["psl"]:
        return "isimip:" + name.split("-")[1]
    if "-pr" in name:
        return "pr"
    return "tas-trend" if "trend" in name else "tas"


def gen_case(rng, name, tier, size_rank=None):
    """plain-data description of one oracle case (everything needed to rebuild it: `build`)"""
    kind = data_kind(name)
    large = name.endswith("-large")
    y0 = rng.randint(1960, 2080)
    if rng.random() < 0.5:
        y0 -= y0 % 4  # the corrected series starts in a leap year
    S = rng.choice([15, 31, 45, 61, rng.randint(15, 91)])
    L = S + rng.choice([0, 16, 30, 60])
    many_years = "years17/9" in name or "yearsonly17/9" in name
    if many_years:
        nyears = rng.choice([19, 23]) if tier == "quick" else rng.choice([19, 23, 30])
    elif "years" in name or "trend" in name:
        nyears = rng.choice([4, 6, 7])
    else:
        nyears = rng.choice([1, 2, 3])
    # outliers: 2-3 distinct extreme values (far beyond 6.4 fitted standard deviations, where a normal cdf saturates at the
    # thresholds 1e-10 / 1 - 1e-10) on neighbouring days: the inputs stay tie-free, intermediate quantities become tied
    outliers = None
    if kind in OUTLIER_OK and not large and rng.random() < (0.6 if "ScaledDistributionMapping" in name else 0.35):
        outliers = {"k": rng.choice([2, 3, 3]), "sign": rng.choice([1, 1, -1]), "who": rng.choice(["F", "F", "OHF"])}
        if "windowfree" not in name and "months" not in name:
            S = rng.choice([31, 45, 61])
            L = S + rng.choice([30, 60, 90])  # enough values per window for the outliers to stay > 6.4 sigma after the fit
        nyears = max(nyears, 3)
    # a corrected period in which day of year 366 never occurs (no 31 December of a leap year): per-day-of-year tables then have
    # 365 entries and are indexed through the list of days present
    no366 = False
    if not large and nyears <= 3 and rng.random() < (0.5 if kind.startswith("isimip:") else 0.3):
        no366 = True
        y0 = y0 - y0 % 4 + 1
    off = rng.choice([0, rng.randint(1, 364), rng.randint(1, 364)])  # not starting on 1 January
    nX = 365 * nyears + rng.randint(0, 60)
    if nyears == 1 and rng.random() < 0.3 and not outliers:
        nX = rng.randint(120, 364)
    if no366:
        nX = min(nX, 365 * 3 + 364 - off)  # ends before 31 December of year y0 + 3 (the next leap year)
    ncal = [5, 6] if "trend" in name else [2, 3, 4]
    cal1 = {"start": [y0 - 30, 1, 1], "n": 365 * rng.choice(ncal[:2]) + rng.randint(1, 30)}
    cal2 = {"start": [y0 - 12 - (y0 - 12) % 4 if rng.random() < 0.5 else y0 - 11, 1, 1], "n": 365 * rng.choice(ncal) + rng.randint(1, 30)}
    startX = datetime.date(y0, 1, 1) + datetime.timedelta(days=off)
    X = {"start": [startX.year, startX.month, startX.day], "n": nX}
    if large:
        # every series long: more than 4000 / 10001 / 20000 values (wet values for precipitation) in a fitting sample
        sizes = [16, 40, 72] if kind == "pr" else [12, 30, 60]
        ny = sizes[size_rank if size_rank is not None else rng.randrange(3)]
        if "windowfree" not in name:
            L, S = 91, 31
        cal1 = {"start": [y0 - 160, 1, 1], "n": 365 * ny + rng.randint(1, 30)}
        cal2 = {"start": [y0 - 80, 3, 1], "n": 365 * ny + rng.randint(1, 30)}
        X = {"start": [startX.year, startX.month, startX.day], "n": 365 * ny + rng.randint(0, 60)}
    if name.startswith("DeltaChange"):
        spans = {"O": X, "H": cal1, "F": cal2}
    else:
        spans = {"O": cal1, "H": cal2, "F": X}
    kinds = pick_kinds(rng)
    # equal-length series (same reference period / same number of steps) stored in DIFFERENT orders: code that reuses the
    # index set or the order of one series for another one of the same size is only visible then
    r = rng.random()
    equal = None
    if name.startswith("DeltaChange"):
        equal = "OH" if r < 0.5 else ("OHF" if r < 0.6 else None)
    elif r < 0.45 and not no366:
        equal = rng.choice(["OH", "HF", "OHF", "OH", "HF"])
    if equal:
        n_eq = max(spans[k]["n"] for k in equal)
        for k in equal:
            spans[k] = {"start": list(spans[k]["start"]), "n": n_eq}
        if rng.random() < 0.3:  # ... also on the very same dates
            for k in equal[1:]:
                spans[k]["start"] = list(spans[equal[0]]["start"])
        for k in equal:  # every series of the group really re-ordered, each with its own permutation
            kinds["OHF".index(k)] = rng.choice(["full", "full", "blockswap", "rotate"])
    if large or outliers or no366:  # the corrected series (and the fitting samples) really re-ordered
        for k in range(3):
            if kinds[k] in ("identity", "reverse"):
                kinds[k] = rng.choice(["full", "full", "blockswap", "rotate"])
    # partial time information: the time array of some series is omitted (the library then infers consecutive dates from a 1 January
    # for THAT series only); such a series keeps its storage order, the others are re-ordered together with their dates
    omit = ""
    if not large and rng.random() < 0.2:
        omit = rng.choice(["O", "H", "F", "OH", "HF", "OF", "O", "H"])
        for k in omit:
            kinds["OHF".index(k)] = "identity"
        for k in "OHF":
            if k not in omit and kinds["OHF".index(k)] in ("identity", "reverse"):
                kinds["OHF".index(k)] = rng.choice(["full", "blockswap", "rotate"])
    # tied values (data stored with a finite resolution) for every method that is not rank based: their theorems need no tie-freeness
    rounded = (not rank_based(name)) and not outliers and rng.random() < 0.3
    return {"what": "oracle/" + name, "debiaser": name, "L": L, "S": S, "spans": spans, "np_seed": rng.randint(0, 2**31 - 1),
            "perms": kinds, "equal": equal, "outliers": outliers, "no366": no366, "omit": omit, "rounded": rounded, "verif_seed": C.seed()}


def inject_outliers(nprs, x, spec, sd):
    """k distinct extreme values on neighbouring days (same window), 25-45 noise standard deviations from the local level"""
    k = spec["k"]
    i0 = int(nprs.randint(0, max(1, x.size - k)))
    base = float(np.median(x))
    for j in range(k):
        x[i0 + j] = base + spec["sign"] * sd * (25.0 + 7.0 * j + nprs.uniform(0, 3))
    return x


def build(case):
    nprs = np.random.RandomState(case["np_seed"])
    sp = case["spans"]
    d = {k: probes.dates_from(datetime.date(*sp[k]["start"]), sp[k]["n"]) for k in "OHF"}
    mk, seeded, data = factories(case["L"], case["S"], case["np_seed"])[case["debiaser"]]
    if data == "pr":
        o, h, f = pr_like(nprs, d["O"].size, 0.2), pr_like(nprs, d["H"].size, 0.3), pr_like(nprs, d["F"].size, 0.25)
        if not case["debiaser"].startswith(("Quantile", "ECDFM", "CDFt")):  # the cases of the earlier rounds keep their data
            nprs = np.random.RandomState(case["np_seed"])
            o, h, f = pr_like(nprs, d["O"].size, 0.2), pr_like(nprs, d["H"].size, 0.45), pr_like(nprs, d["F"].size, 0.45)
    elif data.startswith("isimip:"):
        var = data.split(":")[1]
        o, h, f = (isimip_var_like(var, nprs, d[k], sh) for k, sh in (("O", 0), ("H", 1), ("F", 2)))
    else:
        o, h, f = probes.tas_like(nprs, d["O"], 283, 3), probes.tas_like(nprs, d["H"], 285, 4), probes.tas_like(nprs, d["F"], 287, 4)
        if data == "tas-trend":  # a significant trend in the annual means: ISIMIP's step 3 / step 7 are active
            yr = lambda dd: np.array([x.year + x.timetuple().tm_yday / 366.0 for x in dd])  # noqa: E731
            o, h, f = o + 0.8 * (yr(d["O"]) - yr(d["O"])[0]), h + 1.1 * (yr(d["H"]) - yr(d["H"])[0]), f + 1.5 * (yr(d["F"]) - yr(d["F"])[0])
    spec = case.get("outliers")
    if spec:
        sd = {"isimip:psl": 600.0, "isimip:rlds": 25.0}.get(data, 4.0)
        f = inject_outliers(nprs, f, spec, sd)
        if spec["who"] == "OHF":
            o, h = inject_outliers(nprs, o, spec, sd), inject_outliers(nprs, h, spec, sd)
    if case.get("rounded"):
        # a DYADIC resolution (1/8 K; 2^-24 for precipitation): sums of such values are exact in floating point, so the means /
        # shifts of the two runs are bit-identical and no comparison of a tied value with a knot of an empirical cdf (a genuine
        # discontinuity of the exact map) can be flipped by summation-order noise
        if data == "pr":  # dry days exactly zero
            o, h, f = (np.where(x < PR_THR, 0.0, np.round(x * 2.0**24) / 2.0**24) for x in (o, h, f))
        else:
            o, h, f = (np.round(x * 8) / 8 for x in (o, h, f))
    pO, pH, pF = (make_perm(nprs, x.size, k) for x, k in zip((o, h, f), case["perms"]))
    for a, b in ((pO, pH), (pH, pF), (pO, pF)):  # equal-length series must not share one permutation
        if a.size == b.size and a.size > 2 and np.array_equal(a, b) and not np.array_equal(a, np.arange(a.size)):
            b[:] = np.roll(b, 1)
    return mk, seeded, (o, h, f, d["O"], d["H"], d["F"]), (pO, pH, pF)


def run_case(case):
    """returns (status, detail): status in {"ok", "skip", "violation"}"""
    mk, seeded, (o, h, f, dO, dH, dF), (pO, pH, pF) = build(case)
    if rank_based(case["debiaser"]) and any(np.unique(x).size != x.size for x in (o, h, f)):
        return "skip", "ties in the generated data"
    omit = case.get("omit") or ""

    def times(tO, tH, tF):
        return (None if "O" in omit else tO, None if "H" in omit else tH, None if "F" in omit else tF)
    opts = case_opts(case["debiaser"])

    def run(args):
        if seeded:
            np.random.seed(case["np_seed"] % (2**31))
        with warnings.catch_warnings():
            warnings.simplefilter("ignore")
            try:
                return "ok", mk().apply_location(*args)
            except Exception as ex:  # noqa: BLE001
                return "error", type(ex).__name__ + ": " + str(ex)[:80]

    k1, a = run((o, h, f) + times(dO, dH, dF))
    variants = [(pO, pH, pF)]
    if case.get("outliers"):  # which storage orders expose a dependence on the order of tied intermediate values varies: try a second one
        nprs2 = np.random.RandomState(case["np_seed"] // 2 + 1)
        variants.append(tuple(np.arange(x.size) if k in omit else nprs2.permutation(x.size) for x, k in zip((o, h, f), "OHF")))
    worst_dev = 0.0
    for nv, (pO, pH, pF) in enumerate(variants):
        pOut = pO if case["debiaser"].startswith("DeltaChange") else pF
        k2, b = run((o[pO], h[pH], f[pF]) + times(dO[pO], dH[pH], dF[pF]))
        if k1 == "error" or k2 == "error":
            if k1 == k2 and a.split(":")[0] == b.split(":")[0]:
                return "skip", f"both runs raise {a.split(':')[0]}"
            return "violation", f"ordered input: {k1} {a if k1 == 'error' else ''}; shuffled input: {k2} {b if k2 == 'error' else ''}"
        if a.shape != (pOut.size,) or b.shape != a.shape:
            return "violation", f"result shapes {a.shape} / {b.shape}, expected ({pOut.size},)"
        scale = float(max(np.abs(o).max(), np.abs(h).max(), np.abs(f).max()))
        kind = data_kind(case["debiaser"])
        want = a[pOut]
        # tas-like data (scale ~ 300): the convention 1e-9 * (1 + scale); small-valued variables (pr ~ 1e-4, ratios) and ratio-type
        # transfer functions whose results can exceed the input scale: relative to max(|value|, scale), element-wise
        if kind in ("tas", "tas-trend"):
            tol_i = np.full(want.shape, opts["rtol"] * (1 + scale))
        else:
            tol_i = opts["rtol"] * np.maximum(np.abs(np.nan_to_num(want)), scale)
        bad = ~((np.abs(b - want) <= tol_i) | (np.isnan(b) & np.isnan(want)))
        if opts["mask"] == "wet":  # steps below the censoring threshold get a fresh random cdf value per array position
            bad &= f[pF] >= opts["thr"]
        if bad.any():
            i = int(np.where(bad)[0][0])
            date = (dO[pO] if case["debiaser"].startswith("DeltaChange") else dF[pF])[i]
            extra = "".join(f"; {k}={case[k]}" for k in ("outliers", "no366", "equal", "omit", "rounded") if case.get(k))
            how = f"perms obs/cm_hist/cm_future = {case['perms']}" if nv == 0 else "second storage order: three full permutations"
            return "violation", (f"{int(bad.sum())} of {bad.size} time steps changed their debiased value when the dated series were re-ordered "
                                 f"({how}{extra}); first: {date} {want[i]!r} -> {b[i]!r} (tol {tol_i[i]:.2e})")
        dev = np.abs(b - want) / (tol_i / opts["rtol"])
        if opts["mask"] == "wet":
            dev = dev[f[pF] >= opts["thr"]]
        if dev.size and not np.all(np.isnan(dev)):
            worst_dev = max(worst_dev, float(np.nanmax(dev)))
    return "ok", worst_dev


def oracle(rng, names, reps, tier, res, problems, size_ranks=None):
    worst = res.extra.setdefault("max_rel_deviation", {})
    for name in names:
        for r in range(reps):
            case = gen_case(rng, name, tier, size_rank=None if size_ranks is None else size_ranks[r % len(size_ranks)])
            status, detail = run_case(case)
            nontrivial = any(k != "identity" for k in case["perms"])
            if status == "ok":
                for key in ("equal", "outliers", "no366", "omit", "rounded"):
                    if case.get(key):
                        cnt = res.extra.setdefault("oracle_" + key + "_cases", {})
                        tag = case[key] if key in ("equal", "omit") else name.split("-")[0]
                        cnt[tag] = cnt.get(tag, 0) + 1
                if name.endswith("-large"):
                    cnt = res.extra.setdefault("oracle_large_cases", {})
                    cnt[str(case["spans"]["O"]["n"] // 365) + "y"] = cnt.get(str(case["spans"]["O"]["n"] // 365) + "y", 0) + 1
            res.count((name, case["L"], case["S"], tuple(case["perms"]), case["spans"]["F"]["n"], case.get("equal"), bool(case.get("outliers")),
                       case.get("no366")), nontrivial and status == "ok",
                      sample={k: case[k] for k in ("debiaser", "L", "S", "perms")} if r == 0 and name in ("ISIMIP", "CDFt-years3/1") else None)
            if status == "violation":
                problems.append((f"{name}: {detail}", case))
            elif status == "ok":
                worst[name] = max(worst.get(name, 0.0), detail)
            else:
                res.extra["oracle_skipped"] = res.extra.get("oracle_skipped", 0) + 1
                sk = res.extra.setdefault("oracle_skip_reasons", {})
                sk[f"{name}: {detail}"] = sk.get(f"{name}: {detail}", 0) + 1


# ------------------------------------------------------------------ missing values: ISIMIP step 2 (known finding F21)
IMPUTE_WHAT = "isimip_step2_imputation_storage_order"


def gen_imputation_case(rng, k, tier):
    """ISIMIP.from_variable("prsnratio") (impute_missing_values=True by default) on dated series with a few NaN entries in
    cm_future (every third case: in obs), every series fully re-ordered"""
    case = gen_case(rng, "ISIMIP-prsnratio" if k % 2 == 0 else "ISIMIP-prsnratio-months", tier)
    case.update(omit="", outliers=None, rounded=False, perms=["full", "full", "full"])
    for k2 in "OHF":  # every calendar month / window populated (an empty month raises in both runs: nothing to compare)
        case["spans"][k2] = {"start": list(case["spans"][k2]["start"]), "n": max(case["spans"][k2]["n"], 366)}
    case["nan"] = {"series": "O" if k % 3 == 2 else "F", "seed": rng.randint(0, 2**31 - 1)}
    return case


def run_imputation_case(case):
    """Judges the clause `the debiased value of every cm_future time step is unchanged` three times under the same seeding
    protocol (numpy's global generator re-seeded identically before each run): a control without missing values, then with
    NaN entries.  returns (status, detail, stats): status in {"ok", "skip", "violation", "known-step2"} (skip: both runs raise the same error):
      violation   — the control deviates, a run raises, or a deviation at a time step whose input value was present
                    (or any deviation when the NaNs are in obs: with detrending off the windows see obs as a multiset);
      known-step2 — the control agrees and ONLY time steps whose cm_future value was imputed deviate: `_step2_impute_values`
                    assigns the sorted sampled values to the missing entries by interpolating ranks along the array position."""
    mk, seeded, (o, h, f, dO, dH, dF), (pO, pH, pF) = build(case)

    def run(args):
        np.random.seed(case["np_seed"] % (2**31))
        with warnings.catch_warnings():
            warnings.simplefilter("ignore")
            try:
                return mk().apply_location(*args), None
            except Exception as ex:  # noqa: BLE001
                return None, type(ex).__name__ + ": " + str(ex)[:80]

    def deviation(oo, hh, ff):
        a, ea = run((oo.copy(), hh.copy(), ff.copy(), dO, dH, dF))
        b, eb = run((oo[pO], hh[pH], ff[pF], dO[pO], dH[pH], dF[pF]))
        if ea and eb and ea.split(":")[0] == eb.split(":")[0]:
            return "skip", f"both runs raise {ea.split(':')[0]}"
        if ea or eb:
            return None, f"ordered input: {ea or 'ok'}; shuffled input: {eb or 'ok'}"
        want = a[pF]
        bad = ~((np.abs(b - want) <= 1e-9 * np.maximum(np.abs(want), 1.0)) | (np.isnan(b) & np.isnan(want)))
        first = ""
        if bad.any():
            i = int(np.where(bad)[0][0])
            first = f"first: {dF[pF][i]} {want[i]!r} -> {b[i]!r}"
        return bad, first

    stats = {}
    bad, first = deviation(o, h, f)
    if isinstance(bad, str):
        return "skip", first, stats
    if bad is None:
        return "violation", "control without missing values: " + first, stats
    if bad.any():
        return "violation", (f"control WITHOUT missing values: {int(bad.sum())} of {bad.size} time steps changed their debiased value when the "
                             f"dated series were re-ordered; {first}"), stats
    ser = case["nan"]["series"]
    oo, ff = o.copy(), f.copy()
    x = oo if ser == "O" else ff
    idx = np.random.RandomState(case["nan"]["seed"]).choice(x.size, size=max(6, x.size // 15), replace=False)
    x[idx] = np.nan
    bad, first = deviation(oo, h, ff)
    if isinstance(bad, str):
        return "skip", first, stats
    if bad is None:
        return "violation", f"NaN entries in {ser}: " + first, stats
    missing = np.isnan(ff[pF])
    stats = {"series": ser, "missing": int(idx.size), "deviating": int(bad.sum()), "deviating_at_imputed_steps": int((bad & missing).sum())}
    if (bad & ~missing).any():
        return "violation", (f"{idx.size} NaN entries in {'obs' if ser == 'O' else 'cm_future'}: {int((bad & ~missing).sum())} time steps whose cm_future "
                             f"value was PRESENT changed their debiased value when the dated series were re-ordered; {first}"), stats
    if bad.any():
        return "known-step2", (f"{int(bad.sum())} of the {int(missing.sum())} time steps whose cm_future value was missing (imputed by step 2) changed their "
                               f"debiased value when the dated series were re-ordered (same seed; the control without NaN and every present "
                               f"time step agree); {first}"), stats
    return "ok", "", stats


def oracle_imputation(rng, n, tier, res, problems):
    hist = res.extra.setdefault("imputation_oracle", {})
    for k in range(n):
        case = gen_imputation_case(rng, k, tier)
        status, detail, stats = run_imputation_case(case)
        key = f"{case['debiaser']}:nan-in-{case['nan']['series']}:{status}"
        hist[key] = hist.get(key, 0) + 1
        res.count(("imputation", case["debiaser"], case["nan"]["series"], case["L"], case["S"], case["spans"]["F"]["n"]), status != "violation",
                  sample=dict({kk: case[kk] for kk in ("debiaser", "L", "S", "nan")}, **stats) if k < 2 else None)
        if status == "known-step2":
            case = dict(case, what=IMPUTE_WHAT)  # the signature of known finding F21
            problems.append((f"{case['debiaser']}: {detail}", case))
        elif status == "violation":
            problems.append((f"{case['debiaser']} (missing-value oracle): {detail}", case))  # what = "oracle/<name>": an ordinary violation


# ------------------------------------------------------------------ round 6: the public entry point x the representation of the time axis
# Quantifier covered: "for all series WITH DATES … all debiasers" — the statement is about debiasing, not about one call form or one
# date type.  The cases above reach the code only through `apply_location(obs, cm_hist, cm_future, t, t, t)` with object arrays of
# `datetime.date`; here the same dated series (same generator: `gen_case` / `build`) are handed over
#   * through the public 3-d entry point `Debiaser.apply` (serial, failsafe, parallel; DeltaChange overrides it) on a small grid whose
#     locations hold different data on the same time axes, and through `apply_location` with the time arrays as keywords;
#   * with the time axes in every representation the library's calendar helpers accept (`utils.day_of_year / month / year`:
#     `np.array(x)`, datetime64 of any unit -> [D] -> object): object arrays of `datetime.date`, `datetime.datetime` (with a time of
#     day), `pandas.Timestamp`; numpy datetime64 in the units D, h, s, ms, us, ns (sub-daily units with a time of day);
#     `pandas.DatetimeIndex` — the three series not necessarily in the same representation.
# The clause judged is the one of `run_case`: ordered storage vs each series permuted together with ITS time array, per location and
# per date, same tolerances and guards (tie-free data for rank-based methods, same numpy seed for randomised configurations).
TIME_REPRS = ["date", "datetime", "M8[D]", "M8[h]", "M8[s]", "M8[ms]", "M8[us]", "M8[ns]", "pandas.DatetimeIndex", "pandas.Timestamp"]
ENTRY_FORMS = ["apply", "apply-failsafe", "apply", "apply_location-kw", "apply", "apply-parallel", "apply", "apply_location-kw"]
ENTRY_NAMES = BASE8 + ["CDFt-years3/1", "QuantileDeltaMapping-years3/1", "ISIMIP-months", "ISIMIP-pr-seeded", "ISIMIP-rsds", "ISIMIP-trend",
                       "ScaledDistributionMapping-pr", "QuantileMapping-nonparametric", "DeltaChange-multiplicative", "CDFt-noyears"]


def time_axis(dates, kind, seed):
    """the calendar days `dates` (object array of datetime.date) in another representation; representations with a sub-daily
    resolution carry a time of day (whole hours, per time step) — the calendar day, hence the dated value, is the same"""
    n = dates.size
    hours = np.random.RandomState(seed % (2**31)).randint(0, 24, n)
    if kind == "date":
        return dates
    if kind == "datetime":
        return np.array([datetime.datetime(d.year, d.month, d.day, int(hh)) for d, hh in zip(dates, hours)], dtype=object)
    d64 = np.array([d.isoformat() for d in dates], dtype="datetime64[D]")
    if kind == "M8[D]":
        return d64
    if kind.startswith("M8["):
        return (d64.astype("datetime64[h]") + hours.astype("timedelta64[h]")).astype("datetime64" + kind[2:])
    import pandas as pd

    if kind == "pandas.DatetimeIndex":
        return pd.DatetimeIndex(d64.astype("datetime64[h]") + hours.astype("timedelta64[h]"))
    if kind == "pandas.Timestamp":
        return np.array([pd.Timestamp(year=d.year, month=d.month, day=d.day, hour=int(hh)) for d, hh in zip(dates, hours)], dtype=object)
    raise KeyError(kind)


def gen_entry_case(rng, name, k, off, tier):
    case = gen_case(rng, name, tier)
    out = 0 if name.startswith("DeltaChange") else 2  # the series the output is aligned with
    omit = case.get("omit") or ""
    if "OHF"[out] not in omit and case["perms"][out] == "identity":
        case["perms"][out] = rng.choice(["full", "blockswap", "rotate", "reverse"])
    r0 = TIME_REPRS[(k + off) % len(TIME_REPRS)]  # every representation on the output series within 10 consecutive cases
    reprs = [r0, r0, r0] if rng.random() < 0.5 else [rng.choice(TIME_REPRS) for _ in range(3)]
    reprs[out] = r0
    form = ENTRY_FORMS[(k + off // len(TIME_REPRS)) % len(ENTRY_FORMS)]
    grid = [1, 1] if form == "apply_location-kw" else rng.choice([[1, 1], [2, 1], [1, 2], [2, 1], [1, 2], [2, 2]])
    case.update(what="oracle-entry/" + name, entry={"form": form, "grid": grid, "time_repr": reprs, "tod_seed": rng.randint(0, 2**31 - 1)})
    return case


def run_entry_case(case):
    """returns (status, detail) like `run_case`; the call goes through `case["entry"]["form"]` with the time axes in
    `case["entry"]["time_repr"]`; location l of the grid holds the series of `build` rolled by 3*l positions (same multiset:
    physical range and tie-freeness are kept, the values at a date differ between locations)"""
    mk, seeded, (o, h, f, dO, dH, dF), (pO, pH, pF) = build(case)
    if rank_based(case["debiaser"]) and any(np.unique(x).size != x.size for x in (o, h, f)):
        return "skip", "ties in the generated data"
    e = case["entry"]
    form, (nx, ny) = e["form"], e["grid"]
    if form == "apply-parallel" and seeded:  # worker processes draw from copies of the global generator in an unspecified assignment
        form = "apply"
    omit = case.get("omit") or ""
    opts = case_opts(case["debiaser"])
    dc = case["debiaser"].startswith("DeltaChange")

    def grid(x):
        return np.stack([np.roll(x, 3 * l) for l in range(nx * ny)], axis=1).reshape(x.size, nx, ny)

    O, H, F = grid(o), grid(h), grid(f)
    tO, tH, tF = (time_axis(d, r, e["tod_seed"] + j) for j, (d, r) in enumerate(zip((dO, dH, dF), e["time_repr"])))

    def run(oo, hh, ff, t1, t2, t3):
        kw = {k: v for k, v, s in (("time_obs", t1, "O"), ("time_cm_hist", t2, "H"), ("time_cm_future", t3, "F")) if s not in omit}
        if seeded:
            np.random.seed(case["np_seed"] % (2**31))
        with warnings.catch_warnings():
            warnings.simplefilter("ignore")
            try:
                deb = mk()
                if form == "apply_location-kw":
                    return "ok", np.asarray(deb.apply_location(oo[:, 0, 0].copy(), hh[:, 0, 0].copy(), ff[:, 0, 0].copy(), **kw))[:, None, None]
                return "ok", np.asarray(deb.apply(oo, hh, ff, progressbar=False, failsafe=(form == "apply-failsafe"),
                                                  parallel=(form == "apply-parallel"), nr_processes=2, **kw))
            except Exception as ex:  # noqa: BLE001
                return "error", type(ex).__name__ + ": " + str(ex)[:80]

    k1, a = run(O, H, F, tO, tH, tF)
    k2, b = run(O[pO], H[pH], F[pF], tO[pO], tH[pH], tF[pF])
    how = f"entry point {form}, grid {nx}x{ny}, time axes obs/cm_hist/cm_future as {e['time_repr']}"
    if k1 == "error" or k2 == "error":
        if k1 == k2 and a.split(":")[0] == b.split(":")[0]:
            return "skip", f"both runs raise {a.split(':')[0]}"
        return "violation", f"{how}: ordered input: {k1} {a if k1 == 'error' else ''}; shuffled input: {k2} {b if k2 == 'error' else ''}"
    pOut = pO if dc else pF
    dOut, xOut = (dO, O) if dc else (dF, F)
    if a.shape != (pOut.size, nx, ny) or b.shape != a.shape:
        return "violation", f"{how}: result shapes {a.shape} / {b.shape}, expected ({pOut.size}, {nx}, {ny})"
    scale = float(max(np.abs(o).max(), np.abs(h).max(), np.abs(f).max()))
    want = a[pOut]
    if data_kind(case["debiaser"]) in ("tas", "tas-trend"):
        tol = np.full(want.shape, opts["rtol"] * (1 + scale))
    else:
        tol = opts["rtol"] * np.maximum(np.abs(np.nan_to_num(want)), scale)
    bad = ~((np.abs(b - want) <= tol) | (np.isnan(b) & np.isnan(want)))
    if opts["mask"] == "wet":
        bad &= xOut[pOut] >= opts["thr"]
    if bad.any():
        i, ix, iy = (int(v) for v in np.argwhere(bad)[0])
        extra = "".join(f"; {k}={case[k]}" for k in ("outliers", "no366", "equal", "omit", "rounded") if case.get(k))
        return "violation", (f"{int(bad.sum())} of {bad.size} debiased values changed when the dated series were re-ordered together with their time arrays "
                             f"({how}; perms obs/cm_hist/cm_future = {case['perms']}{extra}); first: location ({ix}, {iy}) {dOut[pOut][i]} "
                             f"{want[i, ix, iy]!r} -> {b[i, ix, iy]!r} (tol {tol[i, ix, iy]:.2e})")
    dev = np.abs(b - want) / (tol / opts["rtol"])
    return "ok", float(np.nanmax(dev)) if dev.size and not np.all(np.isnan(dev)) else 0.0


def oracle_entry(reps, tier, res, problems):
    rng = random.Random(C.seed() * 15485863 + 60606)  # an own stream: the cases of the earlier rounds do not shift
    off = rng.randrange(len(TIME_REPRS) * len(ENTRY_FORMS))
    hist = res.extra.setdefault("entry_oracle", {})
    worst = res.extra.setdefault("max_rel_deviation", {})
    k = 0
    for _ in range(reps):
        for name in ENTRY_NAMES:
            case = gen_entry_case(rng, name, k, off, tier)
            k += 1
            try:
                status, detail = run_entry_case(case)
            except Exception as ex:  # noqa: BLE001  (building the time axes / the grid: not the code under test, but never crash the check)
                status, detail = "skip", f"harness: {type(ex).__name__}: {str(ex)[:80]}"
            e = case["entry"]
            for key in (f"form:{e['form']}:{status}", f"time:{e['time_repr'][0 if name.startswith('DeltaChange') else 2]}:{status}"):
                hist[key] = hist.get(key, 0) + 1
            res.count(("entry", name, e["form"], tuple(e["time_repr"]), tuple(e["grid"]), tuple(case["perms"]), case["L"], case["S"],
                       case["spans"]["F"]["n"]), status == "ok",
                      sample={"debiaser": name, "perms": case["perms"], **e} if k <= 2 else None)
            if status == "violation":
                problems.append((f"{name}: {detail}", case))
            elif status == "ok":
                worst["entry/" + name] = max(worst.get("entry/" + name, 0.0), detail)
            else:
                res.extra["oracle_skipped"] = res.extra.get("oracle_skipped", 0) + 1
                sk = res.extra.setdefault("oracle_skip_reasons", {})
                sk[f"entry/{name}: {detail}"] = sk.get(f"entry/{name}: {detail}", 0) + 1


# ------------------------------------------------------------------ the check
def run(tier, res, force_search=False):
    with warnings.catch_warnings():
        warnings.simplefilter("ignore")
        return _run(tier, res, force_search)


def _run(tier, res, force_search=False):
    rng = random.Random(C.seed() * 15485863 + 6)
    res.rule = ("cases = (debiaser configuration, L, S, calendar spans incl. leap years / start off 1 January, permutation kind of each of the three "
                "dated series: full | blockswap | rotate | reverse | identity, equal-length groups, injected extreme outliers, spans without day 366, "
                "large samples (> 4000 / 10001 / 20000 values), data seed) from one PRNG (VERIF_SEED); configurations = the eight debiasers (tas), CDFt/QDM year "
                "windows, every ISIMIP variable in both modes, the precipitation models, window-free mode; non-trivial when at least one series is "
                "really re-ordered and both runs succeed; distinct = distinct (configuration, L, S, permutation kinds, length); entry cases = the same dated series through "
                "Debiaser.apply (grid 1x1 … 2x2; serial / failsafe / parallel) or apply_location with keyword time arrays x time axes as "
                "datetime.date / datetime.datetime / pandas.Timestamp objects, datetime64[D|h|s|ms|us|ns], pandas.DatetimeIndex")
    res.trusted = C.BASE_TRUSTED + [
        "calendar arithmetic (dates -> day of year / month / year) by Python; the model receives integer arrays",
        "numpy fancy-index / boolean-mask semantics as modelled in Model.Skeleton (take, maskSelect, pairsFor, applyWrites)",
        "np.argsort is modelled as a stable sort: rank-based theorems carry a tie-free (Nodup) hypothesis on cm_future",
        "distribution families are parameters; the only law used is 'fit does not depend on the storage order' (proved for the rational "
        "test double, assumed for scipy's families; scipy.stats.norm.fit is mean / std)",
        "layer-N models Model/Debiasers.lean, Model/Isimip.lean validated against the real per-window code by harness/debiasers_corr.py, harness/isimip_corr.py "
        "(windows, step 1 / step 8 and the whole apply_location also on non-chronological storage)",
        "tier A: the censored-gamma fit hands its optimiser a filter of the sample and a count (Gen.PrecipFit = Model.PrecipFit); the optimiser "
        "(_fit_censored_gamma, Nelder-Mead) is a parameter assumed to be a function of the multiset of its sample (InnerOrderFree)",
        "ISIMIP: the numbers np.random.uniform returned and the decisions of linregress / KS are parameters of the model, a function of the window "
        "(centre); both runs of a comparison get the same function (oracle: the same numpy seed)",
    ]
    res.assumptions = [
        "exact rational arithmetic in the theorems; float summation order is carried by the oracle's tolerance 1e-9*(1+scale)",
        "tie-free values for the rank-based methods (SDM, ISIMIP step 6)",
        "randomised configurations (ISIMIP with thresholds: step 4) are compared under the same numpy seed; CDFt with SSR, the hurdle model with "
        "randomisation and — for QuantileMapping / ECDFM with the censored gamma model — the time steps below the censoring threshold (a fresh random "
        "cdf value per array position) are outside the deterministic statement",
        "censored gamma model (Nelder-Mead likelihood fit, ~1e-6 relative order noise measured on the unchanged tree): relative tolerance 1e-4; "
        "all other configurations 1e-9 (tas-like: 1e-9*(1+scale); small-valued variables: 1e-9*max(|value|, scale))",
        "window step S = 2h+1 <= L (post-init normalisation, C07), days of year in 1..366",
    ]

    lean_ok = C.lean_phase(res, PROP, GEN, TARGETS)
    problems, mismatches = [], []
    if tier != "quick" and lean_ok:  # thorough: re-check the compiled declarations with the external kernel
        import fcntl

        mods = ["IbicusModel.Props.C06Inst", "IbicusModel.Props.C06Detrend", "IbicusModel.Lemmas.C06Dated", "IbicusModel.Props.C06", "IbicusModel.Lemmas.C06Stats", "IbicusModel.Lemmas.C06Rank",
                "IbicusModel.Lemmas.C06Years", "IbicusModel.Lemmas.C06Except", "IbicusModel.Lemmas.C06Isimip",
                "IbicusModel.Lemmas.C06Months", "IbicusModel.Lemmas.C06Detrend", "IbicusModel.Lemmas.C06Step4", "IbicusModel.Lemmas.C06Window",
                "IbicusModel.Lemmas.C06Centre", "IbicusModel.Lemmas.C06MonthsC", "IbicusModel.Lemmas.C06Cycle", "IbicusModel.Lemmas.GenPrecipFit"]
        with open(C.LOCK, "w") as lk:
            fcntl.flock(lk, fcntl.LOCK_SH)
            rc, log = C._run(["lake", "env", "leanchecker"] + mods)
        res.extra["leanchecker"] = "ok" if rc == 0 else f"rc={rc}: {log[-300:]}"
        if rc != 0:
            res.tie_broken.append("leanchecker rejects the property modules: " + log[-300:])
            lean_ok = False

    # ---- tier B (1): skeletons, ordered and shuffled input, through the real apply_location
    n_sk = 12 if tier == "quick" else 90
    n_skp = 60 if tier == "quick" else 360
    lines, expect = probes.skeleton_cases(rng, n_sk, tier, res, problems)
    l2, e2 = skeleton_cases_permuted(rng, n_skp, tier, res, problems)
    lines += l2
    expect += e2
    try:
        out = C.run_driver("DrvWindows", lines)
        for (what, case, exp), got in zip(expect, out):
            res.cov["traces_validated_against_impl"] += 1
            if exp != got:
                mismatches.append({"op": what, "case": case, "impl": exp[:300], "model": got[:300]})
    except Exception as ex:  # noqa: BLE001
        mismatches.append({"op": "driver", "case": {}, "impl": "", "model": f"{type(ex).__name__}: {str(ex)[:300]}"})
    if mismatches:
        res.tie_broken.append(f"correspondence DrvWindows (ordered + shuffled dated series): {len(mismatches)} mismatches, first: {mismatches[0]}")

    # ---- tier B (2): the layer-N window functions against the real per-window code
    from harness import debiasers_corr, isimip_corr

    n_deb = 8 if tier == "quick" else 80
    n_isi = 54 if tier == "quick" else 320
    try:
        mm = debiasers_corr.correspondence(rng, n_deb, tier, res, families=["LS", "DC", "QM", "ECDFM", "QDM", "SDMabs", "SDMrel", "CDFt"])
        if mm:
            res.tie_broken.append(f"correspondence DrvDebiasers: {len(mm)} mismatches, first: {str(mm[0])[:600]}")
        mm2 = isimip_corr.correspondence(rng, n_isi, tier, res)
        # step 1 / step 8 and the whole apply_location (step 1 -> window loop -> step 8), mostly on NON-chronological storage
        mm2 += isimip_corr.correspondence_aux(rng, 10 if tier == "quick" else 80, tier, res, shuffle_prob=0.7)
        mm2 += isimip_corr.correspondence_location(rng, 6 if tier == "quick" else 40, tier, res, shuffle_prob=0.7)
        # … and with detrending=True: the years of each window sample looked up in the separate year arrays (Props/C06Detrend.lean)
        mm2 += correspondence_location_detrending(rng, 4 if tier == "quick" else 24, tier, res, shuffle_prob=0.7)
        if mm2:
            res.tie_broken.append(f"correspondence DrvIsimip: {len(mm2)} mismatches, first: {str(mm2[0])[:600]}")
    except Exception as ex:  # noqa: BLE001
        res.tie_broken.append(f"layer-N correspondence could not run: {type(ex).__name__}: {str(ex)[:300]}")

    # ---- property oracle on the real code (small budget always; x3 when a tie is broken)
    reps = 10 if tier == "quick" else 80
    reps_extra = 5 if tier == "quick" else 30
    if force_search or not lean_ok or res.tie_broken:
        reps *= 3
        reps_extra *= 3
    oracle(rng, BASE8, reps, tier, res, problems)
    oracle(rng, EXTRA, reps_extra, tier, res, problems)
    boost = 3 if (force_search or not lean_ok or res.tie_broken) else 1
    # every ISIMIP variable (running-window and month mode), the precipitation models
    oracle(rng, ISIMIP_ALL, (2 if tier == "quick" else 12) * boost, tier, res, problems)
    oracle(rng, PRECIP, (2 if tier == "quick" else 10) * boost, tier, res, problems)
    oracle(rng, OPTIONS, (2 if tier == "quick" else 8) * boost, tier, res, problems)
    # large samples: > 4000 / > 10001 / > 20000 values per fitting sample
    if tier == "quick":
        oracle(rng, [n for n, exp in LARGE if exp], 1 * boost, tier, res, problems, size_ranks=[0])
        oracle(rng, [n for n, exp in LARGE if not exp], 1 * boost, tier, res, problems, size_ranks=[rng.randrange(3), 0, 1, 2])
    else:
        oracle(rng, [n for n, _ in LARGE], 3, tier, res, problems, size_ranks=[0, 1, 2])
        oracle(rng, [n for n, _ in LARGE_THOROUGH], 1, tier, res, problems, size_ranks=[2])

    # missing values (prsnratio): control / NaN in cm_future / NaN in obs, same seed — step 2's assignment of the imputed values is the
    # recorded finding F21, anything else is an ordinary violation
    oracle_imputation(rng, (3 if tier == "quick" else 12) * boost, tier, res, problems)

    # round 6: the public entry point `apply` (grid; serial / failsafe / parallel) and `apply_location` with keyword time arrays, the time
    # axes as datetime / datetime64 (D … ns) / pandas objects — own PRNG stream
    oracle_entry((2 if tier == "quick" else 10) * boost, tier, res, problems)

    # ---- verdict
    seen = set()
    for p, case in problems:
        key = (p.split(":")[0][:60], case.get("what"))
        if key in seen:
            continue
        seen.add(key)
        res.violations.append((f"{case.get('what')}: {p}", {"property": PROP, "failing_input": case, "problem": p,
                                                             "signature": {"what": case.get("what")}}))
    for desc, rp in res.violations:  # a recorded finding gets no violation file from `finish`: keep its failing input replayable
        kf = C.match_known(PROP, rp)
        if kf is not None:
            C.write_replay(PROP, "known_" + kf.get("id", "finding"), dict(rp, seed=C.seed(), tier=tier))
    unknown = [v for v in res.violations if C.match_known(PROP, v[1]) is None]
    if res.tie_broken and not unknown:
        res.violations.append(("proof obligation / correspondence no longer checks: " + "; ".join(res.tie_broken)[:600],
                               {"property": PROP, "failing_input": None, "broken": res.tie_broken, "mismatches": mismatches[:5]}))
    return res


def replay(data):
    """re-run the failing input of a replay file against the real code"""
    case = data.get("failing_input")
    if case and "nan" in case and "debiaser" in case:  # the missing-value oracle (known finding F21 or an ordinary violation of it)
        status, detail, stats = run_imputation_case(case)
        print(f"replay C06 {case['debiaser']} missing values in {case['nan']['series']}: {status} {detail} {stats}")
        want = (data.get("signature") or {}).get("what")
        if status == "known-step2" and want == IMPUTE_WHAT:
            print("REPRODUCED: " + detail[:300])
        return 1 if status in ("violation", "known-step2") else 0
    if case and "entry" in case and "debiaser" in case:  # entry point x time-axis representation
        status, detail = run_entry_case(case)
        print(f"replay C06 {case['debiaser']} entry={case['entry']} L={case['L']} S={case['S']} perms={case['perms']}: {status} {detail}")
        return 1 if status == "violation" else 0
    if not case or "debiaser" not in case:
        print("replay: no oracle case in this file (skeleton / tie-only violations are re-run by ./check C06 with VERIF_SEED=%s)" % (case or {}).get("verif_seed", "?"))
        return 2
    status, detail = run_case(case)
    print(f"replay C06 {case['debiaser']} L={case['L']} S={case['S']} perms={case['perms']}: {status} {detail}")
    return 1 if status == "violation" else 0
