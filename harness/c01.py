"""C01 — bias removal: debiasing the reference period itself (cm_future == cm_hist) reproduces the observed statistics.

Decided by the theorems of lean/IbicusModel/Props/C01.lean about the shared layer-N models (Model/Debiasers.lean,
Model/Isimip.lean); tied to /repo on every run by tier A (LinearScaling / DeltaChange window functions) and tier B
(harness/debiasers_corr.py, harness/isimip_corr.py: real per-window code vs the executable models, a third of the
cases on the property's own domain cm_future := cm_hist).  The property's oracle on the real code
(`apply_location(obs, H, H.copy())`, all eight debiasers) is the failing-input search — it is also the only thing that
decides the quantitative "small fraction of the original bias" clause for the empirical-CDF methods at unequal sizes
and for seasonal windows (level: partial for that clause; see Props/C01.lean §6).
"""
import random
import warnings

import numpy as np

from harness import common as C
from harness import c03 as K
from harness import debiasers_corr as DC
from harness import probes

PROP = "C01"
TARGETS = ["IbicusModel.Props.C01"]
GEN = ["Debiasers"]

CORR_CONFIGS = ["LS-additive", "LS-multiplicative", "DC-additive", "DC-multiplicative", "QM-parametric-additive",
                "QM-parametric-multiplicative", "QM-nonparametric-additive", "QM-nonparametric-no_detrending", "ECDFM",
                "QDM-absolute-linear_interpolation-nocensor", "QDM-absolute-linear_interpolation-nocensor-years", "SDM-absolute",
                "CDFt-additive-linear_interpolation-linear-nossr", "CDFt-multiplicative-linear_interpolation-linear-nossr",
                "CDFt-additive-linear_interpolation-linear-nossr-years"]
ISIMIP_CORR_CONFIGS = ["tas_detr", "tas_nodetr", "tas_ks"]


def _future_is_hist(case, config):
    """the property's domain: the series to correct is the reference-period simulation itself"""
    case["F"] = list(case["H"])
    if case.get("years") is not None:
        n = len(case["F"])
        ys = list(case["years"])
        case["years"] = (ys * (n // max(1, len(ys)) + 1))[:n]
        if len(case["years"]) < n:
            case["years"] = [2000 + i // 3 for i in range(n)]
    return case


# ------------------------------------------------------------------ the eight debiasers
EXACT_EVERYWHERE = {"DC-additive", "DC-multiplicative"}           # out == obs in every window mode
EXACT_WINDOW_FREE_MEAN = {"LS-additive", "LS-multiplicative", "QM-parametric", "ECDFM", "QDM-absolute", "ISIMIP-window"}
PARAM_SPREAD = {"QM-parametric", "ECDFM", "ISIMIP-window"}          # observed standard deviation as well (norm: scale = std)
CONFIGS = ["LS-additive", "LS-multiplicative", "DC-additive", "DC-multiplicative", "QM-parametric", "QM-nonparametric", "ECDFM",
           "QDM-absolute", "SDM-absolute", "CDFt", "ISIMIP-window", "ISIMIP", "ISIMIP-trend", "sequence"]
LARGE_AT = {"quick": (0,), "thorough": (0, 6, 20)}  # which occurrences of CDFt are "large sample" cases (> 10^4 values in one window)
PR_LIKE = {"LS-multiplicative", "DC-multiplicative"}


def make(name, mode, ymode=None):
    import scipy.stats

    from ibicus.debias import (CDFt, ECDFM, ISIMIP, QuantileDeltaMapping, QuantileMapping, ScaledDistributionMapping)

    kw = K.window_kw(mode)
    with warnings.catch_warnings():
        warnings.simplefilter("ignore")
        if name in ("LS-additive", "LS-multiplicative", "DC-additive", "DC-multiplicative"):
            return K.make(name, mode)
        if name == "QM-parametric":
            return QuantileMapping.from_variable("tas", **kw)
        if name == "QM-nonparametric":
            return QuantileMapping.from_variable("tas", mapping_type="nonparametric", **kw)
        if name == "ECDFM":
            return ECDFM.from_variable("tas", distribution=scipy.stats.norm, **kw)
        if name == "QDM-absolute":
            return QuantileDeltaMapping.from_variable("tas", **kw, **K.years_kw(ymode))
        if name == "SDM-absolute":
            return ScaledDistributionMapping.from_variable("tas", **kw)
        if name == "CDFt":
            return CDFt.from_variable("tas", **kw, **K.years_kw(ymode))
        if name == "ISIMIP-window":  # one window: `_apply_on_window` is called directly
            # step 6 as the theorem `Props.C01.isimip_add_fit` has it: no trend removal, parametric branch
            return ISIMIP.from_variable("tas", ks_test_for_goodness_of_cdf_fit=False, detrending=False)
        if name in ("ISIMIP", "ISIMIP-trend"):  # the default tas settings (detrending with significance test)
            return ISIMIP.from_variable("tas", **kw) if mode is not None else ISIMIP.from_variable("tas", running_window_mode=False)
    raise ValueError(name)


def gen_case(rng, name, tier, k):
    if name == "ISIMIP-trend":
        # multi-year series with significant linear trends whose slopes differ between obs and cm_hist
        S = rng.choice([15, 31])
        mode = [max(S, rng.choice([31, 61])), S] if rng.random() < 0.6 else None  # None = ISIMIP's month mode
        ny = rng.randint(12, 16)
        slope_obs = rng.choice([0.0, 0.05, -0.05])
        slope_H = slope_obs + rng.choice([-1, 1]) * rng.choice([0.15, 0.2, 0.25])
        return dict(config=name, mode=mode, ymode=None, nyO=ny, nyH=ny, equal=True, y0=rng.randint(1950, 1990),
                    np_seed=rng.randint(0, 2**31 - 1), short=False, sigma_bias=rng.choice([-1, 1]) * rng.choice([1.0 / 3, 2.0 / 3]),
                    sd_ratio=rng.choice([1.0, 1.5]), slope_obs=slope_obs, slope_H=slope_H)
    if name == "sequence":
        return dict(config=name, mode=None, ymode=None, nyO=rng.randint(1, 6), nyH=rng.randint(1, 6), equal=False, y0=rng.randint(1950, 1990),
                    np_seed=rng.randint(0, 2**31 - 1), short=False, sigma_bias=rng.choice([-3.0, -1.0, 1.0, 3.0]), sd_ratio=rng.choice([1.0, 1.5]),
                    kind=rng.choice(["tas", "pr"]))
    windowed = name not in ("ISIMIP-window",) and (name == "ISIMIP" or rng.random() < 0.45)
    large = name == "CDFt" and k in LARGE_AT.get(tier, (0,))
    # long equal-size samples for the rank transfer of non-parametric QM: index arithmetic n*q / (n-1)*q in floating point
    LONG_N = [36525, 20000, 32768, 10957, 65536, 16384, 21915, 50000]
    n_exact = None
    if name == "QM-nonparametric" and (k < 2 or (tier != "quick" and k % 3 == 0)):
        n_exact = LONG_N[k % len(LONG_N)] if k < 16 else rng.randint(10000, 70000)
        windowed = False
    if large:
        windowed = False
    big = 8 if tier == "quick" else 9
    cheap = name in ("LS-additive", "LS-multiplicative", "DC-additive", "DC-multiplicative", "QM-parametric", "ECDFM", "QM-nonparametric")
    small_step = name != "ISIMIP-window" and not large and not n_exact and k % 3 == 1
    if small_step:
        windowed = True  # every third case: a step that divides 365 (the default 1, also 5 and 73) over a span with a leap-year 31 Dec
    if windowed:
        S = rng.choice([7, 15, 31, 61])
        if small_step:
            S = rng.choice([1, 5, 73]) if cheap else rng.choice([5, 73])
        L = max(S, rng.choice([61, 91]))
        mode = [L, S]
        nyO, nyH = rng.randint(3, 5), rng.randint(3, 5)   # at least 3 * 61 = 183 values per window ...
        if L == 61:
            nyO, nyH = max(nyO, 4), max(nyH, 4)           # ... in fact at least 200
        if name == "ISIMIP" and rng.random() < 0.3:
            mode = None                                     # ISIMIP's month mode
    else:
        mode = None
        nyO, nyH = rng.randint(1, big), rng.randint(1, big)
    equal = name in ("QM-nonparametric", "SDM-absolute", "CDFt") and k % 2 == 0
    if large:
        nyO = nyH = rng.randint(29, 32)
        equal = True
    if n_exact:
        equal = True
    ymode = None
    if name in ("QDM-absolute", "CDFt") and rng.random() < 0.5 and not large:
        ymode = rng.choice([[17, 9], [5, 3], [31, 1], [9, 9]])
    sigma_bias = rng.choice([0.1, 0.3, 1.0, 3.0, 10.0]) * rng.choice([-1, 1])
    rec = dict(config=name, mode=mode, ymode=ymode, nyO=nyO, nyH=nyH, equal=equal, y0=rng.randint(1950, 1990),
               np_seed=rng.randint(0, 2**31 - 1), short=(not windowed and not large and rng.random() < 0.3), sigma_bias=sigma_bias,
               sd_ratio=rng.choice([0.5, 1.0, 1.5, 2.0]))
    if n_exact:
        rec.update(n_exact=n_exact, short=False, ymode=None)
    rec["kinds"] = [probes.pick_kind(rng) for _ in range(3)]  # the three time axes, each in one of the accepted encodings
    if windowed:
        rec["y0"] = rec["y0"] - rec["y0"] % 4 + 3  # y0 + 1 is a leap year: inside the obs span and inside the cm_hist span
    if name in ("CDFt", "QDM-absolute", "ISIMIP", "QM-nonparametric", "SDM-absolute", "LS-additive") and k % 3 == 2 and not n_exact and not large:
        # values stored with 0.1 K precision (many ties) and a skewed distribution — legitimate input for every method
        rec["ties"] = True
        rec["short"] = False
        rec["nyO"], rec["nyH"] = max(rec["nyO"], 2), max(rec["nyH"], 2)
    if name in PR_LIKE and k % 2 == 0:
        rec["flux"] = K.FLUX[(k // 2) % len(K.FLUX)]  # pr in kg m-2 s-1: magnitudes 1e-5 ... 1e-9
    return rec


def build(rec):
    nprs = np.random.RandomState(rec["np_seed"])
    name = rec["config"]
    dO = K.whole_years(rec["y0"], rec["nyO"])
    dH = dO if rec["equal"] else K.whole_years(rec["y0"] + (1 if rec["nyH"] != rec["nyO"] else 0), rec["nyH"])
    if rec.get("n_exact"):
        import datetime

        dO = dH = K.dates_from(datetime.date(1901, 1, 1), int(rec["n_exact"]))
    if rec.get("short"):
        nO, nH = int(nprs.randint(2, 60)), int(nprs.randint(2, 60))
        if rec["equal"]:
            nH = nO
        dO, dH = dO[:nO], dH[:nH]
    if name in PR_LIKE or rec.get("kind") == "pr":
        obs = K.pr_series(nprs, dO, 3.0, floor=0.01)
        # multiplicative bias: factor exp(sigma_bias / 4) in [~0.08, ~12]
        H = K.pr_series(nprs, dH, 3.0 * float(np.exp(rec["sigma_bias"] / 4.0)), floor=0.01)
        if rec.get("flux"):
            obs, H = obs * rec["flux"], H * rec["flux"]
        sigma = float(np.std(obs))
    else:
        sigma = 3.0
        amp = 0.0 if name == "ISIMIP-window" else 8.0
        # linear trends (K / year), centred so that they do not change the series' means
        cen = lambda d: (np.arange(d.size) - (d.size - 1) / 2.0) / 365.25  # noqa: E731
        obs = K.tas_series(nprs, dO, 283.0, sigma, amp=amp) + rec.get("slope_obs", 0.0) * cen(dO)
        H = K.tas_series(nprs, dH, 283.0 + rec["sigma_bias"] * sigma, sigma * rec["sd_ratio"], amp=amp) + rec.get("slope_H", 0.0) * cen(dH)
        if rec.get("ties"):
            skew = lambda n: (nprs.gamma(2.0, 1.0, n) - 2.0) / np.sqrt(2.0)  # noqa: E731  (mean 0, sd 1, skewness 1.4)
            obs = np.round(283.0 + 8 * np.sin(2 * np.pi * K.doy_of(dO) / 365.25) * (amp / 8.0) + sigma * skew(dO.size), 1)
            H = np.round(283.0 + rec["sigma_bias"] * sigma + 8 * np.sin(2 * np.pi * K.doy_of(dH) / 365.25) * (amp / 8.0)
                         + sigma * rec["sd_ratio"] * skew(dH.size), 1)
    return dict(obs=obs, H=H, dO=dO, dH=dH, sigma=sigma)


def min_window_sample(rec, data):
    """smallest calibration sample a window sees (whole series when window-free; ISIMIP month mode: a month)"""
    nO, nH = data["obs"].size, data["H"].size
    if rec["config"] in ("ISIMIP", "ISIMIP-trend") and rec["mode"] is None:
        return min(nO, nH) * 28 // 366
    if rec["mode"] is None:
        return min(nO, nH)
    L = rec["mode"][0] + (rec["mode"][0] % 2 == 0)
    return min(nO, nH) * L // 366


def run_sequence(rec):
    """a method inter-comparison on ONE set of input arrays (window-free): consecutive debiaser calls get the very same
    obs / cm_hist / cm_future arrays (no copies in between); every call is judged against pristine copies of the inputs"""
    data = build(rec)
    obs, H = data["obs"], data["H"]
    F = H.copy()  # the series to correct = the reference-period simulation; shared by all calls below
    obs0, H0 = obs.copy(), H.copy()
    names = ["LS-multiplicative", "DC-multiplicative", "LS-multiplicative"] if rec["kind"] == "pr" else \
        ["LS-additive", "QM-parametric", "ECDFM", "DC-additive", "LS-additive"]
    scale = float(max(np.max(np.abs(obs0)), np.max(np.abs(H0))))
    tol = 1e-8 * scale
    bias = float(np.mean(H0) - np.mean(obs0))
    info = {"n_obs": int(obs.size), "n_hist": int(H.size), "clause": "exact, consecutive calls on the same arrays", "bias": bias}
    for step, name in enumerate(names, 1):
        with warnings.catch_warnings(), np.errstate(all="ignore"):
            warnings.simplefilter("ignore")
            out = make(name, None).apply_location(obs, H, F)
        where = f"sequence/{rec['kind']} call {step} of {names} ({name}, window-free, n_obs={obs.size}, n_hist={H.size}, bias {bias:+.4g})"
        if name.startswith("DC-"):
            err = float(np.max(np.abs(out - obs0)))
            if err > tol:
                return f"{where}: DeltaChange with an unchanged model does not return obs (max deviation {err:.3g})", info
        else:
            resid = float(np.mean(out) - np.mean(obs0))
            info["residual"] = resid
            if not abs(resid) <= tol:
                return (f"{where}: residual mean bias {resid:+.4g} > {tol:.3g} when the debiaser is given the arrays an earlier call was "
                        f"given (a pristine copy gives the observed mean)"), info
    return None, info


def run_case(rec):
    if rec["config"] == "sequence":
        return run_sequence(rec)
    data = build(rec)
    obs, H, dO, dH = data["obs"], data["H"], data["dO"], data["dH"]
    name = rec["config"]
    mode = tuple(rec["mode"]) if rec["mode"] else None
    ymode = tuple(rec["ymode"]) if rec["ymode"] else None
    deb = make(name, mode, ymode)
    scale = float(max(np.max(np.abs(obs)), np.max(np.abs(H))))  # relative to the data (pr fluxes are ~1e-6)
    tol = 1e-8 * scale
    with warnings.catch_warnings(), np.errstate(all="ignore"):
        warnings.simplefilter("ignore")
        if name == "ISIMIP-window":
            yO, yH = 1980 + np.arange(obs.size) // 365, 1980 + np.arange(H.size) // 365
            out = deb._apply_on_window(obs, H, H.copy(), yO, yH, yH.copy())
        else:
            kO, kH, kF = rec.get("kinds", ["date"] * 3)
            out = deb.apply_location(obs, H, H.copy(), probes.present(dO, kO), probes.present(dH, kH), probes.present(dH, kF))
    want_n = obs.size if name.startswith("DC-") else H.size
    info = {"n_obs": int(obs.size), "n_hist": int(H.size), "clause": None}
    if out.shape != (want_n,) or not np.isfinite(out).all():
        bad = np.where(~np.isfinite(out))[0] if out.shape == (want_n,) else np.array([], dtype=int)
        dd = dO if name.startswith("DC-") else dH
        return (f"{name} (windows {mode}, year windows {ymode}, n_obs={obs.size}, n_hist={H.size}): output shape {out.shape}; {bad.size} steps are "
                f"NaN / unassigned for finite input" + (f" (first: step {int(bad[0])}, {dd[int(bad[0])]})" if bad.size and name != "ISIMIP-window" else "")), info
    bias = float(np.mean(H) - np.mean(obs))
    resid = float(np.mean(out) - np.mean(obs))
    info.update(bias=bias, residual=resid)
    where = f"{name} (windows {mode}, year windows {ymode}, n_obs={obs.size}, n_hist={H.size}, bias {bias:+.4g})"
    window_free = mode is None and name not in ("ISIMIP", "ISIMIP-trend")
    # ---- exact clauses
    if name in EXACT_EVERYWHERE:
        info["clause"] = "exact: out == obs"
        err = float(np.max(np.abs(out - obs)))
        if err > tol:
            return f"{where}: DeltaChange with an unchanged model does not return obs (max deviation {err:.3g} > {tol:.3g})", info
        return None, info
    ties = bool(rec.get("ties"))  # the rank-transfer theorems need a tie-free cm_hist: tied data is judged by the loose clause
    if name == "QM-nonparametric" and window_free and obs.size == H.size and not ties:
        info["clause"] = "exact: sorted(out) == sorted(obs)"
        if not np.array_equal(np.sort(out), np.sort(obs)):
            d = float(np.max(np.abs(np.sort(out) - np.sort(obs))))
            return f"{where}: equal sample sizes but the output is not the observed multiset (max deviation of order statistics {d:.3g})", info
        return None, info
    if name == "CDFt" and window_free and ymode is None and obs.size == H.size and obs.size >= 2 and not ties:
        # Props.C01.cdft_rank_transfer_clamped: every output is the observation of the same rank, clamped to the range of
        # the shifted model sample H' = H + (mean obs - mean H)
        info["clause"] = "exact: sorted(out) == clip(sorted(obs), range of shifted cm_hist) to rounding"
        Hs = H + (np.mean(obs) - np.mean(H))
        want = np.clip(np.sort(obs), Hs.min(), Hs.max())
        d = float(np.max(np.abs(np.sort(out) - want)))
        if d > 1e-6 * scale:
            return (f"{where}: equal sample sizes but the output is not the clamped rank transfer of the observations "
                    f"(max deviation of order statistics {d:.3g})"), info
        return None, info
    if name == "SDM-absolute" and window_free and obs.size == H.size:
        info["clause"] = "exact: sorted(out) == sorted(obs) to rounding"
        d = float(np.max(np.abs(np.sort(out) - np.sort(obs))))
        if d > 1e-6 * scale or abs(resid) > tol * 10:
            return f"{where}: equal sample sizes but the output is not the observed multiset (max deviation {d:.3g}, residual mean bias {resid:.3g})", info
        return None, info
    if name in EXACT_WINDOW_FREE_MEAN and window_free and ymode is None and not (ties and name == "QDM-absolute"):
        info["clause"] = "exact: mean(out) == mean(obs)"
        if abs(resid) > tol:
            return f"{where}: residual mean bias {resid:.3g} > {tol:.3g} in an exact configuration", info
        if name in PARAM_SPREAD and min(obs.size, H.size) >= 3:
            sd_o, sd_out = float(np.std(obs)), float(np.std(out))
            info["spread"] = (sd_o, sd_out)
            if abs(sd_out - sd_o) > 1e-7 * max(1.0, sd_o):  # tas-like data only (K)
                return f"{where}: standard deviation of the output {sd_out:.6g} != observed {sd_o:.6g} (calibrated spread not reproduced)", info
        return None, info
    # ---- the loose clause: at most a small fraction of the original bias (only on samples of >= 200 values per window)
    nmin = min_window_sample(rec, data)
    info["clause"] = "loose: |residual| <= max(tol, 0.25 |bias|)"
    info["min_window_sample"] = int(nmin)
    if nmin < 200:
        info["clause"] = "not judged (fewer than 200 values per window)"
        return None, info
    # tol of the loose clause: rounding, plus the resolution of an empirical quantile grid of this size
    tol_loose = max(tol, 2.0 * float(np.ptp(obs)) / nmin)
    if ties:
        # tied data is known to its storage resolution only (0.1 K here): a rank-based method resolves a tie group to one of its
        # ends, which moves the mean by up to that resolution whatever the bias is
        tol_loose += 0.1
    info["tol_loose"] = tol_loose
    if abs(resid) > max(tol_loose, 0.25 * abs(bias)):
        return (f"{where}: residual mean bias {resid:+.4g} is not a small fraction of the original bias {bias:+.4g} "
                f"(limit {max(tol_loose, 0.25 * abs(bias)):.3g})"), info
    return None, info


def run(tier, res, force_search=False, measure=False):
    rng = random.Random(C.seed() * 7919 + 101)
    res.rule = ("tier B: cases of harness/debiasers_corr / isimip_corr (a third on the domain cm_future := cm_hist); oracle: cases = (debiaser, window "
                "mode, year-window mode, spans, equal/unequal sizes, bias in sigma, spread ratio, numpy seed) from one PRNG (VERIF_SEED); non-trivial when "
                "|bias| >= 0.3 sigma; distinct = distinct (debiaser, window mode, year-window mode, clause, bias, length classes)")
    res.trusted = C.BASE_TRUSTED + [
        "harness/families.py / isimip_family.py RatSigmoid implement Model.Family.ratSigmoid in numpy floats (tier B of the parametric window functions)",
        "scipy.stats.norm is assumed to satisfy LocScaleLaws with loc = mean, scale = standard deviation; exercised by the oracle only",
    ]
    res.assumptions = [
        "exact rational arithmetic in the theorems; 'zero to rounding' is the oracle tolerance 1e-8*max(1,|values|)",
        "parametric statements under NoClip (every cdf value in [cdf_threshold, 1-cdf_threshold]); empirical methods: tie-free cm_hist",
        "the quantitative windowed / unequal-length clause is NOT proved: it is decided by the oracle only, on samples with >= 200 values per "
        "window, limit max(2*range(obs)/n_window, 0.25*|bias|)",
        "calibration series cover whole years in running-window mode",
    ]
    res.notes.append("level: proof, PARTIAL for the quantitative clause 'at most a small fraction of the original bias' (empirical-CDF methods at "
                     "unequal sizes, seasonal windows): Props.C01 proves range bounds and the per-window formulas only; that clause is decided by the "
                     "oracle on the real code (res.extra['oracle'])")
    res.notes.append(
        "clauses decided by the oracle on the real code only (the value-level model cannot exhibit them): in-place modification of the caller's "
        "arrays between consecutive calls ('sequence' cases; numpy aliasing — the model's functions are pure; C12 models the write sites), input "
        "dtype conversion and the process pool of apply() (C14 / C05 model the check sequence and the write-back order), the time-axis encodings "
        "(trusted calendar arithmetic), float rounding of index arithmetic on long samples (floor((n-1)q) at an integer: exact in the model)")
    lean_ok = C.lean_phase(res, PROP, GEN, TARGETS)

    # ---- tier B
    n_corr = 6 if tier == "quick" else 50
    mism = K.correspondence(rng, CORR_CONFIGS, n_corr, tier, res, _future_is_hist)
    if mism:
        res.tie_broken.append(f"correspondence DrvDebiasers: {len(mism)} mismatches, first: {str(mism[0])[:800]}")
        res.extra["mismatches"] = mism[:10]
    try:
        from harness import isimip_corr

        sub = C.Result(PROP, tier)
        im = isimip_corr.correspondence(rng, 12 if tier == "quick" else 120, tier, sub, configs=ISIMIP_CORR_CONFIGS)
        res.cov["traces_validated_against_impl"] += sub.cov["traces_validated_against_impl"]
        res.cov["evaluations"] += sub.cov["evaluations"]
        res.distinct |= {("isimip",) + tuple(k) if isinstance(k, tuple) else ("isimip", k) for k in sub.distinct}
        res.extra["isimip_corr"] = {k: v for k, v in sub.extra.items() if k != "mismatches"}
        res.extra["ties_accepted"] = res.extra.get("ties_accepted", 0) + sub.extra.get("ties_accepted", 0)
        if im:
            mism = mism + im
            res.tie_broken.append(f"correspondence DrvIsimip: {len(im)} mismatches, first: {str(im[0])[:800]}")
    except Exception as ex:  # noqa: BLE001
        res.tie_broken.append(f"correspondence DrvIsimip could not run: {type(ex).__name__}: {str(ex)[:300]}")

    # ---- the property's oracle on the real code
    n_or = 48 if tier == "quick" else 600
    if force_search or not lean_ok or mism:
        n_or *= 3
    problems, clauses, worst_ratio = [], {}, {}
    for k in range(n_or):
        name = CONFIGS[k % len(CONFIGS)]
        rec = gen_case(rng, name, tier, k // len(CONFIGS))
        try:
            p, info = run_case(rec)
        except Exception as ex:  # noqa: BLE001
            p, info = f"{name}: {type(ex).__name__}: {str(ex)[:200]}", {}
        cl = info.get("clause") or "error"
        clauses[cl] = clauses.get(cl, 0) + 1
        if cl.startswith("loose") and info.get("bias"):
            r = abs(info["residual"]) / max(abs(info["bias"]), 1e-300)
            worst_ratio[name] = max(worst_ratio.get(name, 0.0), r)
            if measure:
                print(f"{name:18s} mode={rec['mode']} ymode={rec['ymode']} nmin={info.get('min_window_sample')} bias={info['bias']:+.3g} "
                      f"resid={info['residual']:+.3g} ratio={r:.3g} tol_loose={info.get('tol_loose'):.3g}")
        res.count((name, str(rec["mode"]), str(rec["ymode"]), cl[:12], rec["sigma_bias"], info.get("n_obs", 0) // 400, info.get("n_hist", 0) // 400),
                  abs(rec["sigma_bias"]) >= 0.3, sample={k2: rec[k2] for k2 in ("config", "mode", "ymode", "nyO", "nyH", "sigma_bias")})
        if p:
            problems.append((p, rec))
    res.extra["oracle"] = {"cases": n_or, "by_clause": clauses, "worst_residual_over_bias_in_loose_clause": worst_ratio,
                           "tolerance_exact": "1e-8*max(1,|values|)"}

    # the public `apply` on small grids with any input dtype, and one parallel run on a 2 x 3 grid
    par = dict(config="apply/LS-additive", prop=PROP, debiaser="LS-additive", dtypes=["float64", "float64", "float64"], shape=[2, 3],
               n=rng.randint(100, 400), np_seed=rng.randint(0, 2**31 - 1), shift=rng.choice([-6.0, 2.0, 10.0]), parallel=True)
    par1 = dict(par, shape=[1, 1], debiaser="ECDFM", config="apply/ECDFM", np_seed=rng.randint(0, 2**31 - 1))  # fewer cells than processes
    K.apply_cases(rng, tier, res, problems, PROP, extra=[par, par1])

    seen = set()
    for p, rec in problems:
        key = rec["config"]
        if key in seen:
            continue
        seen.add(key)
        res.violations.append((p, {"property": PROP, "failing_input": rec, "problem": p, "signature": {"config": rec["config"]}}))
    if res.tie_broken and not problems:
        res.violations.append(("proof obligation / correspondence no longer checks: " + "; ".join(res.tie_broken)[:600],
                               {"property": PROP, "failing_input": None, "broken": res.tie_broken}))
    return res


def replay(data):
    rec = data.get("failing_input")
    if not rec:
        print("replay: no failing input recorded (broken tie):", data.get("broken"))
        return 1
    if str(rec.get("config", "")).startswith("apply/"):
        p, info = K.run_apply_case(rec)
    else:
        p, info = run_case(rec)
    print("replay", rec["config"], "->", p or "property holds on this input", info)
    return 1 if p else 0
