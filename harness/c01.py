"""C01 — bias removal: debiasing the reference period itself (cm_future == cm_hist) reproduces the observed statistics.

Decided by the theorems of lean/IbicusModel/Props/C01.lean about the shared layer-N models (Model/Debiasers.lean,
Model/Isimip.lean); tied to /repo on every run by tier A (LinearScaling / DeltaChange window functions) and tier B
(harness/debiasers_corr.py, harness/isimip_corr.py: real per-window code vs the executable models, a third of the
cases on the property's own domain cm_future := cm_hist).  The property's oracle on the real code
(`apply_location(obs, H, H.copy())`, all eight debiasers) is the failing-input search — it is also the only thing that
decides the quantitative "small fraction of the original bias" clause for the empirical-CDF methods at unequal sizes
and for seasonal windows (level: partial for that clause; see Props/C01.lean §6).
"""
import random
import warnings

import numpy as np

from harness import common as C
from harness import c03 as K
from harness import debiasers_corr as DC
from harness import probes

PROP = "C01"
TARGETS = ["IbicusModel.Props.C01"]
GEN = ["Debiasers"]
TARGETS += ["IbicusModel.Lemmas.GenDebWin"]  # tier A of the per-window transfer functions (CDFt, ECDFM, QDM, QM, SDM absolute): the audit imports it
GEN += ["DebWin"]  # Gen.DebWin: dataflow programs extracted by translator/extract_debiasers.py
TARGETS += ["IbicusModel.Props.Capstone3"]  # capstone 3: C01 stated on the denotation of the regenerated per-window pieces (Gen.Debiasers kernels, Gen.DebWin programs, Gen.IsimipStep6.step6 / apply_on_window); the audit imports it
GEN += ["Loops", "GridLoops", "DebWin", "Debiasers", "IsimipStep6"]  # the groups capstone 3 (through Props.Capstone) composes (lean_phase regenerates every transitively imported group anyway)

CORR_CONFIGS = ["LS-additive", "LS-multiplicative", "DC-additive", "DC-multiplicative", "QM-parametric-additive",
                "QM-parametric-multiplicative", "QM-nonparametric-additive", "QM-nonparametric-no_detrending", "ECDFM",
                "QDM-absolute-linear_interpolation-nocensor", "QDM-absolute-linear_interpolation-nocensor-years", "SDM-absolute",
                "CDFt-additive-linear_interpolation-linear-nossr", "CDFt-multiplicative-linear_interpolation-linear-nossr",
                "CDFt-additive-linear_interpolation-linear-nossr-years"]
ISIMIP_CORR_CONFIGS = ["tas_detr", "tas_nodetr", "tas_ks"]


def _future_is_hist(case, config):
    """the property's domain: the series to correct is the reference-period simulation itself"""
    case["F"] = list(case["H"])
    if case.get("years") is not None:
        n = len(case["F"])
        ys = list(case["years"])
        case["years"] = (ys * (n // max(1, len(ys)) + 1))[:n]
        if len(case["years"]) < n:
            case["years"] = [2000 + i // 3 for i in range(n)]
    return case


# ------------------------------------------------------------------ the eight debiasers
EXACT_EVERYWHERE = {"DC-additive", "DC-multiplicative"}           # out == obs in every window mode
EXACT_WINDOW_FREE_MEAN = {"LS-additive", "LS-multiplicative", "QM-parametric", "ECDFM", "QDM-absolute", "ISIMIP-window"}
PARAM_SPREAD = {"QM-parametric", "ECDFM", "ISIMIP-window"}          # observed standard deviation as well (norm: scale = std)
CONFIGS = ["LS-additive", "LS-multiplicative", "DC-additive", "DC-multiplicative", "QM-parametric", "QM-nonparametric", "ECDFM",
           "QDM-absolute", "SDM-absolute", "CDFt", "ISIMIP-window", "ISIMIP", "ISIMIP-trend", "sequence"]
LARGE_AT = {"quick": (0,), "thorough": (0, 6, 20)}  # which occurrences of CDFt are "large sample" cases (> 10^4 values in one window)
PR_LIKE = {"LS-multiplicative", "DC-multiplicative"}


def make(name, mode, ymode=None):
    import scipy.stats

    from ibicus.debias import (CDFt, ECDFM, ISIMIP, QuantileDeltaMapping, QuantileMapping, ScaledDistributionMapping)

    kw = K.window_kw(mode)
    with warnings.catch_warnings():
        warnings.simplefilter("ignore")
        if name in ("LS-additive", "LS-multiplicative", "DC-additive", "DC-multiplicative"):
            return K.make(name, mode)
        if name == "QM-parametric":
            return QuantileMapping.from_variable("tas", **kw)
        if name == "QM-nonparametric":
            return QuantileMapping.from_variable("tas", mapping_type="nonparametric", **kw)
        if name == "ECDFM":
            return ECDFM.from_variable("tas", distribution=scipy.stats.norm, **kw)
        if name == "QDM-absolute":
            return QuantileDeltaMapping.from_variable("tas", **kw, **K.years_kw(ymode))
        if name == "SDM-absolute":
            return ScaledDistributionMapping.from_variable("tas", **kw)
        if name == "CDFt":
            return CDFt.from_variable("tas", **kw, **K.years_kw(ymode))
        if name == "ISIMIP-window":  # one window: `_apply_on_window` is called directly
            # step 6 as the theorem `Props.C01.isimip_add_fit` has it: no trend removal, parametric branch
            return ISIMIP.from_variable("tas", ks_test_for_goodness_of_cdf_fit=False, detrending=False)
        if name in ("ISIMIP", "ISIMIP-trend"):  # the default tas settings (detrending with significance test)
            return ISIMIP.from_variable("tas", **kw) if mode is not None else ISIMIP.from_variable("tas", running_window_mode=False)
    raise ValueError(name)


def gen_case(rng, name, tier, k):
    if name == "ISIMIP-trend":
        # multi-year series with significant linear trends whose slopes differ between obs and cm_hist
        S = rng.choice([15, 31])
        mode = [max(S, rng.choice([31, 61])), S] if rng.random() < 0.6 else None  # None = ISIMIP's month mode
        ny = rng.randint(12, 16)
        slope_obs = rng.choice([0.0, 0.05, -0.05])
        slope_H = slope_obs + rng.choice([-1, 1]) * rng.choice([0.15, 0.2, 0.25])
        return dict(config=name, mode=mode, ymode=None, nyO=ny, nyH=ny, equal=True, y0=rng.randint(1950, 1990),
                    np_seed=rng.randint(0, 2**31 - 1), short=False, sigma_bias=rng.choice([-1, 1]) * rng.choice([1.0 / 3, 2.0 / 3]),
                    sd_ratio=rng.choice([1.0, 1.5]), slope_obs=slope_obs, slope_H=slope_H)
    if name == "sequence":
        return dict(config=name, mode=None, ymode=None, nyO=rng.randint(1, 6), nyH=rng.randint(1, 6), equal=False, y0=rng.randint(1950, 1990),
                    np_seed=rng.randint(0, 2**31 - 1), short=False, sigma_bias=rng.choice([-3.0, -1.0, 1.0, 3.0]), sd_ratio=rng.choice([1.0, 1.5]),
                    kind=rng.choice(["tas", "pr"]))
    windowed = name not in ("ISIMIP-window",) and (name == "ISIMIP" or rng.random() < 0.45)
    large = name == "CDFt" and k in LARGE_AT.get(tier, (0,))
    # long equal-size samples for the rank transfer of non-parametric QM: index arithmetic n*q / (n-1)*q in floating point
    LONG_N = [36525, 20000, 32768, 10957, 65536, 16384, 21915, 50000]
    n_exact = None
    if name == "QM-nonparametric" and (k < 2 or (tier != "quick" and k % 3 == 0)):
        n_exact = LONG_N[k % len(LONG_N)] if k < 16 else rng.randint(10000, 70000)
        windowed = False
    if large:
        windowed = False
    big = 8 if tier == "quick" else 9
    cheap = name in ("LS-additive", "LS-multiplicative", "DC-additive", "DC-multiplicative", "QM-parametric", "ECDFM", "QM-nonparametric")
    small_step = name != "ISIMIP-window" and not large and not n_exact and k % 3 == 1
    if small_step:
        windowed = True  # every third case: a step that divides 365 (the default 1, also 5 and 73) over a span with a leap-year 31 Dec
    if windowed:
        S = rng.choice([7, 15, 31, 61])
        if small_step:
            S = rng.choice([1, 5, 73]) if cheap else rng.choice([5, 73])
        L = max(S, rng.choice([61, 91]))
        mode = [L, S]
        nyO, nyH = rng.randint(3, 5), rng.randint(3, 5)   # at least 3 * 61 = 183 values per window ...
        if L == 61:
            nyO, nyH = max(nyO, 4), max(nyH, 4)           # ... in fact at least 200
        if name == "ISIMIP" and rng.random() < 0.3:
            mode = None                                     # ISIMIP's month mode
    else:
        mode = None
        nyO, nyH = rng.randint(1, big), rng.randint(1, big)
    equal = name in ("QM-nonparametric", "SDM-absolute", "CDFt") and k % 2 == 0
    if large:
        nyO = nyH = rng.randint(29, 32)
        equal = True
    if n_exact:
        equal = True
    ymode = None
    if name in ("QDM-absolute", "CDFt") and rng.random() < 0.5 and not large:
        ymode = rng.choice([[17, 9], [5, 3], [31, 1], [9, 9]])
    sigma_bias = rng.choice([0.1, 0.3, 1.0, 3.0, 10.0]) * rng.choice([-1, 1])
    rec = dict(config=name, mode=mode, ymode=ymode, nyO=nyO, nyH=nyH, equal=equal, y0=rng.randint(1950, 1990),
               np_seed=rng.randint(0, 2**31 - 1), short=(not windowed and not large and rng.random() < 0.3), sigma_bias=sigma_bias,
               sd_ratio=rng.choice([0.5, 1.0, 1.5, 2.0]))
    if n_exact:
        rec.update(n_exact=n_exact, short=False, ymode=None)
    rec["kinds"] = [probes.pick_kind(rng) for _ in range(3)]  # the three time axes, each in one of the accepted encodings
    if windowed:
        rec["y0"] = rec["y0"] - rec["y0"] % 4 + 3  # y0 + 1 is a leap year: inside the obs span and inside the cm_hist span
    if name in ("CDFt", "QDM-absolute", "ISIMIP", "QM-nonparametric", "SDM-absolute", "LS-additive") and k % 3 == 2 and not n_exact and not large:
        # values stored with 0.1 K precision (many ties) and a skewed distribution — legitimate input for every method
        rec["ties"] = True
        rec["short"] = False
        rec["nyO"], rec["nyH"] = max(rec["nyO"], 2), max(rec["nyH"], 2)
    if name in PR_LIKE and k % 2 == 0:
        rec["flux"] = K.FLUX[(k // 2) % len(K.FLUX)]  # pr in kg m-2 s-1: magnitudes 1e-5 ... 1e-9
    return rec


def build(rec):
    nprs = np.random.RandomState(rec["np_seed"])
    name = rec["config"]
    dO = K.whole_years(rec["y0"], rec["nyO"])
    dH = dO if rec["equal"] else K.whole_years(rec["y0"] + (1 if rec["nyH"] != rec["nyO"] else 0), rec["nyH"])
    if rec.get("n_exact"):
        import datetime

        dO = dH = K.dates_from(datetime.date(1901, 1, 1), int(rec["n_exact"]))
    if rec.get("short"):
        nO, nH = int(nprs.randint(2, 60)), int(nprs.randint(2, 60))
        if rec["equal"]:
            nH = nO
        dO, dH = dO[:nO], dH[:nH]
    if name in PR_LIKE or rec.get("kind") == "pr":
        obs = K.pr_series(nprs, dO, 3.0, floor=0.01)
        # multiplicative bias: factor exp(sigma_bias / 4) in [~0.08, ~12]
        H = K.pr_series(nprs, dH, 3.0 * float(np.exp(rec["sigma_bias"] / 4.0)), floor=0.01)
        if rec.get("flux"):
            obs, H = obs * rec["flux"], H * rec["flux"]
        sigma = float(np.std(obs))
    else:
        sigma = 3.0
        amp = 0.0 if name == "ISIMIP-window" else 8.0
        # linear trends (K / year), centred so that they do not change the series' means
        cen = lambda d: (np.arange(d.size) - (d.size - 1) / 2.0) / 365.25  # noqa: E731
        obs = K.tas_series(nprs, dO, 283.0, sigma, amp=amp) + rec.get("slope_obs", 0.0) * cen(dO)
        H = K.tas_series(nprs, dH, 283.0 + rec["sigma_bias"] * sigma, sigma * rec["sd_ratio"], amp=amp) + rec.get("slope_H", 0.0) * cen(dH)
        if rec.get("ties"):
            skew = lambda n: (nprs.gamma(2.0, 1.0, n) - 2.0) / np.sqrt(2.0)  # noqa: E731  (mean 0, sd 1, skewness 1.4)
            obs = np.round(283.0 + 8 * np.sin(2 * np.pi * K.doy_of(dO) / 365.25) * (amp / 8.0) + sigma * skew(dO.size), 1)
            H = np.round(283.0 + rec["sigma_bias"] * sigma + 8 * np.sin(2 * np.pi * K.doy_of(dH) / 365.25) * (amp / 8.0)
                         + sigma * rec["sd_ratio"] * skew(dH.size), 1)
    return dict(obs=obs, H=H, dO=dO, dH=dH, sigma=sigma)


def min_window_sample(rec, data):
    """smallest calibration sample a window sees (whole series when window-free; ISIMIP month mode: a month)"""
    nO, nH = data["obs"].size, data["H"].size
    if rec["config"] in ("ISIMIP", "ISIMIP-trend") and rec["mode"] is None:
        return min(nO, nH) * 28 // 366
    if rec["mode"] is None:
        return min(nO, nH)
    L = rec["mode"][0] + (rec["mode"][0] % 2 == 0)
    return min(nO, nH) * L // 366


def run_sequence(rec):
    """a method inter-comparison on ONE set of input arrays (window-free): consecutive debiaser calls get the very same
    obs / cm_hist / cm_future arrays (no copies in between); every call is judged against pristine copies of the inputs"""
    data = build(rec)
    obs, H = data["obs"], data["H"]
    F = H.copy()  # the series to correct = the reference-period simulation; shared by all calls below
    obs0, H0 = obs.copy(), H.copy()
    names = ["LS-multiplicative", "DC-multiplicative", "LS-multiplicative"] if rec["kind"] == "pr" else \
        ["LS-additive", "QM-parametric", "ECDFM", "DC-additive", "LS-additive"]
    scale = float(max(np.max(np.abs(obs0)), np.max(np.abs(H0))))
    tol = 1e-8 * scale
    bias = float(np.mean(H0) - np.mean(obs0))
    info = {"n_obs": int(obs.size), "n_hist": int(H.size), "clause": "exact, consecutive calls on the same arrays", "bias": bias}
    for step, name in enumerate(names, 1):
        with warnings.catch_warnings(), np.errstate(all="ignore"):
            warnings.simplefilter("ignore")
            out = make(name, None).apply_location(obs, H, F)
        where = f"sequence/{rec['kind']} call {step} of {names} ({name}, window-free, n_obs={obs.size}, n_hist={H.size}, bias {bias:+.4g})"
        if name.startswith("DC-"):
            err = float(np.max(np.abs(out - obs0)))
            if err > tol:
                return f"{where}: DeltaChange with an unchanged model does not return obs (max deviation {err:.3g})", info
        else:
            resid = float(np.mean(out) - np.mean(obs0))
            info["residual"] = resid
            if not abs(resid) <= tol:
                return (f"{where}: residual mean bias {resid:+.4g} > {tol:.3g} when the debiaser is given the arrays an earlier call was "
                        f"given (a pristine copy gives the observed mean)"), info
    return None, info


def run_case(rec):
    if rec["config"] == "sequence":
        return run_sequence(rec)
    data = build(rec)
    obs, H, dO, dH = data["obs"], data["H"], data["dO"], data["dH"]
    name = rec["config"]
    mode = tuple(rec["mode"]) if rec["mode"] else None
    ymode = tuple(rec["ymode"]) if rec["ymode"] else None
    deb = make(name, mode, ymode)
    scale = float(max(np.max(np.abs(obs)), np.max(np.abs(H))))  # relative to the data (pr fluxes are ~1e-6)
    tol = 1e-8 * scale
    with warnings.catch_warnings(), np.errstate(all="ignore"):
        warnings.simplefilter("ignore")
        if name == "ISIMIP-window":
            yO, yH = 1980 + np.arange(obs.size) // 365, 1980 + np.arange(H.size) // 365
            out = deb._apply_on_window(obs, H, H.copy(), yO, yH, yH.copy())
        else:
            kO, kH, kF = rec.get("kinds", ["date"] * 3)
            lO, lH, lF = rec.get("layouts1d", ["C"] * 3)
            out = deb.apply_location(lay1d(obs, lO), lay1d(H, lH), lay1d(H.copy(), lF), present(dO, kO), present(dH, kH), present(dH, kF))
    return judge(rec, data, out)


def judge(rec, data, out):
    """the clauses of the property on ONE location: `out` is what the library returned for (obs, cm_hist, cm_future = cm_hist) of `data`"""
    obs, H, dO, dH = data["obs"], data["H"], data["dO"], data["dH"]
    name = rec["config"]
    mode = tuple(rec["mode"]) if rec["mode"] else None
    ymode = tuple(rec["ymode"]) if rec["ymode"] else None
    scale = float(max(np.max(np.abs(obs)), np.max(np.abs(H))))  # relative to the data (pr fluxes are ~1e-6)
    tol = 1e-8 * scale
    out = np.asarray(out)
    want_n = obs.size if name.startswith("DC-") else H.size
    info = {"n_obs": int(obs.size), "n_hist": int(H.size), "clause": None}
    if out.shape != (want_n,) or not np.isfinite(out).all():
        bad = np.where(~np.isfinite(out))[0] if out.shape == (want_n,) else np.array([], dtype=int)
        dd = dO if name.startswith("DC-") else dH
        return (f"{name} (windows {mode}, year windows {ymode}, n_obs={obs.size}, n_hist={H.size}): output shape {out.shape}; {bad.size} steps are "
                f"NaN / unassigned for finite input" + (f" (first: step {int(bad[0])}, {dd[int(bad[0])]})" if bad.size and name != "ISIMIP-window" else "")), info
    bias = float(np.mean(H) - np.mean(obs))
    resid = float(np.mean(out) - np.mean(obs))
    info.update(bias=bias, residual=resid)
    where = f"{name} (windows {mode}, year windows {ymode}, n_obs={obs.size}, n_hist={H.size}, bias {bias:+.4g})"
    window_free = mode is None and name not in ("ISIMIP", "ISIMIP-trend")
    # ---- exact clauses
    if name in EXACT_EVERYWHERE:
        info["clause"] = "exact: out == obs"
        err = float(np.max(np.abs(out - obs)))
        if err > tol:
            return f"{where}: DeltaChange with an unchanged model does not return obs (max deviation {err:.3g} > {tol:.3g})", info
        return None, info
    ties = bool(rec.get("ties"))  # the rank-transfer theorems need a tie-free cm_hist: tied data is judged by the loose clause
    if name == "QM-nonparametric" and window_free and obs.size == H.size and not ties:
        info["clause"] = "exact: sorted(out) == sorted(obs)"
        if not np.array_equal(np.sort(out), np.sort(obs)):
            d = float(np.max(np.abs(np.sort(out) - np.sort(obs))))
            return f"{where}: equal sample sizes but the output is not the observed multiset (max deviation of order statistics {d:.3g})", info
        return None, info
    if name == "CDFt" and window_free and ymode is None and obs.size == H.size and obs.size >= 2 and not ties:
        # Props.C01.cdft_rank_transfer_clamped: every output is the observation of the same rank, clamped to the range of
        # the shifted model sample H' = H + (mean obs - mean H)
        info["clause"] = "exact: sorted(out) == clip(sorted(obs), range of shifted cm_hist) to rounding"
        Hs = H + (np.mean(obs) - np.mean(H))
        want = np.clip(np.sort(obs), Hs.min(), Hs.max())
        d = float(np.max(np.abs(np.sort(out) - want)))
        if d > 1e-6 * scale:
            return (f"{where}: equal sample sizes but the output is not the clamped rank transfer of the observations "
                    f"(max deviation of order statistics {d:.3g})"), info
        return None, info
    if name == "SDM-absolute" and window_free and obs.size == H.size:
        info["clause"] = "exact: sorted(out) == sorted(obs) to rounding"
        d = float(np.max(np.abs(np.sort(out) - np.sort(obs))))
        if d > 1e-6 * scale or abs(resid) > tol * 10:
            return f"{where}: equal sample sizes but the output is not the observed multiset (max deviation {d:.3g}, residual mean bias {resid:.3g})", info
        return None, info
    if name in EXACT_WINDOW_FREE_MEAN and window_free and ymode is None and not (ties and name == "QDM-absolute"):
        info["clause"] = "exact: mean(out) == mean(obs)"
        if abs(resid) > tol:
            return f"{where}: residual mean bias {resid:.3g} > {tol:.3g} in an exact configuration", info
        if name in PARAM_SPREAD and min(obs.size, H.size) >= 3:
            sd_o, sd_out = float(np.std(obs)), float(np.std(out))
            info["spread"] = (sd_o, sd_out)
            if abs(sd_out - sd_o) > 1e-7 * max(1.0, sd_o):  # tas-like data only (K)
                return f"{where}: standard deviation of the output {sd_out:.6g} != observed {sd_o:.6g} (calibrated spread not reproduced)", info
        return None, info
    # ---- the loose clause: at most a small fraction of the original bias (only on samples of >= 200 values per window)
    nmin = min_window_sample(rec, data)
    info["clause"] = "loose: |residual| <= max(tol, 0.25 |bias|)"
    info["min_window_sample"] = int(nmin)
    if nmin < 200:
        info["clause"] = "not judged (fewer than 200 values per window)"
        return None, info
    # tol of the loose clause: rounding, plus the resolution of an empirical quantile grid of this size
    tol_loose = max(tol, 2.0 * float(np.ptp(obs)) / nmin)
    if ties:
        # tied data is known to its storage resolution only (0.1 K here): a rank-based method resolves a tie group to one of its
        # ends, which moves the mean by up to that resolution whatever the bias is
        tol_loose += 0.1
    info["tol_loose"] = tol_loose
    if abs(resid) > max(tol_loose, 0.25 * abs(bias)):
        return (f"{where}: residual mean bias {resid:+.4g} is not a small fraction of the original bias {bias:+.4g} "
                f"(limit {max(tol_loose, 0.25 * abs(bias)):.3g})"), info
    return None, info


# ------------------------------------------------------------------ the ways a user can hand the SAME days / the SAME numbers over
# The property is quantified over "all observation / simulation series" given to the PUBLIC entry points (`apply_location`, `apply`).
# A series is its values and its calendar days — not the encoding of the time axis, not the epoch of the calendar, not the memory
# layout of the arrays, not serial / parallel / failsafe execution, not how the debiaser object was obtained.  The cases below cover
# that part of the quantifier ("for all inputs", "all eight debiasers, with and without running windows") systematically: every
# encoding x every library function that reads the time axis x calendars on both sides of the datetime64 epoch, and every layout x
# every execution path of `apply`, a few of each on every run.  They are judged by the very clauses of `judge` (nothing more).
ALL_KINDS = ("date", "datetime", "datetime_tz", "plain", "pd_ts", "M8D", "M8h", "M8m", "M8s", "M8ms", "M8us", "M8ns", "pd_values")
EPOCH_KINDS = ("M8D", "M8h", "M8m", "M8s", "M8ms", "M8us", "M8ns", "pd_values")  # integer offsets from 1970-01-01: the sign matters
TIME_PATHS = ("doy", "month", "year", "isimip-year")  # utils.day_of_year (running windows) / month (ISIMIP month mode) / year (year windows; ISIMIP trend)
EPOCHS = ("pre1970", "straddle", "post1970", "pre1900", "post2038")
LAYOUTS_1D = ("C", "strided", "reversed", "readonly", "column", "byteswapped")
LAYOUTS_3D = ("C", "F", "T", "swap", "moveaxis", "strided_t", "strided_xy", "reversed", "readonly", "byteswapped", "broadcast")
CONSTRUCT = ("plain", "reused", "interleaved", "deepcopy")
GRID_CONFIGS = ["LS-additive", "QM-parametric", "DC-additive", "QM-nonparametric", "ECDFM", "LS-multiplicative", "QDM-absolute", "SDM-absolute",
                "CDFt", "ISIMIP", "DC-multiplicative"]


def present(dates, kind):
    """probes.present plus pandas' encodings (what xarray / pandas readers hand out)"""
    if kind == "pd_ts":
        import pandas as pd

        return np.array([pd.Timestamp(d.year, d.month, d.day, 18 if i % 2 else 0) for i, d in enumerate(dates)], dtype=object)
    if kind == "pd_values":
        import pandas as pd

        return pd.DatetimeIndex([d.isoformat() for d in dates]).values  # datetime64 in pandas' resolution
    return probes.present(dates, kind)


def _other_endian(x):
    return x.astype(x.dtype.newbyteorder("S"))  # same values, the byte order a file written on another architecture has


def lay1d(x, how):
    """the same values in another of the memory layouts numpy hands out for a 1-d series (gaps hold NaN: reading them shows)"""
    if how == "C":
        return x
    n = x.size
    if how == "strided":  # every second element of a longer record
        buf = np.full(2 * n, np.nan, dtype=x.dtype)
        buf[::2] = x
        return buf[::2]
    if how == "reversed":  # stored latest-first, viewed earliest-first (negative stride)
        return x[::-1].copy()[::-1]
    if how == "readonly":  # memory-mapped / broadcast / user-protected arrays
        y = x.copy()
        y.setflags(write=False)
        return y
    if how == "column":  # one cell of a (time, x, y) cube — what `apply` itself passes down
        buf = np.full((n, 2, 3), np.nan, dtype=x.dtype)
        buf[:, 1, 2] = x
        return buf[:, 1, 2]
    if how == "byteswapped":
        return _other_endian(x)
    raise ValueError(how)


def lay3d(a, how):
    """the same (time, x, y) values in another memory layout"""
    n, nx, ny = a.shape
    if how == "C":
        return np.ascontiguousarray(a)
    if how == "F":
        return np.asfortranarray(a)
    if how == "T":  # stored (y, x, time), brought to (time, x, y) with .T
        return np.ascontiguousarray(a.T).T
    if how == "swap":  # stored (time, y, x), spatial axes swapped with transpose
        return np.ascontiguousarray(a.transpose(0, 2, 1)).transpose(0, 2, 1)
    if how == "moveaxis":  # stored (x, y, time)
        return np.moveaxis(np.ascontiguousarray(np.moveaxis(a, 0, -1)), -1, 0)
    if how == "strided_t":  # every second step of a longer record
        buf = np.full((2 * n, nx, ny), np.nan, dtype=a.dtype)
        buf[::2] = a
        return buf[::2]
    if how == "strided_xy":  # a thinned sub-region of a larger domain
        buf = np.full((n, 2 * nx + 1, 2 * ny + 1), np.nan, dtype=a.dtype)
        buf[:, 1::2, 1::2] = a
        return buf[:, 1::2, 1::2]
    if how == "reversed":  # negative strides on every axis
        return a[::-1, ::-1, ::-1].copy()[::-1, ::-1, ::-1]
    if how == "readonly":
        b = a.copy()
        b.setflags(write=False)
        return b
    if how == "byteswapped":
        return _other_endian(np.ascontiguousarray(a))
    if how == "broadcast":  # one series for every cell (a station record against a grid): zero strides, read-only
        return np.broadcast_to(a[:, :1, :1], a.shape)
    raise ValueError(how)


def _epoch_y0(rng, epoch, nyO, nyH):
    """first year of obs (cm_hist starts in the same or the next year) so that the spans lie as `epoch` says"""
    span = max(nyO, nyH) + 1
    if epoch == "pre1970":
        return rng.randint(1925, 1969 - span)
    if epoch == "straddle":  # both spans contain days of 1969 and of 1970
        return 1968 - rng.randint(0, max(0, min(nyO, nyH) - 3))
    if epoch == "pre1900":
        return rng.randint(1850, 1899 - span)
    if epoch == "post2038":
        return rng.randint(2040, 2090)
    return rng.randint(1972, 2015)


def gen_enc_case(rng, path, kind, epoch, k):
    """one `apply_location` case of the existing kinds (judged by `judge`) whose time axes are given in encoding `kind`, whose calendar
    lies as `epoch` says, and whose configuration makes the library read the time axis through `path`"""
    ymode, extra = None, {}
    if path == "doy":
        name = ["LS-additive", "QM-parametric", "QM-nonparametric", "ECDFM", "SDM-absolute", "DC-additive", "QDM-absolute", "CDFt",
                "LS-multiplicative", "ISIMIP"][k % 10]
        S = rng.choice([15, 31, 61])
        L = max(S, rng.choice([61, 91]))
        mode = [L, S]
        nyO, nyH = rng.randint(4, 5), rng.randint(4, 5)
    elif path == "month":
        name, mode = "ISIMIP", None
        nyO, nyH = rng.randint(8, 9), rng.randint(8, 9)  # >= 200 values per month: the loose clause is judged
    elif path == "year":
        name, mode = ["CDFt", "QDM-absolute"][k % 2], None
        ymode = rng.choice([[17, 9], [5, 3], [9, 9], [3, 1]])
        nyO, nyH = rng.randint(3, 8), rng.randint(6, 10)
    else:  # ISIMIP step 3 reads the years of all three axes when the annual means have a significant trend
        name = "ISIMIP-trend"
        S = rng.choice([31, 61])
        mode = [max(S, 61), S] if k % 2 else None
        nyO = nyH = rng.randint(12, 14)
        slope_obs = rng.choice([0.0, 0.05, -0.05])
        extra = dict(slope_obs=slope_obs, slope_H=slope_obs + rng.choice([-1, 1]) * rng.choice([0.15, 0.2, 0.25]))
    equal = name.startswith("DC-") or name == "ISIMIP-trend" or (k % 4 == 0)
    if equal:
        nyH = nyO
    kinds = [kind] * 3
    if k % 2:
        kinds = [rng.choice(ALL_KINDS) for _ in range(3)]
        kinds[rng.randrange(3)] = kind
    rec = dict(config=name, case="enc", path=path, epoch=epoch, mode=mode, ymode=ymode, nyO=nyO, nyH=nyH, equal=equal,
               y0=_epoch_y0(rng, epoch, nyO, nyH), np_seed=rng.randint(0, 2**31 - 1), short=False,
               sigma_bias=rng.choice([-1, 1]) * rng.choice([1.0 / 3, 1.0, 3.0]), sd_ratio=rng.choice([1.0, 1.5]), kinds=kinds,
               layouts1d=[rng.choice(LAYOUTS_1D) for _ in range(3)], **extra)
    if name == "ISIMIP-trend":
        rec["sigma_bias"] = rng.choice([-1, 1]) * rng.choice([1.0 / 3, 2.0 / 3])
    return rec


def enc_plan(rng, tier):
    """(path, kind, epoch) triples of one run: every time-reading path x every encoding; the encodings that count from 1970 get a
    calendar before the epoch AND another one, the object encodings one (rotating); the slow ISIMIP-trend path a rotating subset in quick"""
    plan = []
    for pi, path in enumerate(TIME_PATHS):
        kinds = list(ALL_KINDS)
        rng.shuffle(kinds)
        slow = path == "isimip-year"
        for ki, kind in enumerate(kinds):
            if kind in EPOCH_KINDS:
                if slow and tier == "quick" and ki % 2:
                    continue
                plan.append((path, kind, "pre1970"))
                if not (slow and tier == "quick"):
                    plan.append((path, kind, EPOCHS[1 + (ki + pi) % 4]))
            elif not (slow and tier == "quick" and ki % 2):
                plan.append((path, kind, EPOCHS[(ki + pi) % 5]))
    return plan


def gen_grid_case(rng, k, tier, rot=0):
    """the public `apply` on a (time, x, y) grid: debiaser x window mode x memory layout of each of the three arrays x serial / parallel x
    failsafe x progress bar x time-axis encoding x how the debiaser object was obtained"""
    name = GRID_CONFIGS[k % len(GRID_CONFIGS)]
    heavy = name in ("ISIMIP", "CDFt", "QDM-absolute", "SDM-absolute")
    windowed = name == "ISIMIP" or k % 3 == 1
    ymode = None
    if windowed:
        S = rng.choice([31, 61])
        mode = [max(S, rng.choice([61, 91])), S]
        nyO, nyH = rng.randint(4, 5), rng.randint(4, 5)
        if name == "ISIMIP" and k % 2:
            mode = None  # month mode
    else:
        mode = None
        nyO, nyH = rng.randint(1, 4), rng.randint(1, 4)
        if name in ("QDM-absolute", "CDFt") and rng.random() < 0.5:
            ymode = rng.choice([[5, 3], [9, 9]])
    equal = name.startswith("DC-") or (name in ("QM-nonparametric", "SDM-absolute", "CDFt") and k % 2 == 0)
    if equal:
        nyH = nyO
    # layouts: the k-th case puts the k-th layout on cm_future (the array the result buffer is allocated from), rotating ones on the others
    # (`rot` and the round k // #debiasers shift the pairing, so that a debiaser meets another layout in every round and on every seed)
    q = k + rot + k // len(GRID_CONFIGS)
    lF = LAYOUTS_3D[q % len(LAYOUTS_3D)]
    lO = LAYOUTS_3D[(3 * q + 1) % len(LAYOUTS_3D)]
    lH = LAYOUTS_3D[(5 * q + 2) % len(LAYOUTS_3D)]
    shape = rng.choice([[2, 3], [3, 2], [2, 2]]) if not heavy else rng.choice([[2, 2], [1, 2], [2, 1]])
    parallel = k % 4 == 3
    timed = mode is not None or ymode is not None or name == "ISIMIP" or rng.random() < 0.5
    epoch = EPOCHS[k % len(EPOCHS)]
    rec = dict(config="grid/" + name, debiaser=name, mode=mode, ymode=ymode, nyO=nyO, nyH=nyH, equal=equal, y0=_epoch_y0(rng, epoch, nyO, nyH),
               np_seed=rng.randint(0, 2**31 - 1), short=False, sigma_bias=rng.choice([-1, 1]) * rng.choice([0.5, 1.0]), sd_ratio=rng.choice([1.0, 1.5]),
               shape=shape, layouts=[lO, lH, lF], parallel=parallel, nr_processes=rng.choice([None, 2, 3, 7]) if parallel else None,
               failsafe=k % 2 == 0, progressbar=(not parallel and k % 5 == 0), kinds=[rng.choice(ALL_KINDS) for _ in range(3)] if timed else None,
               construct=CONSTRUCT[(k // 2) % len(CONSTRUCT)], epoch=epoch)
    if name in PR_LIKE and k % 2 == 0:
        rec["flux"] = K.FLUX[(k // 2) % len(K.FLUX)]
    return rec


def _construct(name, mode, ymode, how, shape):
    """the debiaser object, obtained one of the ways a session legitimately produces it"""
    import copy

    deb = make(name, mode, ymode)
    if how == "deepcopy":
        return copy.deepcopy(deb)
    if how == "interleaved":  # other debiasers (other variables, other window settings) are configured between construction and use
        for other in ("LS-multiplicative", "QM-parametric", "DC-multiplicative"):
            make(other, (31, 31) if mode is None else None)
        make(name, (91, 7) if name not in ("ISIMIP-window",) else None, None)
        return deb
    if how == "reused":  # the object has already debiased another, differently shaped data set
        r = np.random.RandomState(7)
        nt = 800
        a = 283.0 + 3.0 * r.standard_normal((nt, 1, 2))
        b = 285.0 + 4.0 * r.standard_normal((nt, 1, 2))
        if name in PR_LIKE:
            a, b = np.abs(a - 280.0) + 0.01, np.abs(b - 280.0) + 0.01
        with warnings.catch_warnings(), np.errstate(all="ignore"):
            warnings.simplefilter("ignore")
            deb.apply(a, b, b.copy(), progressbar=False)
        return deb
    return deb


def run_grid_case(rec):
    import contextlib
    import io

    name = rec["debiaser"]
    nx, ny = rec["shape"]
    cell_rec = dict(rec, config=name)
    cells = {}
    for i in range(nx):
        for j in range(ny):
            c = i * ny + j
            d = build(dict(cell_rec, np_seed=(rec["np_seed"] + 7919 * c) % (2**31 - 1)))
            if name in PR_LIKE:  # every cell has its own climatology
                d["obs"], d["H"] = d["obs"] * (1.0 + 0.25 * c), d["H"] * (1.0 + 0.25 * c)
            else:
                d["obs"], d["H"] = d["obs"] + 3.0 * c, d["H"] + 3.0 * c
            cells[(i, j)] = d
    d0 = cells[(0, 0)]
    dO, dH = d0["dO"], d0["dH"]
    cube = lambda key: np.stack([np.stack([cells[(i, j)][key] for j in range(ny)], axis=1) for i in range(nx)], axis=1)  # noqa: E731
    lO, lH, lF = rec["layouts"]
    obs3, H3 = lay3d(cube("obs"), lO), lay3d(cube("H"), lH)
    F3 = lay3d(np.array(H3, dtype=float), lF)  # cm_future = cm_hist value for value (whatever the layouts did to the values)
    H3v, obs3v = np.array(H3, dtype=float), np.array(obs3, dtype=float)
    if lF == "broadcast":  # cm_future is one series for all cells: so must cm_hist be (value for value)
        H3 = lay3d(np.array(F3, dtype=float), "C")
        H3v = np.array(H3, dtype=float)
    mode = tuple(rec["mode"]) if rec["mode"] else None
    ymode = tuple(rec["ymode"]) if rec["ymode"] else None
    kw = dict(progressbar=bool(rec.get("progressbar")), failsafe=bool(rec.get("failsafe")))
    if rec.get("parallel"):
        kw["parallel"] = True
        if rec.get("nr_processes"):
            kw["nr_processes"] = int(rec["nr_processes"])
    if rec.get("kinds"):
        kO, kH, kF = rec["kinds"]
        kw.update(time_obs=present(dO, kO), time_cm_hist=present(dH, kH), time_cm_future=present(dH, kF))
    where = (f"grid/{name} apply(windows {mode}, year windows {ymode}, grid {H3v.shape[0]}x{nx}x{ny}, n_obs={obs3v.shape[0]}, layouts (obs, cm_hist, "
             f"cm_future) = {tuple(rec['layouts'])}, {'parallel' if rec.get('parallel') else 'serial'}, failsafe={kw['failsafe']}, time axes "
             f"{rec.get('kinds')}, {rec.get('epoch')} from {rec['y0']}, debiaser {rec.get('construct')})")
    with warnings.catch_warnings(), np.errstate(all="ignore"), contextlib.redirect_stderr(io.StringIO()):
        warnings.simplefilter("ignore")
        deb = _construct(name, mode, ymode, rec.get("construct", "plain"), rec["shape"])
        out = deb.apply(obs3, H3, F3, **kw)
    info = {"n_obs": int(obs3v.shape[0]), "n_hist": int(H3v.shape[0]), "clause": None}
    out = np.asarray(out)
    want = obs3v.shape if name.startswith("DC-") else H3v.shape
    if out.shape != want:
        return f"{where}: output shape {out.shape}, expected {want}", info
    for (i, j), d in cells.items():
        data = dict(d, obs=obs3v[:, i, j], H=H3v[:, i, j])
        p, ci = judge(cell_rec, data, out[:, i, j])
        info.update(ci)
        if p:
            return f"{where}: cell ({i}, {j}): {p}", info
    return None, info


# ------------------------------------------------------------------ the proved bound at unequal sizes (Props.C01 §7)
BOUND_SHAPES = ["uniform", "outlier_high", "outlier_low", "clustered", "small_n", "small_m"]


def gen_bound_case(rng, k, method="QM-nonparametric"):
    """window-free non-parametric QuantileMapping (or CDFt), cm_future = cm_hist.copy(), tie-free dyadic data, n != m in 2..400"""
    if method == "CDFt":
        n, m = rng.randint(2, 400), rng.randint(2, 400)
        if k % 3 == 0:
            n = rng.randint(2, 6)
        if k % 3 == 1:
            m = rng.randint(2, 6)
        while m == n:
            m = rng.randint(2, 400)
        return dict(config="bound/CDFt", shape=["uniform", "clustered"][k % 2], n=n, m=m, np_seed=rng.randint(0, 2**31 - 1),
                    bias=rng.choice([-20.0, -3.0, 0.5, 7.0, 40.0]), cover=rng.choice([1.25, 2.0, 6.0]))
    shape = BOUND_SHAPES[k % len(BOUND_SHAPES)]
    n, m = rng.randint(2, 400), rng.randint(2, 400)
    if shape == "small_n":
        n = rng.randint(2, 6)
    if shape == "small_m":
        m = rng.randint(2, 6)
    while m == n:
        m = rng.randint(2, 400)
    return dict(config="bound/QM-nonparametric", shape=shape, n=n, m=m, np_seed=rng.randint(0, 2**31 - 1),
                detrending=rng.choice(["additive", "no_detrending"]), bias=rng.choice([-20.0, -3.0, 0.5, 7.0, 40.0]),
                spread=rng.choice([0.25, 1.0, 4.0]))


def build_bound(rec):
    nprs = np.random.RandomState(rec["np_seed"])
    n, m, shape = rec["n"], rec["m"], rec["shape"]
    # distinct multiples of 1/64: exact in floats, exact in the model's rationals, no ties
    obs = nprs.choice(64 * 40, size=n, replace=False).astype(float) / 64.0
    if shape == "outlier_high":
        obs[int(nprs.randint(n))] += 1000.0
    elif shape == "outlier_low":
        obs[int(nprs.randint(n))] -= 1000.0
    elif shape == "clustered":
        obs = np.where(np.arange(n) % 2 == 0, obs, obs + 500.0)
    obs = obs + 270.0
    H = nprs.choice(64 * 40 * 8, size=m, replace=False).astype(float) / 64.0 * rec["spread"] + 270.0 + rec["bias"]
    return obs, H


def run_bound_case_cdft(rec):
    """Props.C01.cdft_mean_bound on the real code: |mean(out) - mean(obs)| <= range(obs) (1/n + 1/m), judged under the theorem's range
    guard (the observations lie inside the range of the shifted cm_hist, so CDFt's last step does not clamp)"""
    from ibicus.debias import CDFt

    nprs = np.random.RandomState(rec["np_seed"])
    n, m = rec["n"], rec["m"]
    obs = nprs.choice(64 * 40, size=n, replace=False).astype(float) / 64.0
    if rec["shape"] == "clustered":
        obs = np.where(np.arange(n) % 2 == 0, obs, obs + 500.0)
    width = float(np.ptp(obs)) * rec["cover"] + 1.0
    H = (nprs.choice(1 << 14, size=m, replace=False).astype(float) / float(1 << 14) - 0.5) * width  # distinct values (spacing width / 2^14)
    H = H + float(np.mean(obs)) + rec["bias"]
    obs = obs + 270.0
    H = H + 270.0
    with warnings.catch_warnings(), np.errstate(all="ignore"):
        warnings.simplefilter("ignore")
        deb = CDFt.from_variable("tas", running_window_mode=False, running_window_mode_over_years_of_cm_future=False)
        out = deb.apply_location(obs.copy(), H.copy(), H.copy())
    info = {"n_obs": int(n), "n_hist": int(m), "clause": "proved bound (CDFt): |residual| <= range (1/n + 1/m)"}
    where = f"bound/CDFt ({rec['shape']}, n_obs={n}, n_hist={m}, window-free, cm_future = cm_hist)"
    if out.shape != (m,) or not np.isfinite(out).all():
        return f"{where}: output shape {out.shape} / non-finite values for finite input", info
    Hs = H + (np.mean(obs) - np.mean(H))
    if np.unique(Hs).size != m or not (Hs.min() <= obs.min() and obs.max() <= Hs.max()):
        info["clause"] = "not judged (CDFt: range guard of the theorem does not hold)"
        return None, info
    scale = float(max(np.max(np.abs(obs)), np.max(np.abs(H))))
    rng_obs = float(np.ptp(obs))
    resid = float(np.mean(out) - np.mean(obs))
    bound = rng_obs * (1.0 / n + 1.0 / m)
    info.update(residual=resid, upper=bound, lower=-bound, bias=float(np.mean(H) - np.mean(obs)), ratio=abs(resid) / bound if bound > 0 else 0.0)
    if not abs(resid) <= bound + 1e-9 * scale:
        return (f"{where}: residual mean bias {resid:+.6g} exceeds the proved bound range(obs)(1/n + 1/m) = {bound:.6g} "
                f"(Props.C01.cdft_mean_bound; original bias {info['bias']:+.4g})"), info
    return None, info


def run_bound_case(rec):
    """Props.C01.qm_nonparam_mean_bounds on the real code:  -range(obs)/n <= mean(out) - mean(obs) <= range(obs)/m"""
    if rec["config"] == "bound/CDFt":
        return run_bound_case_cdft(rec)
    from ibicus.debias import QuantileMapping

    obs, H = build_bound(rec)
    n, m = obs.size, H.size
    with warnings.catch_warnings(), np.errstate(all="ignore"):
        warnings.simplefilter("ignore")
        deb = QuantileMapping.from_variable("tas", mapping_type="nonparametric", detrending=rec["detrending"], running_window_mode=False)
        out = deb.apply_location(obs.copy(), H.copy(), H.copy())
    info = {"n_obs": int(n), "n_hist": int(m), "clause": "proved bound: -range/n <= residual <= range/m"}
    where = f"bound/QM-nonparametric ({rec['shape']}, detrending {rec['detrending']}, n_obs={n}, n_hist={m}, window-free, cm_future = cm_hist)"
    if out.shape != (m,) or not np.isfinite(out).all():
        return f"{where}: output shape {out.shape} / non-finite values for finite input", info
    if np.unique(H).size != m:   # guard of the theorem (cannot happen with the generator above)
        info["clause"] = "not judged (ties in cm_hist)"
        return None, info
    scale = float(max(np.max(np.abs(obs)), np.max(np.abs(H))))
    slack = 1e-9 * scale
    rng_obs = float(np.max(obs) - np.min(obs))
    resid = float(np.mean(out) - np.mean(obs))
    lo, hi = -rng_obs / n, rng_obs / m
    info.update(residual=resid, lower=lo, upper=hi, bias=float(np.mean(H) - np.mean(obs)),
                ratio=abs(resid) / (rng_obs * max(1.0 / n, 1.0 / m)) if rng_obs > 0 else 0.0)
    if not (lo - slack <= resid <= hi + slack):
        return (f"{where}: residual mean bias {resid:+.6g} outside the proved interval [-range(obs)/n, range(obs)/m] = [{lo:.6g}, {hi:.6g}] "
                f"(Props.C01.qm_nonparam_mean_bounds; original bias {info['bias']:+.4g})"), info
    return None, info


def run(tier, res, force_search=False, measure=False):
    rng = random.Random(C.seed() * 7919 + 101)
    res.rule = ("tier B: cases of harness/debiasers_corr / isimip_corr (a third on the domain cm_future := cm_hist); oracle: cases = (debiaser, window "
                "mode, year-window mode, spans, equal/unequal sizes, bias in sigma, spread ratio, numpy seed) from one PRNG (VERIF_SEED); non-trivial when "
                "|bias| >= 0.3 sigma; distinct = distinct (debiaser, window mode, year-window mode, clause, bias, length classes)")
    res.trusted = C.BASE_TRUSTED + [
        "harness/families.py / isimip_family.py RatSigmoid implement Model.Family.ratSigmoid in numpy floats (tier B of the parametric window functions)",
        "scipy.stats.norm is assumed to satisfy LocScaleLaws with loc = mean, scale = standard deviation; exercised by the oracle only",
    ]
    res.assumptions = [
        "exact rational arithmetic in the theorems; 'zero to rounding' is the oracle tolerance 1e-8*max(1,|values|)",
        "parametric statements under NoClip (every cdf value in [cdf_threshold, 1-cdf_threshold]); empirical methods: tie-free cm_hist",
        "the quantitative windowed / unequal-length clause is NOT proved: it is decided by the oracle only, on samples with >= 200 values per "
        "window, limit max(2*range(obs)/n_window, 0.25*|bias|)",
        "calibration series cover whole years in running-window mode",
    ]
    res.notes.append("level: proof, PARTIAL for the quantitative clause 'at most a small fraction of the original bias' (empirical-CDF methods at "
                     "unequal sizes, seasonal windows): Props.C01 proves range bounds and the per-window formulas only; that clause is decided by the "
                     "oracle on the real code (res.extra['oracle'])")
    res.notes.append(
        "clauses decided by the oracle on the real code only (the value-level model cannot exhibit them): in-place modification of the caller's "
        "arrays between consecutive calls ('sequence' cases; numpy aliasing — the model's functions are pure; C12 models the write sites), input "
        "dtype conversion and the process pool of apply() (C14 / C05 model the check sequence and the write-back order), the time-axis encodings "
        "(trusted calendar arithmetic), float rounding of index arithmetic on long samples (floor((n-1)q) at an integer: exact in the model)")
    lean_ok = C.lean_phase(res, PROP, GEN, TARGETS)

    # ---- tier B
    n_corr = 6 if tier == "quick" else 50
    mism = K.correspondence(rng, CORR_CONFIGS, n_corr, tier, res, _future_is_hist)
    if mism:
        res.tie_broken.append(f"correspondence DrvDebiasers: {len(mism)} mismatches, first: {str(mism[0])[:800]}")
        res.extra["mismatches"] = mism[:10]
    try:
        from harness import isimip_corr

        sub = C.Result(PROP, tier)
        im = isimip_corr.correspondence(rng, 12 if tier == "quick" else 120, tier, sub, configs=ISIMIP_CORR_CONFIGS)
        res.cov["traces_validated_against_impl"] += sub.cov["traces_validated_against_impl"]
        res.cov["evaluations"] += sub.cov["evaluations"]
        res.distinct |= {("isimip",) + tuple(k) if isinstance(k, tuple) else ("isimip", k) for k in sub.distinct}
        res.extra["isimip_corr"] = {k: v for k, v in sub.extra.items() if k != "mismatches"}
        res.extra["ties_accepted"] = res.extra.get("ties_accepted", 0) + sub.extra.get("ties_accepted", 0)
        if im:
            mism = mism + im
            res.tie_broken.append(f"correspondence DrvIsimip: {len(im)} mismatches, first: {str(im[0])[:800]}")
    except Exception as ex:  # noqa: BLE001
        res.tie_broken.append(f"correspondence DrvIsimip could not run: {type(ex).__name__}: {str(ex)[:300]}")

    # ---- the property's oracle on the real code
    n_or = 48 if tier == "quick" else 600
    if force_search or not lean_ok or mism:
        n_or *= 3
    problems, clauses, worst_ratio = [], {}, {}
    for k in range(n_or):
        name = CONFIGS[k % len(CONFIGS)]
        rec = gen_case(rng, name, tier, k // len(CONFIGS))
        try:
            p, info = run_case(rec)
        except Exception as ex:  # noqa: BLE001
            p, info = f"{name}: {type(ex).__name__}: {str(ex)[:200]}", {}
        cl = info.get("clause") or "error"
        clauses[cl] = clauses.get(cl, 0) + 1
        if cl.startswith("loose") and info.get("bias"):
            r = abs(info["residual"]) / max(abs(info["bias"]), 1e-300)
            worst_ratio[name] = max(worst_ratio.get(name, 0.0), r)
            if measure:
                print(f"{name:18s} mode={rec['mode']} ymode={rec['ymode']} nmin={info.get('min_window_sample')} bias={info['bias']:+.3g} "
                      f"resid={info['residual']:+.3g} ratio={r:.3g} tol_loose={info.get('tol_loose'):.3g}")
        res.count((name, str(rec["mode"]), str(rec["ymode"]), cl[:12], rec["sigma_bias"], info.get("n_obs", 0) // 400, info.get("n_hist", 0) // 400),
                  abs(rec["sigma_bias"]) >= 0.3, sample={k2: rec[k2] for k2 in ("config", "mode", "ymode", "nyO", "nyH", "sigma_bias")})
        if p:
            problems.append((p, rec))
    res.extra["oracle"] = {"cases": n_or, "by_clause": clauses, "worst_residual_over_bias_in_loose_clause": worst_ratio,
                           "tolerance_exact": "1e-8*max(1,|values|)"}

    # the public `apply` on small grids with any input dtype, and one parallel run on a 2 x 3 grid
    par = dict(config="apply/LS-additive", prop=PROP, debiaser="LS-additive", dtypes=["float64", "float64", "float64"], shape=[2, 3],
               n=rng.randint(100, 400), np_seed=rng.randint(0, 2**31 - 1), shift=rng.choice([-6.0, 2.0, 10.0]), parallel=True)
    par1 = dict(par, shape=[1, 1], debiaser="ECDFM", config="apply/ECDFM", np_seed=rng.randint(0, 2**31 - 1))  # fewer cells than processes
    K.apply_cases(rng, tier, res, problems, PROP, extra=[par, par1])

    # every time-axis encoding x every time-reading path x calendars on both sides of 1970 (apply_location), and the public `apply` over
    # memory layouts x serial / parallel x failsafe x construction (see the comment above ALL_KINDS for the quantifier these cover)
    xrng = random.Random(C.seed() * 7919 + 307)
    plan = enc_plan(xrng, tier)
    if force_search or not lean_ok or mism:
        plan = plan * 2
    enc_cov = {}
    for k, (path, kind, epoch) in enumerate(plan):
        rec = gen_enc_case(xrng, path, kind, epoch, k)
        try:
            p, info = run_case(rec)
        except Exception as ex:  # noqa: BLE001
            p, info = f"{rec['config']} ({path}, time axes {rec['kinds']}, {epoch} from {rec['y0']}, layouts {rec['layouts1d']}): {type(ex).__name__}: {str(ex)[:200]}", {}
        if p and not p.startswith(rec["config"] + " (" + path):
            p = f"[time axes {rec['kinds']} read through {path}, calendar {epoch} from {rec['y0']}, layouts {rec['layouts1d']}] {p}"
        enc_cov[(path, kind in EPOCH_KINDS, epoch)] = enc_cov.get((path, kind in EPOCH_KINDS, epoch), 0) + 1
        res.count(("enc", path, kind, epoch, rec["config"], (info.get("clause") or "error")[:12]), True,
                  sample={k2: rec[k2] for k2 in ("config", "path", "epoch", "kinds", "layouts1d", "mode", "ymode", "y0")})
        if p:
            problems.append((p, rec))
    n_grid = 33 if tier == "quick" else 132
    if force_search or not lean_ok or mism:
        n_grid *= 2
    rot = xrng.randrange(len(LAYOUTS_3D))
    for k in range(n_grid):
        rec = gen_grid_case(xrng, k, tier, rot)
        try:
            p, info = run_grid_case(rec)
        except Exception as ex:  # noqa: BLE001
            p, info = (f"{rec['config']} apply(windows {rec['mode']}, grid {rec['shape']}, layouts {rec['layouts']}, parallel={rec['parallel']}, failsafe="
                       f"{rec['failsafe']}, time axes {rec['kinds']}, debiaser {rec['construct']}): {type(ex).__name__}: {str(ex)[:200]}"), {}
        res.count(("grid", rec["debiaser"], str(rec["mode"]), tuple(rec["layouts"]), rec["parallel"], rec["failsafe"], rec["construct"]), True,
                  sample={k2: rec[k2] for k2 in ("config", "mode", "shape", "layouts", "parallel", "failsafe", "kinds", "construct")})
        if p:
            problems.append((p, rec))
    res.extra["oracle"]["encodings_and_layouts"] = {
        "apply_location_cases": len(plan), "by_path_epochal_epoch": {f"{a}/{'datetime64' if b else 'objects'}/{c}": n for (a, b, c), n in sorted(enc_cov.items())},
        "apply_grid_cases": n_grid, "time_encodings": list(ALL_KINDS), "layouts_3d": list(LAYOUTS_3D), "layouts_1d": list(LAYOUTS_1D)}

    # the bound PROVED for unequal sizes (Props.C01.qm_nonparam_mean_bounds / _bound), checked as stated on the real code
    brng = random.Random(C.seed() * 7919 + 211)
    n_b = 90 if tier == "quick" else 1500
    if force_search or not lean_ok or mism:
        n_b *= 3
    worst_b, judged_b = 0.0, 0
    worst_c, judged_c = 0.0, 0
    for k in range(n_b + n_b // 2):
        rec = gen_bound_case(brng, k) if k < n_b else gen_bound_case(brng, k - n_b, "CDFt")
        try:
            p, info = run_bound_case(rec)
        except Exception as ex:  # noqa: BLE001
            p, info = f"bound/QM-nonparametric: {type(ex).__name__}: {str(ex)[:200]}", {}
        if "ratio" in info and rec["config"] == "bound/CDFt":
            judged_c += 1
            worst_c = max(worst_c, info["ratio"])
        elif "ratio" in info:
            judged_b += 1
            worst_b = max(worst_b, info["ratio"])
        res.count((rec["config"], rec["shape"], rec.get("detrending"), rec["n"] // 100, rec["m"] // 100, rec["n"] < rec["m"], "ratio" in info),
                  abs(info.get("residual", 0.0)) > 0, sample={k2: rec.get(k2) for k2 in ("config", "shape", "n", "m", "detrending")})
        if p:
            problems.append((p, rec))
    res.extra["oracle"]["proved_bound_unequal_sizes"] = {
        "theorem": "Props.C01.qm_nonparam_mean_bounds: -range(obs)/n <= mean(out)-mean(obs) <= range(obs)/m", "cases": n_b, "judged": judged_b,
        "worst_abs_residual_over_bound": worst_b, "slack": "1e-9*max|values|",
        "cdft": {"theorem": "Props.C01.cdft_mean_bound: |mean(out)-mean(obs)| <= range(obs)(1/n+1/m) under the range guard", "cases": n_b // 2,
                 "judged": judged_c, "worst_abs_residual_over_bound": worst_c}}
    res.notes.append("unequal sample sizes, window-free non-parametric QuantileMapping (default method pair), tie-free cm_hist: the residual mean "
                     "bias is PROVED to lie in [-range(obs)/n, range(obs)/m] (Props.C01.qm_nonparam_mean_bounds, |.| <= range(obs)/min(n,m)); the "
                     "same inequality is checked on the real code (res.extra['oracle']['proved_bound_unequal_sizes']). CDFt (default pair) at unequal "
                     "sizes: |residual| <= range(obs)(1/n+1/m) PROVED under the range guard obs within [min H', max H'] (Props.C01.cdft_mean_bound; "
                     "false without it) and checked likewise. Still decided by the oracle only: seasonal running windows, CDFt outside the guard")

    seen = set()
    for p, rec in problems:
        key = rec.get("case", "") + rec["config"]
        if key in seen:
            continue
        seen.add(key)
        res.violations.append((p, {"property": PROP, "failing_input": rec, "problem": p, "signature": {"config": rec["config"]}}))
    if res.tie_broken and not problems:
        res.violations.append(("proof obligation / correspondence no longer checks: " + "; ".join(res.tie_broken)[:600],
                               {"property": PROP, "failing_input": None, "broken": res.tie_broken}))
    return res


def replay(data):
    rec = data.get("failing_input")
    if not rec:
        print("replay: no failing input recorded (broken tie):", data.get("broken"))
        return 1
    if str(rec.get("config", "")).startswith("apply/"):
        p, info = K.run_apply_case(rec)
    elif str(rec.get("config", "")).startswith("grid/"):
        p, info = run_grid_case(rec)
    elif str(rec.get("config", "")).startswith("bound/"):
        p, info = run_bound_case(rec)
    else:
        p, info = run_case(rec)
    print("replay", rec["config"], "->", p or "property holds on this input", info)
    return 1 if p else 0
