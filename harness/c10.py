"""C10 — physical bounds and dry-day structure of the output.

Lean phase: `Props.C10` (ISIMIP: every value step 6 writes is a bound or a value not beyond a threshold, bounded trend
transfer clipped, pr: 0 or >= threshold, rsds >= 0 through step 8; precipitation paths of LinearScaling, DeltaChange,
QuantileMapping (hurdle / censored), ScaledDistributionMapping, CDFt (SSR), QuantileDeltaMapping: non-negative,
defined, exact zeros) + tier A `Gen.Debiasers`, `Gen.IsimipFreq` = model.
Tier B: the shared correspondences `debiasers_corr` (real per-window code of LS / DC / QM / QDM / SDM-relative / CDFt
against `Model.Debiasers`) and `isimip_corr` (real `_apply_on_window`, steps 3-7, step 1 / 8 against `Model.Isimip`) with a
modest budget, restricted to the configurations the property speaks about.
Property oracle on the real code with the REAL scipy distributions (`from_variable` / `for_precipitation`): gamma-mixture
precipitation on the eight debiasers, beta / uniform / Weibull data on the six other bounded ISIMIP variables, windows
on and off; the statement's inequalities are checked with exact float comparisons.  Single locations through `apply_location`
and small grids through the public `apply` (serial / parallel, failsafe, time encodings, memory layouts, construction order).
'options' cases: the documented non-default calculation settings of each debiaser (ecdf / iecdf method, cdf_threshold, detrending,
mapping type, the ISIMIP step switches), every listed value at least once per run (OPTION_SPACE).
'zero-threshold' cases: ISIMIP with the lower threshold ON the lower bound 0 (quantifier: configurations); 'time-slices' cases: time axes
made of non-adjacent periods, year windows of several lengths / steps (quantifier: inputs).
"""
import datetime
import logging
import random
import time
import warnings

import numpy as np

from harness import common as C

PROP = "C10"
TARGETS = ["IbicusModel.Props.C10", "IbicusModel.Lemmas.GenDebiasers", "IbicusModel.Lemmas.GenIsimipFreq",
           "IbicusModel.Lemmas.GenIsimipVars", "IbicusModel.Lemmas.GenIsimipSteps",
           "IbicusModel.Lemmas.GenIsimipSteps2", "IbicusModel.Lemmas.GroupMax"]  # GroupMax: reduceat on a sorted series = per-day maxima (step 1 ties unconditional); Steps2: step 1 / step 8 (annual cycle of upper bounds, rsds) regenerated = model
GEN = ["Debiasers", "IsimipFreq", "IsimipVars", "IsimipSteps"]  # IsimipSteps: per-element logic of steps 2-7 (tier A)
TARGETS += ["IbicusModel.Lemmas.GenDebWinSdm"]  # tier A of SDM relative (`_apply_on_window_relative_sdm` denotes Model.Debiasers.sdmRelative) and CDFt SSR with one draw list
GEN += ["DebWin"]  # Gen.DebWin: dataflow programs extracted by translator/extract_debiasers.py
TARGETS += ["IbicusModel.Lemmas.GenIsimipStep6"]  # tier A of ISIMIP step 6 (`_step6_adjust_values_between_thresholds`: fixed fit arguments from the has_* flags, fallback structure; `step6`; `_apply_on_window`)
GEN += ["IsimipStep6"]  # Gen.IsimipStep6: symbolic reading by translator/extract_isimip_step6.py
TARGETS += ["IbicusModel.Props.Capstone3"]  # capstone 3: C10 stated on the denotation of the regenerated per-window pieces (Gen.Debiasers kernels, Gen.DebWin programs, Gen.IsimipStep6.step6 / apply_on_window); the audit imports it
GEN += ["Loops", "GridLoops", "DebWin", "Debiasers", "IsimipStep6"]  # the groups capstone 3 (through Props.Capstone) composes (lean_phase regenerates every transitively imported group anyway)

DAY = 86400.0
THR_ISIMIP = 0.1 / DAY  # lower_threshold of ISIMIP pr, pr_lower_threshold of SDM, censoring threshold of QM censored
THR_QDM = 0.05 / DAY
MIN_WET = 20  # the quantifier's "enough wet values in each window to fit a distribution"

ISIMIP_CORR_CONFIGS = ["pr_mult", "pr_mixed", "pr_mixed_ks", "pr_nofreq", "pr_all", "pr_v30", "pr_rice", "pr_npqm",
                       "skew_npqm", "skew_param", "skew_param_v30", "skew_rice_ks", "skew_step_inv", "hurs", "hurs_param_freq",
                       "prsn_impute"]
DEB_CORR_FAMILIES = ["LS", "DC", "QM", "QDM", "SDMrel", "CDFt"]

PR_DEBIASERS = ["LinearScaling", "DeltaChange", "QuantileMapping-hurdle", "QuantileMapping-censored",
                "ScaledDistributionMapping", "CDFt", "QuantileDeltaMapping", "ISIMIP"]
ISIMIP_VARS = ["hurs", "prsnratio", "rsds", "tasskew", "sfcwind", "tasrange"]


# ------------------------------------------------------------------ data
def dates_from(y0, n, offset=0):
    start = datetime.date(y0, 1, 1) + datetime.timedelta(days=offset)
    return np.array([start + datetime.timedelta(days=k) for k in range(n)], dtype=object)


def doy_of(dates):
    return np.array([d.timetuple().tm_yday for d in dates])


def gen_pr(nprs, n, pdry, shape, scale, drizzle, at_threshold, wet_floor=0.0):
    """gamma mixture in kg m-2 s-1: exact zeros with probability `pdry`, gamma amounts otherwise, optionally some
    drizzle below every threshold and a few values exactly on the ISIMIP threshold (all valid non-negative input)"""
    x = wet_floor + nprs.gamma(shape, scale, size=n)  # wet_floor: wet days of at least 0.1 mm/day (gauge-like data)
    x[nprs.random_sample(n) < pdry] = 0.0
    if drizzle > 0:
        idx = nprs.random_sample(n) < drizzle
        x[idx] = nprs.uniform(1e-9, 4e-7, int(idx.sum()))
    if at_threshold:
        x[nprs.randint(0, n, size=at_threshold)] = THR_ISIMIP
    return x


def seasonal(dates, amp):
    return 1 + amp * np.cos(2 * np.pi * (doy_of(dates) - 172) / 365.25)


def gen_var(nprs, var, dates, bias, polar=False):
    """in-range data for a bounded ISIMIP variable; `bias` in {-1, 0, 1} shifts the distribution (dry / none / wet bias)"""
    n = dates.size
    if var == "hurs":  # percent, saturation at 100 and (rarely) 0
        a, b = {-1: (2.0, 3.0), 0: (4.0, 2.0), 1: (8.0, 1.2), 2: (8.0, 0.6)}[bias]  # 2: humid, piled up at saturation
        x = 100 * nprs.beta(a, b, n)
        x[nprs.random_sample(n) < 0.03 + 0.05 * (bias >= 1)] = 100.0
        x[nprs.random_sample(n) < 0.01] = 0.0
        return x
    if var == "prsnratio":  # fraction of snowfall: many exact 0 / 1
        a, b = {-1: (0.8, 3.0), 0: (1.5, 1.5), 1: (3.0, 0.8), 2: (4.0, 0.6)}[bias]
        x = nprs.beta(a, b, n)
        u = nprs.random_sample(n)
        x[u < 0.25] = 0.0
        x[u > 0.85] = 1.0
        return x
    if var == "tasskew":
        a, b = {-1: (2.0, 4.0), 0: (3.0, 3.0), 1: (5.0, 2.0), 2: (6.0, 0.7)}[bias]
        x = nprs.beta(a, b, n)
        x[nprs.random_sample(n) < 0.01] = 0.0
        x[nprs.random_sample(n) < 0.01] = 1.0
        return x
    if var == "rsds" and polar:
        # high latitude: polar night (rsds exactly 0 on ~150 consecutive days of year, in every year) and a midnight-sun
        # season with days at the clear-sky envelope (the upper bound of the scaled variable)
        top = {-1: 180.0, 0: 250.0, 1: 330.0}[bias]
        env = np.maximum(0.0, np.cos(2 * np.pi * (doy_of(dates) - 172) / 365.25) + 0.2) / 1.2
        cloud = nprs.beta(3.0, 1.5, n)
        cloud[nprs.random_sample(n) < 0.1] = 1.0
        return top * env * cloud
    if var == "rsds":  # W m-2: seasonal clear-sky envelope times a cloud factor
        top = {-1: 220.0, 0: 300.0, 1: 380.0}[bias]
        x = top * np.maximum(seasonal(dates, 0.75), 0.02) * nprs.beta(3.0, 1.5, n)
        x[nprs.random_sample(n) < 0.01] = 0.0
        return x
    if var == "sfcwind":  # m s-1
        sc = {-1: 2.5, 0: 5.0, 1: 9.0}[bias]
        x = sc * nprs.weibull(2.0, n)
        x[nprs.random_sample(n) < 0.02] = nprs.choice([0.0, 0.004, 0.01])
        return x
    if var == "tasrange":  # K
        sc = {-1: 4.0, 0: 8.0, 1: 14.0}[bias]
        x = sc * nprs.weibull(3.0, n)
        x[nprs.random_sample(n) < 0.01] = nprs.choice([0.0, 0.005])
        return x
    raise ValueError(var)


# ------------------------------------------------------------------ the debiasers under test (real classes, real scipy)
def make_debiaser(name, mode, var="pr", fast=True, delta_shift="additive", year_windows=None, parametric=False,
                  default_windows=False, options=None):
    """mode: 'win' (running windows; + year windows for CDFt / QDM) | 'nowin' (window-free; ISIMIP: month mode)
    options: further documented keyword settings handed to the constructor (the 'options' cases, see OPTION_SPACE)"""
    from ibicus.debias import (CDFt, DeltaChange, ISIMIP, LinearScaling, QuantileDeltaMapping, QuantileMapping,
                               ScaledDistributionMapping)

    step = 31 if fast else 1
    rw = dict(running_window_mode=True, running_window_length=91, running_window_step_length=step) if mode == "win" \
        else dict(running_window_mode=False)
    yw = dict(running_window_mode_over_years_of_cm_future=((mode == "win") if year_windows is None else bool(year_windows)))
    extra = dict(options or {})  # empty for every case but the 'options' cases
    with warnings.catch_warnings():
        warnings.simplefilter("ignore")
        if name == "LinearScaling":
            return LinearScaling.from_variable("pr", **rw, **extra)
        if name == "DeltaChange":
            return DeltaChange.from_variable("pr", **rw, **extra)
        if name == "QuantileMapping-hurdle":
            return QuantileMapping.for_precipitation(model_type="hurdle", **rw, **extra)
        if name == "QuantileMapping-hurdle-norand":
            return QuantileMapping.for_precipitation(model_type="hurdle", hurdle_model_randomization=False, **rw, **extra)
        if name == "QuantileMapping-censored":
            return QuantileMapping.for_precipitation(model_type="censored", censoring_threshold=THR_ISIMIP, **rw, **extra)
        if name == "QuantileMapping-fromvar":
            return QuantileMapping.from_variable("pr", **rw, **extra)
        if name == "ScaledDistributionMapping":
            return ScaledDistributionMapping.from_variable("pr", **rw, **extra)
        if name == "ScaledDistributionMapping-forpr":  # the documented convenience constructor
            return ScaledDistributionMapping.for_precipitation(**rw, **extra)
        if name == "QuantileDeltaMapping-forpr":
            return QuantileDeltaMapping.for_precipitation(**rw, **yw, **extra)
        if name == "CDFt":
            return CDFt.from_variable("pr", delta_shift=delta_shift, **rw, **yw, **extra)
        if name == "QuantileDeltaMapping":
            return QuantileDeltaMapping.from_variable("pr", **rw, **yw, **extra)
        if name == "ISIMIP":
            opt = dict(nonparametric_qm=False) if parametric else {}  # parametric step 6 for a doubly bounded variable
            opt.update(extra)
            if default_windows:  # exactly what from_variable gives: running window of 31 days moved in steps of 1 day
                return ISIMIP.from_variable(var, **opt)
            if mode == "win":
                L = 91 if var == "pr" else 31
                return ISIMIP.from_variable(var, running_window_mode=True, running_window_length=L,
                                            running_window_step_length=((31 if parametric else 15) if fast else 1), **opt)
            return ISIMIP.from_variable(var, running_window_mode=False, **opt)
    raise ValueError(name)


class Capture(logging.Handler):
    """records the library's log messages of one run (the 'values left unadjusted' path is outside the quantifier)"""

    def __init__(self):
        super().__init__()
        self.msgs = []

    def emit(self, record):
        self.msgs.append(record.getMessage())


def run_real(deb, o, h, f, tO, tH, tF, np_seed):
    lg = logging.getLogger("ibicus")
    cap = Capture()
    old_level, old_prop = lg.level, lg.propagate
    lg.addHandler(cap)
    lg.setLevel(logging.WARNING)
    lg.propagate = False
    try:
        with warnings.catch_warnings(), np.errstate(all="ignore"):
            warnings.simplefilter("ignore")
            np.random.seed(np_seed)
            try:
                out = deb.apply_location(o.copy(), h.copy(), f.copy(), tO, tH, tF)
                return np.asarray(out, dtype=float), None, cap.msgs
            except Exception as ex:  # noqa: BLE001
                return None, f"{type(ex).__name__}: {str(ex)[:120]}", cap.msgs
    finally:
        lg.removeHandler(cap)
        lg.setLevel(old_level)
        lg.propagate = old_prop


def min_wet_per_window(deb, mode, series_dates, thr):
    """smallest number of values > thr in any window of any of the three series (window-free: the whole series)"""
    from ibicus.utils import day_of_year, month

    counts = []
    with warnings.catch_warnings():
        warnings.simplefilter("ignore")
        if getattr(deb, "running_window_mode", False):
            w = deb.running_window
            doys = [day_of_year(t) for _, t in series_dates]
            loop_doy = doys[0] if type(deb).__name__ == "DeltaChange" else doys[2]
            for c, _ in w.use(loop_doy):
                for (x, _), d in zip(series_dates, doys):
                    counts.append(int((x[w.get_indices_vals_in_window(d, c)] > thr).sum()))
        elif type(deb).__name__ == "ISIMIP":
            for x, t in series_dates:
                m = month(t)
                counts += [int((x[m == k] > thr).sum()) for k in range(1, 13) if (m == k).any()]
        else:
            counts = [int((x > thr).sum()) for x, _ in series_dates]
    return min(counts) if counts else 0


# ------------------------------------------------------------------ the statement, checked exactly
def check_pr(name, deb, out, inputs):
    """-> list of (kind, message, index)"""
    bad = []

    def first(mask):
        return int(np.where(mask)[0][0])

    nan = np.isnan(out)
    if nan.any():
        bad.append(("nan", f"{int(nan.sum())} NaN values", first(nan)))
    neg = out < 0
    if neg.any():
        bad.append(("negative", f"{int(neg.sum())} negative values, min {out[neg].min()!r}", first(neg)))
    if name.startswith("QuantileDeltaMapping"):
        thr = float(deb.censoring_threshold)
        m = (out != 0) & ~(out >= thr)
        if m.any():
            bad.append(("qdm-drizzle", f"{int(m.sum())} values strictly between 0 and the censoring threshold {thr!r} "
                        f"(e.g. {out[m][0]!r})", first(m)))
    if name == "CDFt":
        pos = np.concatenate([x[x > 0] for x in inputs])
        thr = float(pos.min())
        m = (out != 0) & ~(out >= thr)
        if m.any():
            bad.append(("cdft-drizzle", f"{int(m.sum())} values that are neither 0 nor >= the smallest positive input value "
                        f"{thr!r} (e.g. {out[m][0]!r})", first(m)))
    return bad


def check_isimip(deb, var, out):
    lb, lt, ut, ub = float(deb.lower_bound), float(deb.lower_threshold), float(deb.upper_threshold), float(deb.upper_bound)
    bad = []

    def first(mask):
        return int(np.where(mask)[0][0])

    if var == "rsds":  # the bounds refer to the scaled variable; the statement for rsds is non-negativity
        m = ~(out >= 0)
        if m.any():
            bad.append(("rsds-negative", f"{int(m.sum())} values are negative or NaN (e.g. {out[m][0]!r})", first(m)))
        return bad
    m = ~((out >= lb) & (out <= ub)) | ~np.isfinite(out)
    if m.any():
        bad.append(("out-of-bounds", f"{int(m.sum())} values outside [{lb!r}, {ub!r}] (e.g. {out[m][0]!r})", first(m)))
    m = (out > lb) & (out < lt)
    if m.any():
        bad.append(("lower-gap", f"{int(m.sum())} values strictly between the lower bound {lb!r} and the lower threshold {lt!r} "
                    f"(e.g. {out[m][0]!r})", first(m)))
    m = (out > ut) & (out < ub)
    if m.any():
        bad.append(("upper-gap", f"{int(m.sum())} values strictly between the upper threshold {ut!r} and the upper bound {ub!r} "
                    f"(e.g. {out[m][0]!r})", first(m)))
    if var == "pr":
        m = (out != 0) & ~(out >= lt)
        if m.any():
            bad.append(("pr-drizzle", f"{int(m.sum())} values that are neither 0 nor >= lower_threshold {lt!r} (e.g. {out[m][0]!r})",
                        first(m)))
    return bad


# ------------------------------------------------------------------ apply - assign - apply on ONE debiaser object
# public attributes re-assigned between two applies; every apply is judged against the settings current at that apply
MM = 1.0 / DAY
SEQUENCES = {
    "ISIMIP": [[{"lower_threshold": 1.0 * MM}], [{"lower_threshold": 0.5 * MM}, {"lower_threshold": 0.1 * MM}],
               [{"lower_threshold": 1.0 * MM, "nonparametric_qm": True}, {"nonparametric_qm": False}]],
    "QuantileDeltaMapping": [[{"censoring_threshold": 0.5 * MM}], [{"censoring_threshold": 1.0 * MM}, {"censoring_threshold": 0.02 * MM}]],
    "ScaledDistributionMapping": [[{"pr_lower_threshold": 1.0 * MM}]],
    "sfcwind": [[{"lower_threshold": 0.5}], [{"distribution": "gamma"}, {"lower_threshold": 0.3}]],
    "tasrange": [[{"lower_threshold": 0.3}], [{"lower_bound": 0.0, "lower_threshold": 0.5, "distribution": "gamma"}]],
    "hurs": [[{"lower_threshold": 1.0, "upper_threshold": 99.0}], [{"upper_threshold": 99.5}, {"nonparametric_qm": True}]],
    "tasskew": [[{"nonparametric_qm": False}, {"upper_threshold": 0.99, "lower_threshold": 0.01}]],
}


def assign(deb, step):
    import scipy.stats

    for k, v in step.items():
        setattr(deb, k, getattr(scipy.stats, v) if k == "distribution" else v)


# ------------------------------------------------------------------ one case (replayable from its dict)
def gen_case(rng, name, var, mode, tier, long_future=False, regime=None):
    case = {"debiaser": name, "variable": var, "mode": mode, "case_seed": rng.randint(0, 2**31 - 2),
            "years": rng.choice([3, 4]) if tier == "quick" else rng.choice([3, 4, 5, 6]),
            "fast_windows": True if tier == "quick" else rng.random() < 0.8}
    if var == "pr":
        hi = 0.8 if mode == "win" or name == "ISIMIP" else 0.95
        case["pdry"] = [round(rng.uniform(0.05, hi), 3) for _ in range(3)]
        # heavy wet / dry biases: the model is up to 5x too wet or too dry, the future up to 5x the past
        case["scale"] = [rng.choice([2e-5, 5e-5, 1e-4]), rng.choice([1e-5, 5e-5, 2.5e-4]), rng.choice([1e-5, 5e-5, 2.5e-4, 5e-4])]
        case["shape"] = [round(rng.uniform(0.45, 1.2), 2) for _ in range(3)]
        case["drizzle"] = rng.choice([0.0, 0.0, 0.05, 0.15])
        case["at_threshold"] = rng.choice([0, 0, 3])
        if name == "CDFt":  # SSR with every delta shift (additive is the default for pr)
            case["delta_shift"] = rng.choice(["additive", "multiplicative", "no_shift"])
        case["wet_floor"] = rng.choice([0.0, 0.0, THR_ISIMIP])
        if regime == "monsoon" or (regime is None and not long_future and rng.random() < 0.25):
            # wet-day amounts concentrated away from zero (gamma shape >= 3) and strongly differing wet-day frequencies
            case["regime"] = "monsoon"
            case["shape"] = [round(rng.uniform(3.0, 6.0), 2) for _ in range(3)]
            case["scale"] = [rng.choice([2e-5, 3.5e-5, 5e-5]) for _ in range(3)]
            wet, dry = rng.uniform(0.15, 0.35), rng.uniform(0.7, min(hi, 0.88))
            pd = rng.choice([[wet, dry, wet], [wet, dry, dry], [dry, wet, wet], [wet, dry, rng.uniform(0.3, 0.6)]])
            case["pdry"] = [round(x, 3) for x in pd]
            case["drizzle"], case["at_threshold"], case["wet_floor"] = 0.0, 0, 0.0
            case["years"] = max(case["years"], 5)
        if long_future:
            # a future of 12-30 years: more than one running window over years of cm_future (default 17 / 9); the second
            # and later year windows must see the same obs / cm_hist (and the same SSR threshold) as the first
            case["future_years"] = rng.randint(12, 30)
            case["years"] = rng.choice([4, 6, 10])
            case["year_windows"] = True if name == "CDFt" else rng.choice([True, True, False])
            case["wet_floor"] = rng.choice([THR_ISIMIP, THR_ISIMIP, 0.0])
        if regime == "bell":
            # bell-shaped wet-day amounts (gamma shape 1.2 - 8: a freely fitted location would come out negative), the model
            # with fewer dry days than the observations so that its smallest wet values sit at the lowest wet quantiles
            case["regime"] = regime
            case["shape"] = [round(rng.choice([rng.uniform(1.2, 2.5), rng.uniform(2.0, 8.0)]), 2) for _ in range(3)]
            case["scale"] = [rng.choice([2e-5, 3e-5, 5e-5]) for _ in range(3)]
            po = rng.uniform(0.3, 0.6)
            case["pdry"] = [round(po, 3), round(rng.uniform(0.05, po - 0.1), 3), round(rng.uniform(0.05, 0.5), 3)]
            case["drizzle"], case["at_threshold"], case["wet_floor"] = 0.0, 0, 0.0
            case["years"] = rng.choice([6, 10])
            case["probes"] = 80 if name.startswith("QuantileMapping") and mode == "nowin" else 0
        if regime == "default-windows":
            # ISIMIP as from_variable builds it (window 31, step 1) over whole calendar years incl. leap years, model
            # drizzle on every 31 December: every day of the year (also day 366) must come out adjusted
            case.update(default_windows=True, whole_years=True, years=5, regime=regime, wet_floor=0.0, at_threshold=0)
            case["pdry"] = [round(rng.uniform(0.05, 0.5), 3) for _ in range(3)]
            case["shape"] = [round(rng.uniform(0.6, 1.2), 2) for _ in range(3)]
        if regime == "sequence":
            case["regime"] = regime
            case["shape"] = [round(rng.uniform(0.45, 0.8), 2) for _ in range(3)]  # mass just above the location
            case["scale"] = [rng.choice([5e-5, 1e-4]), rng.choice([5e-5, 2.5e-4]), rng.choice([5e-5, 2.5e-4])]
            case["pdry"] = [round(rng.uniform(0.05, 0.5), 3) for _ in range(3)]
            case["wet_floor"], case["years"] = 0.0, 5
            case["sequence"] = rng.choice(SEQUENCES[name])
        if regime == "zero-threshold":
            # quantifier "configurations": the lower threshold coincides with the lower bound 0 (every positive amount is a wet day; the usual
            # setting for pr in mm/day) — a threshold whose VALUE is zero (0.0 / 0 / -0.0) is a set threshold all the same.  Bell-shaped wet
            # amounts with density near zero (a fit whose location is not pinned to the threshold gets a negative location), in both units.
            case["regime"] = regime
            case["shape"] = [round(rng.choice([rng.uniform(1.2, 2.5), rng.uniform(2.0, 6.0)]), 2) for _ in range(3)]
            case["scale"] = [rng.choice([2e-5, 3e-5, 5e-5]) for _ in range(3)]
            po = rng.uniform(0.3, 0.6)
            case["pdry"] = [round(po, 3), round(rng.uniform(0.05, po - 0.1), 3), round(rng.uniform(0.05, 0.5), 3)]
            case["drizzle"], case["at_threshold"], case["wet_floor"] = rng.choice([0.0, 0.05]), 0, 0.0
            case["years"] = rng.choice([6, 10])
            case["unit_factor"] = rng.choice([DAY, DAY, 1.0])
            zero = rng.choice([0.0, 0.0, 0, -0.0])
            case["options"] = {"lower_bound": zero, "lower_threshold": zero}
        if regime == "time-slices":
            # quantifier "inputs": a time axis made of non-adjacent periods (two or three time slices of a scenario run concatenated, e.g.
            # 2031-2040 + 2081-2090; an observational record with a gap).  Every time step of such an axis is output all the same: never
            # NaN (= never left unwritten), never negative, 0 or >= the threshold.  CDFt / QDM: with several year-window lengths / steps.
            case["regime"] = regime
            case["pdry"] = [round(min(p, 0.6), 3) for p in case["pdry"]]
            case["years"] = 4

            def slices(y, k):
                spec = []
                for _ in range(k):
                    ny = rng.randint(3, 8)
                    spec.append([y, 365 * ny + rng.randint(0, 25), rng.randint(0, 200)])
                    y += ny + rng.randint(2, 45)
                return spec
            case["slices"] = {"cm_future": slices(2015 + rng.randint(0, 30), rng.choice([2, 2, 3]))}
            if rng.random() < 0.35:
                case["slices"]["obs"] = slices(1890 + rng.randint(0, 30), 2)
                case["slices"]["cm_hist"] = case["slices"]["obs"] if rng.random() < 0.5 else None
            if name.split("-")[0] in ("CDFt", "QuantileDeltaMapping"):
                case["year_windows"] = True
                step = rng.choice([3, 5, 9, 9])
                case["options"] = {"running_window_over_years_of_cm_future_length": rng.choice([w for w in (5, 9, 17, 17) if w >= step]),
                                   "running_window_over_years_of_cm_future_step_length": step}
            if name == "ISIMIP":
                case["pdry"] = [round(min(p, 0.5), 3) for p in case["pdry"]]
    elif regime == "zero-threshold":
        # as for pr: lower_threshold = lower_bound = 0 for the other variables bounded below by 0 (doubly bounded ones with the parametric step 6)
        case["regime"] = regime
        case["parametric"] = var in ("hurs", "prsnratio", "tasskew")
        case["bias"] = [rng.choice([-1, 0, 1]) for _ in range(3)]
        case["nan_fraction"] = 0.0
        case["years"] = max(case["years"], 4)
        case["options"] = {"lower_threshold": rng.choice([0.0, 0.0, 0, -0.0])}
    elif regime == "polar":
        case.update(regime=regime, polar=True, whole_years=True, years=4, lookup_path=rng.random() < 0.4)
        case["bias"] = [rng.choice([-1, 0, 1]) for _ in range(3)]
        case["nan_fraction"] = 0.0
    elif regime == "default-windows":
        case.update(default_windows=True, whole_years=True, years=4, regime=regime)
        case["bias"] = [rng.choice([-1, 0, 1]) for _ in range(3)]
        case["nan_fraction"] = 0.0
    elif regime == "sequence":
        case["regime"] = regime
        case["bias"] = [rng.choice([0, 1]) for _ in range(3)]
        case["nan_fraction"] = 0.0
        case["years"] = 5
        case["parametric"] = var in ("hurs",)
        case["sequence"] = rng.choice(SEQUENCES[var])
    elif regime == "near-bound":
        # parametric step 6 (nonparametric_qm=False) with data piled up near the upper bound: high quantiles of the fitted
        # beta distribution are requested; they must not pass the upper threshold
        case["parametric"] = True
        case["bias"] = [rng.choice([1, 2, 2]) for _ in range(3)]
        case["nan_fraction"] = 0.0
        case["years"] = max(case["years"], 4)
    else:
        case["bias"] = [rng.choice([-1, 0, 1]) for _ in range(3)]
        case["nan_fraction"] = rng.choice([0.0, 0.0, 0.1]) if var == "prsnratio" else 0.0
    return case


# ------------------------------------------------------------------ documented non-default settings ('options' cases)
# The quantifier ranges over "inputs AND configurations": every debiaser the statement names documents keyword settings that
# select HOW a step is computed without changing what the debiaser is for (which empirical CDF / quantile estimator, the
# rounding of CDF values away from 0 and 1, detrending with a ratio or none, parametric or empirical mapping, the switches of
# the ISIMIP steps).  The statement (never negative, never NaN, exact zeros or >= the threshold, inside the bounds, no value in
# a gap) is claimed for each of them, not only for the defaults `from_variable` / `for_precipitation` fill in.  Per run every
# listed value of every option is met at least once per debiaser family (values are cycled with the running number of the case,
# offsets drawn once per run).  Not listed: settings that turn the debiaser into one for another
# kind of variable (additive delta / detrending / trend for precipitation, other bounds, another distribution) and detrending =
# True of ISIMIP (excluded by the stated assumptions).
ECDF_METHODS = ["linear_interpolation", "step_function", "kernel_density"]
IECDF_METHODS = ["linear", "inverted_cdf", "averaged_inverted_cdf", "closest_observation", "interpolated_inverted_cdf", "hazen", "weibull",
                 "median_unbiased", "normal_unbiased"]
_QDM_OPTIONS = {"ecdf_method": ECDF_METHODS, "cdf_threshold": [None, 1e-3, 1e-6]}  # None: the documented default 1 / (window * years + 1)
_QM_OPTIONS = {"cdf_threshold": [1e-10, 1e-6, 1e-3], "detrending": ["multiplicative", "no_detrending"], "mapping_type": ["parametric", "nonparametric"]}
_SDM_OPTIONS = {"cdf_threshold": [1e-10, 1e-6, 1e-3]}
OPTION_SPACE = {
    "QuantileDeltaMapping": _QDM_OPTIONS, "QuantileDeltaMapping-forpr": _QDM_OPTIONS,
    "CDFt": {"iecdf_method": IECDF_METHODS, "ecdf_method": ECDF_METHODS},
    "QuantileMapping-hurdle": _QM_OPTIONS, "QuantileMapping-censored": _QM_OPTIONS, "QuantileMapping-fromvar": _QM_OPTIONS,
    "ScaledDistributionMapping": _SDM_OPTIONS, "ScaledDistributionMapping-forpr": _SDM_OPTIONS,
    "ISIMIP": {"ecdf_method": ECDF_METHODS, "iecdf_method": IECDF_METHODS, "mode_non_parametric_qm": ["normal", "isimipv3.0"],
               "nonparametric_qm": [True, False], "event_likelihood_adjustment": [False, True], "ks_test_for_goodness_of_cdf_fit": [True, False],
               "trend_transfer_only_for_values_within_threshold": [True, False],
               "bias_correct_frequencies_of_values_beyond_thresholds": [True, False]},
}


def gen_options_case(rng, name, var, mode, tier, k, offsets):
    """k = running number of the options case of this debiaser family in this run, offsets = one number per option drawn once per run.
    Option j of case k takes its value number ((k + offsets[j]) // stride_j) mod (number of values), stride_j = 1, 2, 4, 1, 2, 4, ...:
    any stride_j * len(values) consecutive cases of a family meet every value of option j (number 0 is the default), and options with
    different strides meet in every pairing."""
    case = gen_case(rng, name, var, mode, tier)
    monsoon = case.get("regime") == "monsoon"  # gen_case draws this regime for a quarter of the pr cases
    case["regime"] = "options/monsoon" if monsoon else "options"
    if tier == "quick":
        case["years"] = 5 if monsoon or (name == "ISIMIP" and mode == "nowin") else 3
    if var == "pr" and (mode == "win" or name == "ISIMIP"):  # keep most draws inside the quantifier (>= 20 wet values in every window / month)
        case["pdry"] = [round(min(p, 0.65), 3) for p in case["pdry"]]
    opts = {}
    for j, (key, values) in enumerate(OPTION_SPACE[name].items()):
        v = values[((k + offsets[j % len(offsets)]) // (1 << (j % 3))) % len(values)]
        if v is not None:
            opts[key] = v
    case["options"] = opts
    return case


def build_inputs(case, dates=None, data_seed=None):
    """dates / data_seed: a further grid cell of the same case — the same time axes, values from another seed"""
    nprs = np.random.RandomState(case["case_seed"] if data_seed is None else data_seed)
    n = 365 * case["years"] + nprs.randint(0, 40)
    y0 = 1960 + int(nprs.randint(0, 40))
    tO = dates_from(y0, n, int(nprs.randint(0, 200)))
    tH = dates_from(y0, n + int(nprs.randint(0, 30)), int(nprs.randint(0, 200)))
    nF = 365 * case["future_years"] + int(nprs.randint(0, 30)) if case.get("future_years") else n + int(nprs.randint(0, 30))
    tF = dates_from(y0 + 60, nF, int(nprs.randint(0, 200)))
    if case.get("whole_years"):  # 1 January .. 31 December, the future period starts in a leap year
        def span(y, k):
            return dates_from(y, (datetime.date(y + k, 1, 1) - datetime.date(y, 1, 1)).days)
        y0 = 1960 + 4 * int(nprs.randint(0, 8)) + int(nprs.randint(0, 4))
        tO, tH, tF = span(y0, case["years"]), span(y0, case["years"]), span(2040 + 4 * int(nprs.randint(0, 5)), case["years"])
        if case.get("lookup_path"):  # obs without a leap day: the sets of days of year differ (step 1 takes the lookup path)
            tO = span(1961 + 4 * int(nprs.randint(0, 8)), 3)
    if case.get("dates_from_1950"):  # the axes the library infers when no time arrays are passed: consecutive days from 1950-01-01
        tO, tH, tF = dates_from(1950, tO.size), dates_from(1950, tH.size), dates_from(1950, tF.size)
    if case.get("slices"):  # 'time-slices' cases: a time axis made of non-adjacent periods [[first year, days, offset in days], ...]
        def sliced(spec):
            return np.concatenate([dates_from(int(y), int(nd), int(off)) for y, nd, off in spec])
        sl = case["slices"]
        tF = sliced(sl["cm_future"])
        tO = sliced(sl["obs"]) if sl.get("obs") else tO
        tH = sliced(sl["cm_hist"]) if sl.get("cm_hist") else tH
    if dates is not None:
        tO, tH, tF = dates
    var = case["variable"]
    if var == "pr":
        series = [gen_pr(nprs, t.size, case["pdry"][k], case["shape"][k], case["scale"][k], case["drizzle"], case["at_threshold"],
                         case.get("wet_floor", 0.0))
                  for k, t in enumerate((tO, tH, tF))]
        if case.get("unit_factor"):  # the same amounts in another unit (86400: mm/day instead of kg m-2 s-1)
            series = [x * float(case["unit_factor"]) for x in series]
    else:
        series = [gen_var(nprs, var, t, case["bias"][k], polar=bool(case.get("polar"))) for k, t in enumerate((tO, tH, tF))]
        if case.get("nan_fraction"):
            for x in series:
                x[nprs.random_sample(x.size) < case["nan_fraction"]] = np.nan
    if case.get("whole_years"):  # a model value on 31 December that is valid input but not a valid output
        dec31 = np.array([d.month == 12 and d.day == 31 for d in tF])
        if var == "pr":
            series[2][dec31] = nprs.uniform(1e-8, 4e-7, int(dec31.sum()))
        elif var in ("sfcwind", "tasrange"):
            series[2][dec31] = 0.004
        elif var == "hurs":
            series[2][dec31] = 99.995
    return series, (tO, tH, tF)


def inside_quantifier(deb, case, series, dates, info):
    """the quantifier's guard on one location: enough wet (pr) / in-threshold (bounded ISIMIP variable) values in every window"""
    o, h, f = series
    tO, tH, tF = dates
    name, var, mode = case["debiaser"], case["variable"], case["mode"]
    if var == "pr":
        thr = max([THR_ISIMIP, THR_QDM] + [float(getattr(deb, a)) for a in ("lower_threshold", "censoring_threshold", "pr_lower_threshold")
                                           if hasattr(deb, a)])
        info["min_wet_per_window"] = min(info.get("min_wet_per_window", 10**9), min_wet_per_window(deb, mode, [(o, tO), (h, tH), (f, tF)], thr))
        if info["min_wet_per_window"] < MIN_WET:
            return False  # not enough wet values in some window: outside the quantifier
    elif name == "ISIMIP" and var not in ("rsds",):
        lt, ut = float(deb.lower_threshold), float(deb.upper_threshold)
        ind = [np.where((x > lt) & (x < ut), 1.0, 0.0) for x in (o, h, f)]
        info["min_between_per_window"] = min(info.get("min_between_per_window", 10**9),
                                             min_wet_per_window(deb, mode, [(ind[0], tO), (ind[1], tH), (ind[2], tF)], 0.5))
        if info["min_between_per_window"] < MIN_WET:
            return False
    return True


def judge(deb, case, series, dates, np_seed, info):
    """one apply of `deb` on the inputs, judged against the settings `deb` has NOW -> (status, problems)"""
    o, h, f = series
    tO, tH, tF = dates
    name, var, mode = case["debiaser"], case["variable"], case["mode"]
    if not inside_quantifier(deb, case, series, dates, info):
        return "outside", []
    out, exc, msgs = run_real(deb, o, h, f, tO, tH, tF, np_seed)
    info["n_out"] = None if out is None else int(out.size)
    if exc is not None:
        info["exception"] = exc
        return "exception", []
    if any("no pseudo-future observations" in m for m in msgs) and var != "rsds":
        info["unadjusted_path"] = True  # `Wet` fails in some window: the property does not speak about this run
        return "outside", []
    bad = check_pr(name, deb, out, series) if var == "pr" else []
    if name == "ISIMIP":
        bad += check_isimip(deb, var, out)
    info["zeros"] = int((out == 0).sum())
    info["at_lower_bound"] = int((out == float(getattr(deb, "lower_bound", 0.0))).sum()) if name == "ISIMIP" else None
    info["at_upper_bound"] = int((out == float(deb.upper_bound)).sum()) if name == "ISIMIP" else None
    problems = []
    for kind, msg, idx in bad:
        day = f", date {tF[idx]}" if name != "DeltaChange" and idx < tF.size else ""
        opts = "".join(f", {a}={v!r}" for a, v in (case.get("options") or {}).items())
        problems.append((kind, f"{name}[{var}, {mode}{opts}]: {msg}; first at index {idx}{day} (input cm_future {f[min(idx, f.size - 1)]!r})"))
    return "ok", problems


def add_low_quantile_probes(deb, series, nprs, n_probes):
    """model values at the extreme low wet quantiles: cm_future values x (on wet days) that the debiaser's own, public
    distribution model (`distribution.fit` / `.cdf`) sends to the wet quantiles 1e-13 .. 1e-2 of the obs distribution, i.e.
    cdf_hist(x / delta) = p0_obs + (1 - p0_obs) * eps with delta = mean(cm_future) / mean(cm_hist) (the multiplicative
    detrending of QuantileMapping).  Valid non-negative input; returns the number of probes placed."""
    o, h, f = series
    dist = deb.distribution
    with warnings.catch_warnings(), np.errstate(all="ignore"):
        warnings.simplefilter("ignore")
        try:
            fo, fh = dist.fit(o), dist.fit(h)
            p0o = float(fo[0])

            def cdf(x):
                return float(np.asarray(dist.cdf(np.array([x]), *fh)).ravel()[0])

            lo0, hi0 = float(h[h > 0].min()) * 1e-6, float(h.max())
            xs = []
            for eps in np.geomspace(1e-13, 1e-2, n_probes):
                q = p0o + (1 - p0o) * eps
                if not (cdf(lo0) < q < cdf(hi0)):
                    continue
                lo, hi = lo0, hi0
                for _ in range(200):
                    mid = 0.5 * (lo + hi)
                    if cdf(mid) < q:
                        lo = mid
                    else:
                        hi = mid
                xs.append(hi)
        except Exception:  # noqa: BLE001  (a model without fit / cdf of this shape: no probes)
            return 0
    wet = np.where(f > 0)[0]
    if not xs or wet.size < 4 * len(xs):
        return 0
    pos = nprs.choice(wet, size=len(xs), replace=False)
    for _ in range(6):
        f[pos] = np.array(xs) * (f.mean() / h.mean())
    return len(xs)


def run_case(case):
    """-> (status, problems, info); status in ok | outside | exception"""
    if case.get("grid"):
        return run_grid_case(case)
    series, dates = build_inputs(case)
    name, var, mode = case["debiaser"], case["variable"], case["mode"]
    info = {}
    try:
        deb = make_debiaser(name, mode, var, fast=case.get("fast_windows", True), delta_shift=case.get("delta_shift", "additive"),
                            year_windows=case.get("year_windows"), parametric=bool(case.get("parametric")),
                            default_windows=bool(case.get("default_windows")), options=case.get("options"))
    except Exception as ex:  # noqa: BLE001  (a documented setting the constructor no longer accepts: reported like a raise of apply_location)
        info["exception"] = f"constructor: {type(ex).__name__}: {str(ex)[:120]}"
        return "exception", [], info
    seed = case["case_seed"] % (2**31 - 1)
    if case.get("probes") and var == "pr" and hasattr(getattr(deb, "distribution", None), "fit"):
        info["low_quantile_probes"] = add_low_quantile_probes(deb, series, np.random.RandomState(seed), case["probes"])
    status, problems = judge(deb, case, series, dates, seed, info)
    if status != "ok" or problems:
        return status, problems, info
    # the same object again after its public attributes were re-assigned: the new settings must be honoured
    for k, step in enumerate(case.get("sequence") or []):
        assign(deb, step)
        info2 = {}
        st2, pr2 = judge(deb, case, series, dates, seed + 1 + k, info2)
        info[f"after_step_{k + 1}"] = {"assigned": step, "status": st2, **info2}
        if st2 != "ok":
            break  # the re-assigned settings put the data outside the quantifier (or the code raised): nothing to judge
        if pr2:
            what = ", ".join(f"{a} = {v!r}" for a, v in step.items())
            return "ok", [(kd, f"after apply, then re-assigning {what} on the same object, then apply again: {msg}") for kd, msg in pr2], info
    return "ok", [], info


def replay(data):
    case = data.get("failing_input")
    if not case or "case_seed" not in case:
        print("replay: no failing input recorded (a proof obligation / correspondence broke)")
        return 2
    status, problems, info = run_case(case)
    for kind, p in problems:
        print("VIOLATION-REPLAYED:", p)
    print("replay:", status, info)
    return 1 if problems else 0


# ------------------------------------------------------------------ the public grid entry point `apply`
# The statement speaks about "the output" of each debiaser; the quantifier ranges over inputs AND configurations.  What a user
# receives is what the PUBLIC entry point `Debiaser.apply(obs, cm_hist, cm_future, ...)` returns for a (time, x, y) grid, so the
# oracle also drives that entry point the ways a user legitimately can and judges EVERY cell of the returned array with the same
# exact comparisons as a single location.  Covered dimensions of "for all inputs / configurations" (each met several times per run):
#   grid shape      wide (more columns than rows), tall, square, single row / column / cell
#   dispatch        serial (with and without progress bar) and parallel=True with 1, 2, 3, 5 or the default number of processes
#   failsafe        off and on (a cell that comes back NaN under failsafe is a NaN in the output all the same)
#   time encoding   python date / datetime, numpy datetime64[D|h|s|ns], a date type without .timetuple, and no time arrays at all
#   memory layout   C, Fortran, stored [x,y,t] / [y,x,t] and moved to time-first, strided views; masked arrays without masked cells
#   construction    keyword arguments, attributes assigned after construction, a pickled copy, a deep copy
GRID_SHAPES = {"wide": [(1, 2), (1, 3), (2, 3), (1, 4), (2, 4), (2, 5), (3, 4)], "tall": [(2, 1), (3, 1), (3, 2), (4, 1), (4, 2), (5, 2), (4, 3)],
               "square": [(1, 1), (2, 2), (2, 2), (3, 3)]}
GRID_TIMES = ("date", "M8D", "datetime", "M8ns", "none", "plain", "M8s", "M8h")
GRID_CONSTRUCT = ("kwargs", "kwargs", "assign-after", "pickled", "deepcopy")
WINDOW_ATTRS = ("running_window_mode", "running_window_length", "running_window_step_length", "running_window_mode_over_years_of_cm_future")
GRID_CHEAP = ("LinearScaling", "DeltaChange")
R7_TAGS = ("zero-threshold", "time-slices")


def gen_grid_case(rng, name, var, mode, tier, k, offsets):
    """k = running number of the grid case in this run: orientation, dispatch, failsafe and time encoding are cycled (offsets
    drawn once per run) so that every run meets each of them with every other one; the rest is drawn"""
    case = gen_case(rng, name, var, mode, tier)
    case["years"] = 3 if tier == "quick" else rng.choice([3, 4])
    case["fast_windows"] = True
    if var == "pr":  # well inside the quantifier in every cell
        case["pdry"] = [round(min(p, 0.6), 3) for p in case["pdry"]]
        if case.get("regime") == "monsoon":
            case["years"] = 4
    max_cells = (12 if name in GRID_CHEAP else 6) if tier != "quick" else (8 if name in GRID_CHEAP else 4)
    orient = ("wide", "tall", "square")[(k // 2 + offsets[0]) % 3]
    shape = rng.choice([sh for sh in GRID_SHAPES[orient] if sh[0] * sh[1] <= max_cells])
    parallel = (k + offsets[1]) % 2 == 0
    time_kind = GRID_TIMES[(k + offsets[2]) % len(GRID_TIMES)]
    from harness import gridprobes as G

    case["grid"] = {"shape": list(shape), "dispatch": "parallel" if parallel else "serial",
                    "nr_processes": rng.choice([1, 2, 2, 3, 5, None]) if parallel else None,
                    "failsafe": ((k + 1) // 2 + offsets[3]) % 2 == 1, "progressbar": (not parallel) and rng.random() < 0.3,
                    "time": time_kind, "layouts": [rng.choice(G.LAYOUTS) for _ in range(3)],
                    "container": rng.choice(["ndarray", "ndarray", "ndarray", "masked"]), "construct": rng.choice(GRID_CONSTRUCT),
                    "cell_seeds": [rng.randint(0, 2**31 - 2) for _ in range(shape[0] * shape[1])]}
    if time_kind == "none":
        case["dates_from_1950"] = True
    return case


def build_grid_inputs(case):
    """-> ([obs, cm_hist, cm_future] as (t, x, y) float64 arrays, (tO, tH, tF), per-cell series)"""
    nx, ny = case["grid"]["shape"]
    _, dates = build_inputs(case)
    cells = [build_inputs(case, dates=dates, data_seed=sd)[0] for sd in case["grid"]["cell_seeds"]]
    arrs = [np.stack([c[k] for c in cells], axis=1).reshape(dates[k].size, nx, ny) for k in range(3)]
    return arrs, dates, cells


def grid_debiasers(case):
    """-> (the debiaser handed to apply, built the way the case says; factory of plainly built twins for guards / references)"""
    import copy
    import pickle

    name, var, mode = case["debiaser"], case["variable"], case["mode"]

    def mk(m=mode):
        return make_debiaser(name, m, var, fast=case.get("fast_windows", True), delta_shift=case.get("delta_shift", "additive"),
                             year_windows=case.get("year_windows"), parametric=bool(case.get("parametric")))

    how = case["grid"]["construct"]
    deb = mk()
    if how == "assign-after":  # built with the other window settings, the wanted ones assigned as attributes afterwards
        plain, deb = deb, mk("nowin" if mode == "win" else "win")
        for a in WINDOW_ATTRS:
            if hasattr(plain, a):
                setattr(deb, a, getattr(plain, a))
    elif how == "pickled":
        deb = pickle.loads(pickle.dumps(deb))
    elif how == "deepcopy":
        deb = copy.deepcopy(deb)
    return deb, mk


def grid_label(case):
    g = case["grid"]
    disp = f"parallel=True, nr_processes={g['nr_processes'] if g['nr_processes'] is not None else 'default'}" if g["dispatch"] == "parallel" \
        else f"serial, progressbar={g['progressbar']}"
    return (f"{case['debiaser']}[{case['variable']}, {case['mode']}].apply on a {g['shape'][0]} x {g['shape'][1]} grid ({disp}, failsafe={g['failsafe']}, "
            f"time arrays: {g['time']}, layouts {'/'.join(g['layouts'])}, {g['container']}, debiaser built by {g['construct']})")


def call_apply(deb, case, arrs, dates, np_seed):
    """the real `apply` -> (array | None, 'ExceptionClass: text' | None, log messages of this process)"""
    import contextlib
    import os

    from harness import gridprobes as G
    from harness import probes as P

    g = case["grid"]
    args = [G.relayout(a, lay) for a, lay in zip(arrs, g["layouts"])]
    if g["container"] == "masked":
        args = [np.ma.masked_array(a) for a in args]
    kw = {} if g["time"] == "none" else {key: P.present(t, g["time"]) for key, t in zip(("time_obs", "time_cm_hist", "time_cm_future"), dates)}
    if g["nr_processes"] is not None:
        kw["nr_processes"] = g["nr_processes"]
    lg = logging.getLogger("ibicus")
    cap = Capture()
    old_level, old_prop = lg.level, lg.propagate
    lg.addHandler(cap)
    lg.setLevel(logging.WARNING)
    lg.propagate = False
    try:
        with warnings.catch_warnings(), np.errstate(all="ignore"), open(os.devnull, "w") as devnull, contextlib.redirect_stderr(devnull):
            warnings.simplefilter("ignore")
            np.random.seed(np_seed)
            try:
                out = deb.apply(*args, progressbar=g["progressbar"], parallel=(g["dispatch"] == "parallel"), failsafe=g["failsafe"], **kw)
                return out, None, cap.msgs
            except Exception as ex:  # noqa: BLE001
                return None, f"{type(ex).__name__}: {str(ex)[:120]}", cap.msgs
    finally:
        lg.removeHandler(cap)
        lg.setLevel(old_level)
        lg.propagate = old_prop


def cell_alone(mk, series, dates, np_seed):
    """one cell on its own through apply_location on a plainly built instance -> (None | 'unadjusted' | 'exception: ...', output)
    (decides whether a suspicious cell of a grid run is inside the quantifier: log messages of pool workers do not reach this process)"""
    out = None
    for s in (np_seed, np_seed + 1):
        out, exc, msgs = run_real(mk(), *series, *dates, s)
        if exc is not None:
            return "exception: " + exc, None
        if any("no pseudo-future observations" in m for m in msgs):
            return "unadjusted", out
    return None, out


def run_grid_case(case):
    """-> (status, problems, info) like run_case"""
    g = case["grid"]
    name, var = case["debiaser"], case["variable"]
    nx, ny = g["shape"]
    arrs, dates, cells = build_grid_inputs(case)
    deb, mk = grid_debiasers(case)
    plain = mk()
    info = {"cells": nx * ny}
    for series in cells:
        if not inside_quantifier(plain, case, series, dates, info):
            return "outside", [], info
    seed = case["case_seed"] % (2**31 - 1)
    out, exc, msgs = call_apply(deb, case, arrs, dates, seed)
    label = grid_label(case)
    if exc is not None:
        alone = [cell_alone(mk, series, dates, seed)[0] for series in cells]
        if any(a and a.startswith("exception") for a in alone):  # the data, not the dispatch: as for a single location
            info["exception"] = exc + " (a cell on its own: " + next(a for a in alone if a and a.startswith("exception")) + ")"
            return "exception", [], info
        return "ok", [("grid-exception", f"{label} raised {exc}, although apply_location returns a result for each of the {nx * ny} cells on its own: "
                       "no output at all for a valid input")], info
    if any("no pseudo-future observations" in m for m in msgs) and var != "rsds":
        info["unadjusted_path"] = True
        return "outside", [], info
    want = (arrs[0] if name == "DeltaChange" else arrs[2]).shape
    info["n_out"] = int(np.size(out))
    if not isinstance(out, np.ndarray) or out.shape != want:
        return "ok", [("grid-shape", f"{label} returned {type(out).__name__} of shape {getattr(out, 'shape', None)}, expected an array of shape {want}")], info
    outf = np.asarray(out, dtype=float)
    info["zeros"] = int((outf == 0).sum())
    info["at_lower_bound"] = int((outf == float(getattr(plain, "lower_bound", 0.0))).sum()) if name == "ISIMIP" else None
    info["at_upper_bound"] = int((outf == float(plain.upper_bound)).sum()) if name == "ISIMIP" else None
    problems, tF, skipped = [], dates[2], 0
    for c, series in enumerate(cells):
        i, j = divmod(c, ny)
        col = outf[:, i, j]
        bad = check_pr(name, plain, col, series) if var == "pr" else []
        if name == "ISIMIP":
            bad += check_isimip(plain, var, col)
        if not bad:
            continue
        alone, out1 = cell_alone(mk, series, dates, seed)
        if alone == "unadjusted":
            skipped += 1
            continue
        if alone is not None:
            info["exception"] = f"cell ({i}, {j}) on its own: {alone}"
            return "exception", [], info
        never = " (the whole cell is NaN: never computed / never written)" if np.isnan(col).all() else ""
        bad1 = (check_pr(name, plain, out1, series) if var == "pr" else []) + (check_isimip(plain, var, out1) if name == "ISIMIP" else [])
        ref = "apply_location on this cell alone " + ("violates the statement as well" if bad1 else "returns a result inside the statement's range")
        for kind, msg, idx in bad:
            day = f", date {tF[idx]}" if name != "DeltaChange" and idx < tF.size else ""
            problems.append((kind, f"{label}: cell ({i}, {j}){never}: {msg}; first at index {idx}{day} "
                                   f"(input cm_future {series[2][min(idx, series[2].size - 1)]!r}); {ref}"))
    info["cells_outside_quantifier"] = skipped
    return "ok", problems, info


# ------------------------------------------------------------------ tier B for Model.IsimipSession (apply - assign - apply)
SESSION_CONFIGS = ["pr_mult", "pr_mixed", "pr_v30", "pr_rice", "skew_param", "skew_param_v30", "hurs_param_freq", "skew_npqm"]


def session_correspondence(rng, n, tier, res):
    """real apply - assign - apply sequences on ONE ISIMIP object (rational test-double family) against the session model:
    `assigncfg` (the model's settings after the re-assignments = the object's attributes, compared exactly) and `window`
    at those settings (= what the real object returns at that apply)."""
    from harness import isimip_corr as IC
    from harness import isimip_family

    def b(x):
        return "_" if x is None else x

    exps, hist, mismatches = [], __import__("collections").Counter(), []
    for k in range(n):
        name = SESSION_CONFIGS[k % len(SESSION_CONFIGS)]
        spec = IC.CONFIGS[name]
        deb = IC.make_debiaser(name)
        tok0 = IC.cfg_token(deb)
        series, ys = IC.gen_case(rng, spec, tier)
        blocks = []
        for step in range(3):
            seed = rng.randint(0, 2**31 - 2)
            case = {"config": name, "k": k, "apply": step + 1, "assigned": list(blocks), "sizes": [int(x.size) for x in series], "np_seed": seed}
            exps.append(("assigncfg", f"assigncfg {tok0} {'|'.join(blocks) if blocks else '-'}", "ok " + IC.cfg_token(deb), case))
            exps.append(("window", IC.build_case(deb, name, [x.copy() for x in series], ys, seed, case)[0], None, case))
            # re-assign public attributes of the same object (dyadic values; data stay inside the bounds)
            lt = ut = npqm = rice = None
            if spec["kind"] == "lower":
                lt = rng.choice([1 / 16, 1 / 4, 1 / 2, 1.0])
            else:
                top = 100.0 if spec["kind"] == "hurs" else 1.0
                lt, ut = rng.choice([1 / 32, 1 / 8, 1 / 4]) * top, rng.choice([3 / 4, 7 / 8, 31 / 32]) * top
            if rng.random() < 0.4:
                npqm = not deb.nonparametric_qm
            if rng.random() < 0.4:
                rice = rng.random() < 0.5
            if lt is not None:
                deb.lower_threshold = float(lt)
            if ut is not None:
                deb.upper_threshold = float(ut)
            if npqm is not None:
                deb.nonparametric_qm = bool(npqm)
            if rice is not None:
                deb.distribution = isimip_family.rice_typed() if rice else isimip_family.IsiRatSigmoid()
            blocks.append(",".join(["_", b(None if lt is None else IC.ext(lt)), "_", b(None if ut is None else IC.ext(ut)),
                                    b(None if npqm is None else IC.b01(npqm)), b(None if rice is None else IC.b01(rice))]))
    lines = [e[1] if e[0] == "assigncfg" else e[1].line for e in exps]
    try:
        out = C.run_driver("DrvIsimip", lines)
    except C.DriverError as ex:
        return [{"op": "driver", "detail": str(ex)[:400]}]
    ties = 0
    for (op, payload, want, case), got in zip(exps, out):
        res.cov["traces_validated_against_impl"] += 1
        if op == "assigncfg":
            if got != want:
                mismatches.append({"op": op, "case": case, "detail": f"settings after re-assignment: impl {want[:200]} model {got[:200]}"})
            continue
        status, detail = IC.compare(payload, got, hist)
        res.count(("session", case["config"], case["apply"], tuple(case["assigned"])), case["apply"] > 1)
        if status == "tie":
            ties += 1
        elif status == "mismatch":
            mismatches.append({"op": f"window (apply {case['apply']} of a session)", "case": case, "detail": detail[:400]})
    res.extra["ties_accepted"] = res.extra.get("ties_accepted", 0) + ties
    res.extra["session_corr"] = {"sessions": n, "applies": 3 * n, "branches": dict(hist), "mismatches": len(mismatches)}
    return mismatches


# ------------------------------------------------------------------ the check
def run(tier, res, force_search=False):
    from harness import debiasers_corr as DC
    from harness import isimip_corr as IC

    t0 = time.time()
    rng = random.Random(C.seed() * 1000003 + 10)
    res.rule = ("oracle cases = (debiaser, variable, windows on/off, dry fractions / biases, seed) from one PRNG (VERIF_SEED); a case is "
                "counted when its input is inside the quantifier (>= 20 wet / in-threshold values in every window, no 'left unadjusted' "
                "path); non-trivial when the output contains both exact bound values (zeros) and non-bound values; distinct = distinct "
                "(debiaser, variable, mode, rounded dry fractions or biases). Correspondence cases are counted by the shared modules.")
    res.trusted = C.BASE_TRUSTED + [
        "distribution families: the range law of step 6 (fit with floc[/fscale] fixed has support [floc, inf) resp. [floc, floc+fscale]), "
        "non-negativity / positivity of ppf on (0,1) for gamma with floc=0 are oracle laws for scipy (proved for the rational witnesses "
        "uniformFam, ratOdds, ratFam; the driver's test double ratSigmoid does not have the range law)",
        "Model.Precip (hurdle / censored ppf) is tied to the code by the C17 check; here its ppf formulas are used as definitions",
        "oracles recorded from the real run by isimip_corr (draws, linregress / KS decisions, cos/logit/expit tables)",
        "tier A Gen.IsimipVars: isimip3_general_settings / isimip3_variable_settings are read from the AST of _isimip_options.py; that from_variable merges them as {**general, **variable} and passes them as attributes is the C15 check's statement",
        "Model.IsimipSession (apply - assign - apply) is tied by real sequences on one object with the rational test-double family: driver op assigncfg (settings = the object's attributes, exact) + op window at those settings; caches, attribute hooks and object identity themselves are runtime facts decided by that correspondence and by the oracle's sequences",
        "the concrete runs in Props/C10.lean marked #guard are evaluated with the compiled model (#guard), not kernel-checked: List.mergeSort does not reduce in the kernel",
    ]
    res.assumptions = [
        "inputs finite, non-negative / inside [lb, ub]; every window has >= 20 values strictly between the thresholds (pr: wet values) in obs, cm_hist, cm_future",
        "ISIMIP: detrending = False (all bounded variables), lb <= lower_threshold <= upper_threshold <= ub, pseudo-future observations between thresholds exist (Wet)",
        "an interval with an infinite bound is half-open there: a non-finite output counts as outside the bounds",
        "float rounding is not modelled; the oracle compares the real outputs with the bound / threshold constants exactly",
        "instance reuse: in apply - assign - apply sequences every apply is judged against the public settings the object has at that apply",
        "ISIMIP's default window configuration (31 / 1) is run over whole calendar years incl. leap years; a never-assigned day (NaN under the hook) is a failing input",
        "grid cases: the public `apply` on small (t, x, y) grids (wide / tall / square; serial and parallel; failsafe off and on; every accepted time "
        "encoding or none; C / F / transposed-storage / strided layouts, mask-free masked arrays; debiaser built by keywords, by attribute assignment, "
        "as a pickled or deep copy); every cell of the returned array is judged like a single location, a cell never written (NaN under the hook) or an "
        "exception of `apply` on a grid whose cells all work on their own is a failing input; cells the 'left unadjusted' path touches are skipped",
        "configurations: besides the defaults, the documented calculation settings listed in OPTION_SPACE (ecdf_method, iecdf_method, cdf_threshold, "
        "detrending multiplicative / none, mapping_type, mode_non_parametric_qm, nonparametric_qm, event_likelihood_adjustment, ks_test_for_goodness_of_cdf_fit, "
        "trend_transfer_only_for_values_within_threshold, bias_correct_frequencies_of_values_beyond_thresholds) are judged with the same comparisons; settings that "
        "make the debiaser one for another kind of variable (additive delta / detrending for pr, other bounds or distributions) are not generated",
        "'zero-threshold' cases: ISIMIP with lower_threshold = lower_bound = 0 (spelled 0.0 / 0 / -0.0; pr in kg m-2 s-1 and in mm/day, sfcwind, tasrange, and hurs / "
        "prsnratio / tasskew with the parametric step 6) is a configuration inside lb <= lower_threshold and is judged with the same comparisons",
        "'time-slices' cases: time axes made of two or three non-adjacent periods (cm_future always, obs / cm_hist sometimes), CDFt / QDM with year windows of "
        "length 5 / 9 / 17 moved by 3 / 5 / 9 years; every time step of the axis is output (a step never written = NaN under the hook is a failing input)",
    ]
    lean_ok = C.lean_phase(res, PROP, GEN, TARGETS)
    res.extra["t_lean_s"] = round(time.time() - t0, 1)

    # ---- tier B: the shared correspondences, restricted to the property's configurations
    mismatches = []
    t1 = time.time()
    try:
        n_deb = 10 if tier == "quick" else 160
        mm = DC.correspondence(rng, n_deb, tier, res, families=[x for x in DEB_CORR_FAMILIES if x != "CDFt"])
        first_part = res.extra.pop("debiasers_corr", None)
        mm += DC.correspondence(rng, 3 * n_deb, tier, res, families=["CDFt"])  # many configurations (shift x ecdf/iecdf pair x SSR)
        res.extra["debiasers_corr_other_families"] = first_part
        if mm:
            res.tie_broken.append(f"correspondence DrvDebiasers: {len(mm)} mismatches, first: {str(mm[0])[:700]}")
            mismatches += [{k: (str(v)[:400]) for k, v in m.items()} for m in mm[:3]]
        n_isi = 48 if tier == "quick" else 800
        mi = IC.correspondence(rng, n_isi, tier, res, configs=ISIMIP_CORR_CONFIGS)
        mi += IC.correspondence_aux(rng, 6 if tier == "quick" else 60, tier, res)
        ms = session_correspondence(rng, 8 if tier == "quick" else 80, tier, res)
        if ms:
            res.tie_broken.append(f"correspondence DrvIsimip / Model.IsimipSession (apply - assign - apply): {len(ms)} mismatches, first: {str(ms[0])[:700]}")
            mismatches += ms[:3]
        if mi:
            res.tie_broken.append(f"correspondence DrvIsimip: {len(mi)} mismatches, first: {str({k: v for k, v in mi[0].items() if k != 'line'})[:700]}")
            mismatches += [{k: (str(v)[:400]) for k, v in m.items() if k != "line"} for m in mi[:3]]
    except Exception as ex:  # noqa: BLE001
        res.tie_broken.append(f"correspondence could not run: {type(ex).__name__}: {str(ex)[:300]}")
    res.extra["t_correspondence_s"] = round(time.time() - t1, 1)
    n_corr = res.cov["evaluations"]

    # ---- the property's oracle on the real code (real scipy families)
    t2 = time.time()
    reps = 3 if tier == "quick" else 9
    if force_search or not lean_ok or res.tie_broken:
        reps *= 3
    plan = []
    GRID_ROT = ("QuantileMapping-hurdle", "CDFt", "QuantileDeltaMapping", "ScaledDistributionMapping", "QuantileMapping-censored",
                "QuantileDeltaMapping-forpr", "ScaledDistributionMapping-forpr", "QuantileMapping-fromvar")
    for r in range(reps):
        # the public grid entry point `apply` (serial / parallel, failsafe, time encodings, layouts, construction order); first in the
        # repetition so that the time budget never drops them
        plan += [(GRID_CHEAP[r % 2], "pr", ("win", "nowin")[(r // 2) % 2], "grid"), (GRID_ROT[r % len(GRID_ROT)], "pr", ("nowin", "win")[r % 2], "grid"),
                 (GRID_ROT[(r + 4) % len(GRID_ROT)], "pr", ("win", "nowin")[r % 2], "grid"),
                 ("ISIMIP", "pr", ("win", "nowin")[r % 2], "grid"), ("ISIMIP", ISIMIP_VARS[r % len(ISIMIP_VARS)], ("nowin", "win")[r % 2], "grid")]
        # documented non-default settings (quantifier: "configurations"): window-free cases are cheap, so every repetition has several per
        # family; one running-window case per repetition for QuantileDeltaMapping and one for another family in turn; every ISIMIP variable
        plan += [(("QuantileDeltaMapping", "QuantileDeltaMapping-forpr")[(r + i) % 2], "pr", "nowin", "options") for i in range(3)]
        plan += [(("QuantileDeltaMapping-forpr", "QuantileDeltaMapping")[r % 2], "pr", "win", "options")]
        plan += [("CDFt", "pr", "nowin", "options")] * 3
        plan += [(nm, "pr", "nowin", "options") for nm in ("QuantileMapping-hurdle", "QuantileMapping-censored", "QuantileMapping-fromvar",
                                                          "ScaledDistributionMapping", "ScaledDistributionMapping-forpr")]
        plan += [(("CDFt", ("QuantileMapping-hurdle", "QuantileMapping-censored", "QuantileMapping-fromvar")[(r // 3) % 3],
                   ("ScaledDistributionMapping", "ScaledDistributionMapping-forpr")[(r // 3) % 2])[r % 3], "pr", "win", "options")]
        plan += [("ISIMIP", v, ("win", "nowin")[(r + i) % 2], "options") for i, v in enumerate(["pr"] + ISIMIP_VARS)]
        for name in PR_DEBIASERS:
            for mode in ("win", "nowin"):
                plan.append((name, "pr", mode))
        for var in ISIMIP_VARS:
            for mode in ("win", "nowin"):
                plan.append(("ISIMIP", var, mode))
        plan += [("CDFt", "pr", "nowin", "long"), ("CDFt", "pr", "win", "long"), ("QuantileDeltaMapping", "pr", "nowin", "long"),
                 ("QuantileDeltaMapping", "pr", "win", "long")]
        # every for_precipitation constructor the property covers, next to from_variable("pr"); monsoon-type samples
        plan += [("ScaledDistributionMapping-forpr", "pr", "nowin", "monsoon")] * 4
        plan += [("ScaledDistributionMapping-forpr", "pr", "win", "monsoon"), ("ScaledDistributionMapping", "pr", "nowin", "monsoon"),
                 ("QuantileMapping-fromvar", "pr", "nowin", None), ("QuantileMapping-hurdle", "pr", "nowin", "monsoon"),
                 ("QuantileMapping-censored", "pr", "nowin", "monsoon"), ("QuantileDeltaMapping-forpr", "pr", ("win", "nowin")[r % 2], "monsoon")]
        # the default running-window configuration end to end over whole (leap) years; apply - assign - apply sequences
        if r == 0 or tier != "quick":
            plan += [("ISIMIP", "pr", "win", "default-windows"), ("ISIMIP", ("hurs", "sfcwind", "tasrange")[r % 3], "win", "default-windows")]
        plan += [("ISIMIP", "pr", ("nowin", "win")[r % 2], "sequence"), ("ISIMIP", ("sfcwind", "tasrange", "hurs", "tasskew")[r % 4], ("win", "nowin")[r % 2], "sequence"),
                 ("QuantileDeltaMapping", "pr", "nowin", "sequence"), ("ScaledDistributionMapping", "pr", "nowin", "sequence")]
        # bell-shaped wet amounts on every for_precipitation constructor of the statement (default keywords); polar rsds
        plan += [("QuantileMapping-hurdle", "pr", "nowin", "bell")] * 3
        plan += [("QuantileMapping-hurdle-norand", "pr", "nowin", "bell"), ("QuantileMapping-hurdle", "pr", "win", "bell"),
                 ("QuantileMapping-fromvar", "pr", "nowin", "bell"), ("QuantileMapping-censored", "pr", "nowin", "bell"),
                 ("ScaledDistributionMapping-forpr", "pr", "nowin", "bell"), ("QuantileDeltaMapping-forpr", "pr", "nowin", "bell")]
        plan += [("ISIMIP", "rsds", ("win", "nowin")[r % 2], "polar"), ("ISIMIP", "rsds", ("nowin", "win")[r % 2], "polar")]
        # doubly bounded variables with the parametric step 6 and near-bound data (rsds: only its own statement, >= 0)
        for j, var in enumerate(("hurs", "prsnratio", "tasskew")):
            plan.append(("ISIMIP", var, ("nowin", "win")[(r + j) % 2], "near-bound"))
        # a lower threshold equal to the lower bound 0 (pr in both units; the other variables in turn); time axes made of non-adjacent slices
        plan += [("ISIMIP", "pr", "nowin", "zero-threshold"), ("ISIMIP", "pr", ("win", "nowin")[r % 2], "zero-threshold"),
                 ("ISIMIP", ("sfcwind", "tasrange", "hurs", "tasskew", "prsnratio")[r % 5], ("nowin", "win")[r % 2], "zero-threshold")]
        plan += [("CDFt", "pr", ("nowin", "win")[r % 2], "time-slices"), ("QuantileDeltaMapping", "pr", ("win", "nowin")[r % 2], "time-slices"),
                 (("CDFt", "QuantileDeltaMapping-forpr")[r % 2], "pr", "nowin", "time-slices"),
                 (("ISIMIP", "ScaledDistributionMapping", "QuantileMapping-hurdle", "LinearScaling", "DeltaChange", "QuantileMapping-censored")[r % 6], "pr",
                  ("nowin", "win")[(r // 2) % 2], "time-slices")]
    problems_all, stats, oracle_samples = [], {}, []
    rng_grid = random.Random(C.seed() * 1000003 + 1010)  # its own stream: the single-location cases of a seed stay what they were
    n_grid, grid_offsets = 0, [rng_grid.randint(0, 23) for _ in range(4)]
    rng_opt = random.Random(C.seed() * 1000003 + 1011)  # the 'options' cases: again a stream of their own
    n_opt, opt_offsets = {}, [rng_opt.randint(0, 71) for _ in range(8)]
    budget_s = 100 if tier == "quick" else 520  # 75 / 450 before the 'options' cases (about 12 s in the quick tier), 90 / 480 before the 'zero-threshold' / 'time-slices' cases
    rng_r7 = random.Random(C.seed() * 1000003 + 1012)  # 'zero-threshold' / 'time-slices' cases: a stream of their own
    for k, (name, var, mode, *rest) in enumerate(plan):
        if time.time() - t2 > budget_s * (3 if (force_search or not lean_ok or res.tie_broken) else 1):
            res.notes.append(f"oracle stopped after {k} of {len(plan)} planned cases (time budget)")
            break
        tag = rest[0] if rest else None
        if tag == "grid":
            case = gen_grid_case(rng_grid, name, var, mode, tier, n_grid, grid_offsets)
            n_grid += 1
        elif tag == "options":
            fam = name.split("-")[0]
            case = gen_options_case(rng_opt, name, var, mode, tier, n_opt.get(fam, 0), opt_offsets)
            n_opt[fam] = n_opt.get(fam, 0) + 1
        elif tag in R7_TAGS:
            case = gen_case(rng_r7, name, var, mode, tier, regime=tag)
        else:
            case = gen_case(rng, name, var, mode, tier, long_future=(tag == "long"), regime=(tag if tag in ("monsoon", "near-bound", "default-windows", "sequence", "bell", "polar") else None))
        t_case = time.time()
        status, problems, info = run_case(case)
        if tag in R7_TAGS:
            res.extra["t_oracle_zero_threshold_time_slices_s"] = round(res.extra.get("t_oracle_zero_threshold_time_slices_s", 0.0) + time.time() - t_case, 1)
        if tag == "grid":
            res.extra["t_oracle_grid_apply_s"] = round(res.extra.get("t_oracle_grid_apply_s", 0.0) + time.time() - t_case, 1)
        key = f"{name}/{var}/{mode}" + (f"/{tag}" if tag else "")
        st = stats.setdefault(key, {"ok": 0, "outside": 0, "exception": 0, "violations": 0})
        for _ in range(2):  # an options case whose data fell outside the quantifier: the same settings on other data (the guard runs before the code)
            if tag != "options" or status != "outside":
                break
            st[status] += 1
            case = gen_options_case(rng_opt, name, var, mode, tier, n_opt[name.split("-")[0]] - 1, opt_offsets)
            status, problems, info = run_case(case)
        if tag == "options":
            res.extra["t_oracle_options_s"] = round(res.extra.get("t_oracle_options_s", 0.0) + time.time() - t_case, 1)
        st[status] += 1
        if status == "exception":
            res.notes.append(f"{key}: the real code raised on a valid input: {info.get('exception')} (case_seed {case['case_seed']})")
        if status == "ok":
            mixed = bool(info.get("zeros")) or bool(info.get("at_lower_bound")) or bool(info.get("at_upper_bound"))
            sig = tuple(round(x, 1) for x in case.get("pdry", case.get("bias", [])))
            res.count((name, var, mode, sig) + ((tuple(case["grid"]["shape"]), case["grid"]["dispatch"], case["grid"]["failsafe"], case["grid"]["time"])
                                                if case.get("grid") else ()) + (tuple(sorted(case["options"].items())) if case.get("options") else ()), mixed)
            for a, v in (case.get("options") or {}).items():
                opt_seen = res.extra.setdefault("oracle_option_values_met", {}).setdefault(name.split("-")[0], {}).setdefault(a, {})
                opt_seen[str(v)] = opt_seen.get(str(v), 0) + 1
            if k % 7 == 0 and len(oracle_samples) < 4:
                oracle_samples.append({**case, **info})
        for kind, p in problems:
            st["violations"] += 1
            problems_all.append((kind, p, case))
    res.extra["oracle"] = {"per_target": stats, "cases": sum(sum(v[s] for s in ("ok", "outside", "exception")) for v in stats.values()),
                           "inside_quantifier": sum(v["ok"] for v in stats.values()),
                           "outside_quantifier_skipped": sum(v["outside"] for v in stats.values()),
                           "exceptions_on_valid_input": sum(v["exception"] for v in stats.values())}
    res.cov["samples"] = oracle_samples + res.cov["samples"][: max(1, 6 - len(oracle_samples))]
    res.extra["correspondence_cases"] = n_corr
    res.extra["t_oracle_s"] = round(time.time() - t2, 1)

    # ---- verdict
    seen = set()
    for kind, p, case in problems_all:
        key = (kind, case["debiaser"], case["variable"])
        if key in seen:
            continue
        seen.add(key)
        res.violations.append((p, {"property": PROP, "failing_input": case, "problem": p,
                                   "signature": {"what": kind, "debiaser": case["debiaser"], "variable": case["variable"]}}))
    if res.tie_broken and not problems_all:
        res.violations.append(("proof obligation / correspondence no longer checks: " + "; ".join(res.tie_broken)[:700],
                               {"property": PROP, "failing_input": None, "broken": res.tie_broken, "mismatches": mismatches[:5]}))
    return res
