"""C07 — running windows adjust every time step exactly once, from a window containing it."""
import datetime
import random
import warnings

import numpy as np

from harness import common as C
from harness import probes

PROP = "C07"
TARGETS = ["IbicusModel.Props.C07", "IbicusModel.Props.Calendar", "IbicusModel.Props.CalendarAgree", "IbicusModel.Lemmas.GenLoops"]
GEN = ["Windows", "Loops"]
# calendar tier A: day_of_year / month / year / season / inferred dates / yearly means as data (translator/extract_calendar.py)
TARGETS += ["IbicusModel.Lemmas.GenCalendarFns"]
GEN += ["CalendarFns"]
TARGETS += ["IbicusModel.Props.Capstone2"]  # capstone 2: C07 stated on the composition of the regenerated pieces (loop spec ∘ per-window program / kernel / ISIMIP wiring); the audit imports it
GEN += ["Loops", "GridLoops", "DebWin", "Debiasers", "IsimipStep6"]  # the groups the capstone composes (lean_phase regenerates every transitively imported group anyway)


# ------------------------------------------------------------------ case generation
def gen_span(rng, tier):
    """a dated series: (start date, length) -> numpy array of python dates; several shapes of calendar span"""
    kind = rng.choice(["tiny", "subannual", "oneyear", "multiyear", "multiyear", "holes"])
    year = rng.randint(1950, 2100) if rng.random() > 0.12 else rng.choice(probes.CENTURY_YEARS) - rng.choice([0, 0, 1])
    start = datetime.date(year, 1, 1) + datetime.timedelta(days=rng.randint(0, 365))
    if kind == "tiny":
        n = rng.randint(1, 40)
    elif kind == "subannual":
        n = rng.randint(41, 364)
    elif kind == "oneyear":
        n = rng.randint(365, 420)
    else:
        n = rng.randint(421, 1500 if tier == "quick" else 4000)
    dates = np.array([start + datetime.timedelta(days=k) for k in range(n)], dtype=object)
    if kind == "holes":
        months = set(rng.sample(range(1, 13), rng.randint(1, 6)))
        keep = np.array([d.month in months for d in dates])
        if keep.sum() >= 1:
            dates = dates[keep]
    return kind, dates


def gen_LS(rng):
    S = rng.choice([1, 1, 2, 3, 4, 5, 7, 9, 10, 15, 30, 31, 32, 45, 61, 90, 91, 182, 365, 366, rng.randint(1, 120)])
    L = rng.choice([S, S, S + 1, S + rng.randint(0, 60), 31, 91, rng.randint(1, 200)])
    return L, S


# ------------------------------------------------------------------ the property's oracle on the real code
def real_cover_doy(L, S, doyF, doyO):
    """runs the real RunningWindowOverDaysOfYear; returns (normalised (L,S) | 'ValueError', centres,
    {c: adjust idx}, {c: window idx on F}, {c: window idx on O}, problems)"""
    from ibicus.utils import RunningWindowOverDaysOfYear

    with warnings.catch_warnings():
        warnings.simplefilter("ignore")
        try:
            w = RunningWindowOverDaysOfYear(window_length_in_days=L, window_step_length_in_days=S)
        except ValueError:
            return "ValueError", [], {}, {}, {}, []
    cover = np.zeros(doyF.size, dtype=int)
    centres, adj, winF, winO, problems = [], {}, {}, {}, []
    all_centres = [int(c) for c in w._get_window_centers(doyF)]
    for c, idx in w.use(doyF):
        c = int(c)
        centres.append(c)
        if idx.size == 0:
            problems.append(f"centre {c}: a window that adjusts nothing is processed")
        adj[c] = [int(i) for i in idx]
        wf = w.get_indices_vals_in_window(doyF, c)
        winF[c] = [int(i) for i in wf]
        winO[c] = [int(i) for i in w.get_indices_vals_in_window(doyO, c)]
        cover[idx] += 1
        if not np.isin(idx, wf).all():
            problems.append(f"centre {c}: adjusted steps outside the centre's own window")
    if (cover != 1).any():
        bad = np.where(cover != 1)[0]
        problems.append(f"{bad.size} time steps adjusted {sorted(set(cover[bad].tolist()))} times (first index {int(bad[0])}, doy {int(doyF[bad[0]])})")
    if len(set(centres)) != len(centres):
        problems.append("duplicate window centres")
    return (w.window_length_in_days, w.window_step_length_in_days), (all_centres, centres), adj, winF, winO, problems


def real_cover_years(L, S, years):
    from ibicus.utils import RunningWindowOverYears

    with warnings.catch_warnings():
        warnings.simplefilter("ignore")
        try:
            w = RunningWindowOverYears(window_length_in_years=L, window_step_length_in_years=S)
        except ValueError:
            return "ValueError", [], {}, {}, []
    cover = np.zeros(years.size, dtype=int)
    centres, adj, win, problems = [], {}, {}, []
    for ya, yw in w.use(years):
        c = int(round((int(ya[0]) + int(ya[-1])) / 2))
        centres.append(c)
        adj[c] = [int(y) for y in ya]
        win[c] = [int(y) for y in yw]
        m = np.isin(years, ya)
        cover += m
        if not np.isin(years[m], yw).all():
            problems.append(f"year centre {c}: adjusted years outside the window")
        if not m.any():
            problems.append(f"year centre {c}: adjusts no year present (empty window would be processed)")
    if (cover != 1).any():
        bad = np.where(cover != 1)[0]
        problems.append(f"{bad.size} steps adjusted !=1 times (first year {int(years[bad[0]])}: {int(cover[bad[0]])}x)")
    return (w.window_length_in_years, w.window_step_length_in_years), centres, adj, win, problems


def gen_years(rng):
    kind = rng.choice(["consecutive", "consecutive", "leap", "single", "random"])
    y0 = rng.randint(1900, 2100)
    if kind == "consecutive":
        ys = np.arange(y0, y0 + rng.randint(1, 80))
    elif kind == "leap":
        y0 -= y0 % 4
        ys = np.arange(y0, y0 + 4 * rng.randint(1, 30), 4)
        ys = ys[[not (y % 100 == 0 and y % 400 != 0) for y in ys]]
    elif kind == "single":
        ys = np.array([y0])
    else:
        ys = np.array(sorted(rng.sample(range(y0, y0 + 60), rng.randint(1, 25))))
    reps = rng.randint(1, 3)
    years = np.repeat(ys, reps)
    if rng.random() < 0.3:
        years = years[np.random.RandomState(rng.randint(0, 10**6)).permutation(years.size)]
    return kind, years


# ------------------------------------------------------------------ the check
def run(tier, res, force_search=False):
    from ibicus.utils import day_of_year

    rng = random.Random(C.seed() * 7919 + 7)
    res.rule = ("cases = (calendar span kind, start date, length, L, S) drawn from one PRNG (VERIF_SEED); a case is non-trivial when "
                "the series does not start on 1 Jan or the span/step combination differs; distinct = distinct (kind, min doy, max doy, span mod S, S, L) classes")
    res.trusted = C.BASE_TRUSTED + [
        "calendar arithmetic: ibicus.utils.day_of_year / month / year / season delegate to Python's datetime; Model.Calendar (proleptic Gregorian) is tied to them by the DrvCalendar correspondence on random and boundary dates in every accepted time encoding, and the harness' own independent calendar (datetime) judges the library on every time axis used",
        "numpy fancy-index assignment semantics (equal length or broadcast of a length-1 value) as modelled in Model.Skeleton.assignAt",
    ]
    res.assumptions = ["hook IBICUS_VERIF=1 NaN-fills result buffers so unassigned steps are observable",
                       "days of year are in 1..366 (guaranteed by the calendar)"]

    lean_ok = C.lean_phase(res, PROP, GEN, TARGETS)

    n_kernel = 60 if tier == "quick" else 400
    n_skel = 60 if tier == "quick" else 240
    if force_search or not lean_ok:
        n_kernel *= 3

    # ---- kernels (tier B validation of the translated kernels + the property's oracle on the real code)
    lines, expect, problems_all = [], [], []
    twin = None
    for k in range(n_kernel):
        if twin is not None:
            # call SEQUENCES: a second series with the same span length and the same (L, S) but another start date, processed
            # right after the first one in the same process (a cache keyed on too little would reuse the first one's centres)
            kind, dates0, datesO, L, S = twin
            shift = rng.choice([31, 59, 123, 184, rng.randint(1, 300)])
            dates = np.array([d + datetime.timedelta(days=shift) for d in dates0], dtype=object)
            kind = kind + "+twin"
            twin = None
        else:
            kind, dates = gen_span(rng, tier)
            _, datesO = gen_span(rng, tier)
            L, S = gen_LS(rng)
            if kind in ("tiny", "subannual", "oneyear") and rng.random() < 0.5:
                twin = (kind, dates, datesO, L, S)
        enc = probes.pick_kind(rng)  # the same days in one of the time encodings the library accepts
        shown, shownO = probes.present(dates, enc), probes.present(datesO, enc)
        probes.check_calendar(dates, problems_all, presented=shown)
        with warnings.catch_warnings():
            warnings.simplefilter("ignore")
            try:
                doyF, doyO = day_of_year(shown), day_of_year(shownO)
            except Exception:  # noqa: BLE001  (reported by check_calendar)
                continue
        norm, centres, adj, winF, winO, problems = real_cover_doy(L, S, doyF, doyO)
        case = {"kind": kind, "start": str(dates[0]), "n": int(dates.size), "L": L, "S": S, "time_encoding": enc}
        for p in problems:
            problems_all.append((p, {"what": "RunningWindowOverDaysOfYear", **case}))
        lines.append(f"postinit {L} {S}")
        expect.append(("postinit", case, "error ValueError" if norm == "ValueError" else f"ok {norm[0]} {norm[1]}"))
        if norm == "ValueError":
            res.count(("err", L, S), True)
            continue
        Ln, Sn = norm
        nontrivial = int(doyF.min()) != 1 or dates.size < 365
        res.count((kind, int(doyF.min()), int(doyF.max()), (int(doyF.max()) - int(doyF.min()) + 1) % Sn, Sn, Ln), nontrivial,
                  sample={**case, "centres": centres[:5], "n_centres": len(centres)})
        all_centres, centres = centres
        lines.append(f"centers {Sn} {C.ilist(doyF)}")
        expect.append(("centers", case, C.ilist(all_centres)))
        lines.append(f"use {Sn} {C.ilist(doyF)}")
        expect.append(("use", case, C.ilist(centres)))
        for c in rng.sample(centres, min(3, len(centres))):
            lines.append(f"adjust {Sn} {c} {C.ilist(doyF)}")
            expect.append(("adjust", {**case, "c": c}, C.ilist(adj[c])))
            lines.append(f"window {Ln} {c} {C.ilist(doyF)}")
            expect.append(("windowF", {**case, "c": c}, C.ilist(winF[c])))
            lines.append(f"window {Ln} {c} {C.ilist(doyO)}")
            expect.append(("windowO", {**case, "c": c}, C.ilist(winO[c])))
    # years
    for k in range(n_kernel):
        kind, years = gen_years(rng)
        L, S = rng.choice([(17, 9), (31, 1), (1, 1), (3, 1), (9, 9), (rng.randint(1, 40), rng.randint(1, 20))])
        norm, centres, adj, win, problems = real_cover_years(L, S, years)
        case = {"kind": "years-" + kind, "years": f"{int(years.min())}..{int(years.max())} ({np.unique(years).size} distinct)", "L": L, "S": S}
        for p in problems:
            problems_all.append((p, {"what": "RunningWindowOverYears", **case, "years_list": years.tolist()}))
        lines.append(f"postinit {L} {S}")
        expect.append(("postinit", case, "error ValueError" if norm == "ValueError" else f"ok {norm[0]} {norm[1]}"))
        if norm == "ValueError":
            continue
        Ln, Sn = norm
        res.count(("years", kind, np.unique(years).size, Sn, Ln), kind != "single", sample={**case, "centres": centres[:5]})
        lines.append(f"ycenters {Sn} {C.ilist(years)}")
        expect.append(("ycenters", case, C.ilist(centres)))
        for c in centres[:2]:
            lines.append(f"yadj {Sn} {c}")
            expect.append(("yadj", {**case, "c": c}, C.ilist(adj[c])))
            lines.append(f"ywin {Ln} {c}")
            expect.append(("ywin", {**case, "c": c}, C.ilist(win[c])))

    # ---- skeletons through the real apply_location with probe window functions
    sk_lines, sk_expect = probes.skeleton_cases(rng, n_skel, tier, res, problems_all)
    lines += sk_lines
    expect += sk_expect
    # the property's consequence "a defined value at every step for finite well-formed input" also rules out an exception: every
    # skeleton case is well-formed (non-empty dated series, 1 <= step <= length, a total probe window function), so a raise of the
    # real apply_location is a violation carrying the case, not only a broken correspondence with the model
    for what, case, exp in sk_expect:
        if exp.startswith("error"):
            problems_all.append((f"{what.split(':')[-1]}: the real apply_location raises {exp[6:]} on finite well-formed input (total probe window function)",
                                 {"what": "apply_location-raises/" + what.split(":")[-1], **case}))

    mismatches = []
    try:
        out = C.run_driver("DrvWindows", lines)
        for (what, case, exp), got in zip(expect, out):
            res.cov["traces_validated_against_impl"] += 1
            if exp != got:
                mismatches.append({"op": what, "case": case, "impl": exp[:400], "model": got[:400]})
    except (C.DriverError, Exception) as ex:  # noqa: BLE001
        mismatches.append({"op": "driver", "case": {}, "impl": "", "model": f"{type(ex).__name__}: {str(ex)[:400]}"})
    if mismatches:
        res.tie_broken.append(f"correspondence DrvWindows: {len(mismatches)} mismatches, first: {mismatches[0]}")
    # ---- the calendar model (dates -> day of year / season / consecutive days / the inferred calendar) against the library
    cal_mismatches = probes.calendar_correspondence(rng, tier, res, problems_all)
    if cal_mismatches:
        res.tie_broken.append(f"correspondence DrvCalendar: {len(cal_mismatches)} mismatches, first: {cal_mismatches[0]}")
        mismatches = mismatches + cal_mismatches

    # ---- all window-using debiasers: finite output at every step (the property's consequence)
    n_deb = 6 if tier == "quick" else 40
    if force_search or not lean_ok or mismatches:
        n_deb *= 3
    probes.debiasers_finite(rng, n_deb, res, problems_all)
    probes.leap_day_windows(rng, res, problems_all)

    # ---- the smallest window samples (own PRNG streams: the cases above keep theirs).  Quantifier covered: every admissible
    # window length / step length INCLUDING one-day and one-year windows, the leap-year-only year sets of ONE or two years that
    # a one-day window on day 366 selects from a future period of a few years, series of one to three steps / one step per
    # year: windows whose sample of the corrected series is a single step must still assign it (exactly once, from that sample)
    n_comp = 32 if tier == "quick" else 240
    n_small = 2 if tier == "quick" else 10
    if force_search or not lean_ok or mismatches:
        n_comp, n_small = 3 * n_comp, 3 * n_small
    import time as _time

    t0 = _time.time()
    probes.composed_window_cases(random.Random(C.seed() * 7919 + 71), n_comp, res, problems_all)
    probes.debiasers_small_samples(random.Random(C.seed() * 7919 + 73), n_small, res, problems_all)
    res.extra["small_window_samples"] = {"composed_cases": n_comp, "real_debiaser_cases": n_small, "wall_s": round(_time.time() - t0, 2)}

    # ---- leap-year-only year sets through ALL eight debiasers (own PRNG stream).  Quantifier covered: "the leap-year-only year
    # sets that a one-day window on day 366 selects" x "all debiasers that use the windows": the sample of the day-366 window has
    # non-consecutive years (stride 4, 8 across 1900 / 2100) in obs, cm_hist and cm_future alike; every per-window computation
    # that uses the years of its sample (ISIMIP trend removal / restoration for tas, psl, rlds with and without the significance
    # test; the CDFt / QDM year loops) must still assign these steps -- a raise or a non-finite step is a violation with its input
    n_leap = 5 if tier == "quick" else 40
    if force_search or not lean_ok or mismatches:
        n_leap *= 3
    t0 = _time.time()
    probes.leap_year_sets_all_debiasers(random.Random(C.seed() * 7919 + 79), n_leap, res, problems_all)
    res.extra["leap_year_sets_all_debiasers"] = {"cases": n_leap, "wall_s": round(_time.time() - t0, 2)}

    # ---- thorough: exhaustive enumeration of (first day, last day, step) on the real centre function (supporting test)
    if tier == "thorough":
        from ibicus.utils import RunningWindowOverDaysOfYear

        n_enum = 0
        with warnings.catch_warnings():
            warnings.simplefilter("ignore")
            for S in range(1, 34, 2):
                w = RunningWindowOverDaysOfYear(window_length_in_days=max(S, 33), window_step_length_in_days=S)
                hS = S // 2
                for mn in range(1, 367):
                    for mx in range(mn, 367):
                        cs = w._get_window_centers(np.array([mn, mx]))
                        n_enum += 1
                        # blocks [c-h, c+h] must tile [mn, mx]: consecutive centres S apart, first block reaches mn, last reaches mx
                        ok = cs.size > 0 and cs[0] - hS <= mn and cs[-1] + hS >= mx and (np.diff(cs) == S).all() and cs[0] >= mn - hS + 0 and cs[-1] <= mx
                        if not ok:
                            problems_all.append((f"days {mn}..{mx}, step {S}: centres {cs[:3].tolist()}..{cs[-3:].tolist()} do not tile the span exactly once",
                                                 {"what": "RunningWindowOverDaysOfYear/enumeration", "mn": mn, "mx": mx, "S": S}))
                            break
        res.extra["exhaustive_enumeration"] = {"cases": n_enum, "space": "all 1<=mn<=mx<=366, odd S<=33", "exhaustive": True}
        res.cov["evaluations"] += n_enum

    # ---- verdict
    seen = set()
    for p, case in problems_all:
        key = (p.split(":")[0][:60], case.get("what"))
        if key in seen:
            continue
        seen.add(key)
        res.violations.append((f"{case.get('what')}: {p}", {"property": PROP, "failing_input": case, "problem": p,
                                                             "signature": {"what": case.get("what")}}))
    if res.tie_broken and not problems_all:
        res.violations.append(("proof obligation / correspondence no longer checks: " + "; ".join(res.tie_broken)[:600],
                               {"property": PROP, "failing_input": None, "broken": res.tie_broken, "mismatches": mismatches[:5]}))
    return res
